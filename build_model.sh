#!/bin/sh
# builds the Coq development (full .vo build), extracts the model and compiles the OCaml driver
set -e
cd /verif/coq
[ -f Makefile ] || coq_makefile -f _CoqProject -o Makefile >/dev/null 2>&1
timeout 3000 make -j16 theories/Export.vo >/verif/.build/coq_make.log 2>&1 || { tail -30 /verif/.build/coq_make.log; exit 1; }
mkdir -p /verif/.build/ml
cd /verif/coq/extract
if [ ! -f /verif/.build/ml/ircmodel ] || [ ../theories/Export.vo -nt /verif/.build/ml/ircmodel ] || [ driver.ml -nt /verif/.build/ml/ircmodel ]; then
  (cd /verif/.build/ml && cp /verif/coq/extract/Extract.v . && timeout 600 coqc -Q /verif/coq/theories IRC Extract.v >/dev/null 2>&1 && cp /verif/coq/extract/driver.ml . && ocamlfind ocamlopt -O2 -w -a model.mli model.ml driver.ml -o ircmodel.new 2>&1 | grep -v "^$" | head -20; mv ircmodel.new ircmodel)
fi
