#!/bin/bash
# applies every stored seeded change to /repo in turn, runs the quick check of the property it breaks (dev mode: proofs not
# rebuilt), undoes it, and reports which are caught; /repo must be clean before and is clean afterwards
cd /verif; LOG=/verif/.build/scratch/seed_regress.log; : > $LOG
[ -z "$(git -C /repo status --short)" ] || { echo "/repo is not clean"; exit 2; }
for d in ${@:-$(ls seeded)}; do
  id=${d:0:3}
  ( cd /repo && git apply /verif/seeded/$d/patch.diff ) || { echo "$d patch does not apply" >> $LOG; continue; }
  out=$(VERIF_DEV_SKIP_PROOF=1 python3 check.py $id --tier quick 2>&1); rc=$?
  nf=$(echo "$out" | grep -c 'no-failing-input-found'); v=$(echo "$out" | grep -c VIOLATION)
  echo "$d rc=$rc violations=$v tie-only=$nf" >> $LOG
  git -C /repo checkout -- .
done
git -C /repo status --short | head -3
cat $LOG
