import json,re,sys
out = open('/verif/.build/scratch/regress_cur.txt').read()
seed, rc = sys.argv[1], int(sys.argv[2])
whats = []
for m in re.finditer(r"replay=(\S+)( no-failing-input-found)?", out):
    try:
        whats.append((json.load(open(m.group(1)))["what"][:400], bool(m.group(2))))
    except Exception as e:
        whats.append((repr(e), False))
print(json.dumps({"seed": seed, "rc": rc, "whats": whats}))
