"""gen.py - structured random generation of configurations and multi-client histories.
All randomness comes from the random.Random instance passed in."""
import random
from irc import Config, Trace

NICKS = ["alice", "bob", "carol", "dave", "admin", "Alice", "éva", "x", "oper2"]
CHANS = ["#a", "#b", "&loc", "#pre", "#sec", "#A", "#new", "#café"]
KEYS = ["k1", "key", "a:b", "ké"]
TEXTS = ["hi", "hello world", ":colon first", "a:b c", "  two  spaces ", "ünï cödé 漢", "", "x", "tab\there",
         "ends with colon:", "!@#$%^&*()"]
# texts close to the input limit made of multi-byte characters (a relay adds the prefix and passes 2000 bytes)
LONG_TEXTS = ["é" * 985, "x" + "é" * 985, "😀" * 492, "xx" + "😀" * 491, "y" * 1960]
PASSWORDS = ["secret1", "topsecret", "operpass", "wrongpw"]


def rand_mask(rng, nicks):
    n = rng.choice(nicks)
    forms = [n, n + "!*@*", "*!*@127.0.0.1", "*!*@*", n + "!~" + n + "@127.0.0.1", n[:1] + "*!*@*", "*" + n[-1:] + "!*@*",
             "?" * len(n) + "!*@*", n + "@127.0.0.1", n + "!~" + n, "*!~" + n + "@*", "*", "nobody!*@*", "*!*@10.*",
             n[:-1] + "?", "*a*!*@*", n + "!*@127.0.0.?"]
    return rng.choice(forms)


def rand_config(rng, profile=None):
    profile = profile or {}
    c = Config()
    if rng.random() < profile.get("p_server_password", 0.15):
        c.password = rng.choice(PASSWORDS[:2])
    c.max_joins = rng.choice(profile.get("max_joins", [None, None, None, 1, 2, 3]))
    c.max_connections = rng.choice(profile.get("max_connections", [None]))
    ops = []
    if rng.random() < profile.get("p_operators", 0.8):
        ops.append(dict(name="admin", password="operpass",
                        mask=rng.choice([None, None, "*!*@127.0.0.1", "admin!*@*", "*!*@10.0.0.*", "alice!*@*", "admin@127.0.0.1", "admin",
                                         "admin!~admin", "adm?n!*@*"])))
        if rng.random() < 0.3:
            ops.append(dict(name="oper2", password="topsecret", mask=None))
    c.operators = ops
    users = []
    if rng.random() < profile.get("p_users", 0.3):
        users.append(dict(name="carol", nick="carol", password=rng.choice([None, "secret1"]),
                          mask=rng.choice([None, None, "carol!*@*", "*!*@10.*", "*!~carol@127.0.0.1", "carol", "carol@127.0.0.1"])))
        if rng.random() < 0.4:
            # a configured user whose user name is not its nick, without password: whoever gives this USER name is +r
            users.append(dict(name="bobU", nick="bob", password=None, mask=None))
    c.users = users
    c.default_modes = "".join(ch for ch in "ioOrw" if rng.random() < profile.get("p_default_mode", 0.06))
    chans = []
    if rng.random() < profile.get("p_channels", 0.7):
        ranks = {}
        for k in ("founders", "protecteds", "operators", "half_operators", "voices"):
            if rng.random() < 0.35:
                ranks[k] = rng.sample(NICKS[:5], rng.randint(1, 2))
        ch = dict(name="#pre", topic=rng.choice([None, "Pre topic", "t:with colon"]),
                  flags="".join(f for f in "imstn" if rng.random() < 0.25),
                  key=rng.choice([None, None, "k1"]), limit=rng.choice([None, None, 1, 2, 3]))
        for k in ("ban", "exception", "invex"):
            if rng.random() < 0.3:
                ch[k] = [rand_mask(rng, NICKS[:4]) + ("" if rng.random() < 0.5 else "")]
        ch.update(ranks)
        chans.append(ch)
        if rng.random() < 0.5:
            chans.append(dict(name="#sec", topic="secret topic", flags="s" + rng.choice(["", "n", "i", "m"]),
                              operators=["alice"]))
    c.channels = chans
    c.motd = rng.choice(["Hello, world!", "motd: with colon", "ünï"])
    if rng.random() < 0.2:
        c.admin_info2 = "second line"
    if rng.random() < 0.2:
        c.admin_email = "admin@irc.irc"
    return c


class Gen:
    """keeps a rough picture of the history to produce mostly-valid commands"""

    def __init__(self, rng, trace, profile=None):
        self.rng = rng
        self.t = trace
        self.profile = profile or {}
        self.conns = {}     # cid -> dict(nick, reg, chans:set)
        self.next_cid = 0
        self.chans_seen = set(c["name"] for c in trace.cfg.channels)

    # -- helpers
    def nick(self):
        return self.rng.choice(NICKS if self.rng.random() < 0.9 else ["nobody", "a b", "", "#x", "a.b", "a,b"])

    def chan(self):
        r = self.rng.random()
        if r < 0.85:
            return self.rng.choice(CHANS)
        return self.rng.choice(["#none", "#", "nochan", "#a b", "#x:y", "&", "#a\x07"])

    def cur_nicks(self):
        l = [c["nick"] for c in self.conns.values() if c["reg"] and c["nick"]]
        return l or ["alice"]

    def some_nick(self):
        return self.rng.choice(self.cur_nicks()) if self.rng.random() < 0.8 else self.nick()

    def text(self):
        return self.rng.choice(TEXTS)

    def mask(self):
        return rand_mask(self.rng, self.cur_nicks())

    def with_repeat(self, items):
        """now and then a name comes again after another name (a,b,a): the handlers judge every entry of a list"""
        if len(items) >= 1 and self.rng.random() < 0.12:
            items = list(items) + ([self.rng.choice(["nobody", "#none"])] if len(items) == 1 else []) + [items[0]]
        return items

    def registered(self):
        return [c for c, v in self.conns.items() if v["reg"]]

    def unregistered(self):
        return [c for c, v in self.conns.items() if not v["reg"]]

    # -- events
    def new_conn(self, register=True):
        cid = self.next_cid
        self.next_cid += 1
        self.t.open(cid)
        self.conns[cid] = dict(nick=None, reg=False, chans=set())
        if register:
            taken = set(self.cur_nicks())
            free = [n for n in NICKS if n not in taken] or NICKS
            nick = self.rng.choice(free)
            cfg = self.t.cfg
            pw = None
            uc = [u for u in cfg.users if u["name"] == nick]
            if uc and uc[0].get("password"):
                pw = uc[0]["password"]
            elif cfg.password:
                pw = cfg.password
            uname = nick if (uc or self.rng.random() < 0.7) else nick + "U"
            if not uc and cfg.password is None and any(u["name"] == "bobU" for u in cfg.users) and nick != "bob" and self.rng.random() < 0.25:
                uname = "bobU"
            if pw is not None and self.rng.random() < 0.9:
                self.t.line(cid, "PASS " + pw)
            if self.rng.random() < 0.2:
                self.t.line(cid, "CAP LS 302")
                if self.rng.random() < 0.7:
                    self.t.line(cid, "CAP REQ :multi-prefix")
                self.t.line(cid, "NICK " + nick)
                self.t.line(cid, "USER %s 8 * :Real %s" % (uname, nick))
                self.t.line(cid, "CAP END")
            elif self.rng.random() < 0.3:
                # USER first: both orders are legal and must yield the same identity
                self.t.line(cid, "USER %s 8 * :Real %s" % (uname, nick))
                self.t.line(cid, "NICK " + nick)
            else:
                self.t.line(cid, "NICK " + nick)
                self.t.line(cid, "USER %s 8 * :Real %s" % (uname, nick))
            self.conns[cid].update(nick=nick, reg=True)
        return cid

    def close_conn(self, cid):
        self.t.close(cid)
        self.conns.pop(cid, None)

    def mode_string(self, cid):
        rng = self.rng
        parts, args = [], []
        s = ""
        for _ in range(rng.randint(1, 4)):
            s += rng.choice("+-")
            for _ in range(rng.randint(1, 3)):
                l = rng.choice("imtnsklbeIqaohv" if rng.random() < 0.97 else "xZ")
                s += l
                if l in "beI":
                    if rng.random() < 0.85:
                        args.append(self.mask())
                elif l in "qaohv":
                    if rng.random() < 0.95:
                        args.append(self.some_nick())
                elif l == "l":
                    if s.rstrip("imtnsklbeIqaohvxZ")[-1:] == "+" or rng.random() < 0.05:
                        args.append(rng.choice(["1", "2", "3", "0", "10", "x", "99999999999999999999999"]))
                elif l == "k":
                    if s.rstrip("imtnsklbeIqaohvxZ")[-1:] == "+" or rng.random() < 0.05:
                        args.append(rng.choice(KEYS))
        return s + ("" if not args else " " + " ".join(args))

    def command(self, cid):
        # a generated line always fits the input limit (1998 bytes before CR LF): a long text is cut to fit
        ln = self.command_raw(cid)
        while len(ln.encode("utf-8")) > 1996:
            ln = ln[:-4]
        return ln

    def command_raw(self, cid):
        rng = self.rng
        w = self.profile.get("weights", {})
        verbs = ["JOIN", "PART", "PRIVMSG", "NOTICE", "MODE", "UMODE", "TOPIC", "KICK", "INVITE", "NICK", "NAMES", "WHO",
                 "WHOIS", "LIST", "AWAY", "OPER", "KILL", "WALLOPS", "ISON", "USERHOST", "LUSERS", "WHOWAS", "MISC",
                 "QUIT", "PING", "DIE", "REG", "BAD"]
        base = dict(JOIN=10, PART=4, PRIVMSG=8, NOTICE=3, MODE=8, UMODE=3, TOPIC=3, KICK=4, INVITE=3, NICK=3, NAMES=2,
                    WHO=2, WHOIS=2, LIST=1, AWAY=1, OPER=2, KILL=0.7, WALLOPS=1, ISON=1, USERHOST=1, LUSERS=1,
                    WHOWAS=1, MISC=2, QUIT=0.7, PING=0.5, DIE=0.05, REG=0.5, BAD=2)
        base.update(w)
        v = rng.choices(verbs, weights=[base[x] for x in verbs])[0]
        c = self.conns[cid]
        if v == "JOIN":
            n = 1 if rng.random() < 0.75 else rng.randint(2, 3)
            chs = self.with_repeat([self.chan() for _ in range(n)])
            n = len(chs)
            line = "JOIN " + ",".join(chs)
            if rng.random() < 0.3:
                line += " " + ",".join(rng.choice(KEYS) for _ in range(n if rng.random() < 0.9 else n + 1))
            c["chans"].update(chs)
            return line
        if v == "PART":
            chs = [rng.choice(sorted(c["chans"]) or CHANS) if rng.random() < 0.8 else self.chan()
                   for _ in range(1 if rng.random() < 0.8 else 2)]
            chs = self.with_repeat(chs)
            return "PART " + ",".join(chs) + ("" if rng.random() < 0.6 else " :" + self.text())
        if v in ("PRIVMSG", "NOTICE"):
            ts = []
            for _ in range(1 if rng.random() < 0.7 else rng.randint(2, 3)):
                r = rng.random()
                if r < 0.5:
                    ts.append(self.chan())
                elif r < 0.8:
                    ts.append(self.some_nick())
                else:
                    ts.append("".join(rng.sample("~&@%+", rng.randint(1, 3))) + self.chan())
            return "%s %s :%s" % (v, ",".join(self.with_repeat(ts)), self.text() if rng.random() < 0.97 else rng.choice(LONG_TEXTS))
        if v == "MODE":
            ch = rng.choice(sorted(c["chans"]) or CHANS) if rng.random() < 0.85 else self.chan()
            r = rng.random()
            if r < 0.1:
                return "MODE " + ch
            if r < 0.2:
                return "MODE %s %s" % (ch, rng.choice(["b", "+b", "e", "+I", "-b", "+beI"]))
            return "MODE %s %s" % (ch, self.mode_string(cid))
        if v == "UMODE":
            tgt = c["nick"] if rng.random() < 0.8 else self.some_nick()
            if rng.random() < 0.15:
                return "MODE %s" % tgt
            s = ""
            for _ in range(rng.randint(1, 3)):
                s += rng.choice("+-") + "".join(rng.choice("iwoOr" if rng.random() < 0.95 else "xs")
                                                for _ in range(rng.randint(1, 2)))
            return "MODE %s %s" % (tgt, s)
        if v == "TOPIC":
            ch = rng.choice(sorted(c["chans"]) or CHANS) if rng.random() < 0.85 else self.chan()
            r = rng.random()
            return "TOPIC " + ch if r < 0.3 else "TOPIC %s :%s" % (ch, self.text() if r < 0.97 else rng.choice(LONG_TEXTS))
        if v == "KICK":
            ch = rng.choice(sorted(c["chans"]) or CHANS) if rng.random() < 0.85 else self.chan()
            us = self.with_repeat([self.some_nick() for _ in range(1 if rng.random() < 0.7 else rng.randint(2, 3))])
            return "KICK %s %s" % (ch, ",".join(us)) + ("" if rng.random() < 0.5 else " :" + (self.text() if rng.random() < 0.97 else rng.choice(LONG_TEXTS)))
        if v == "INVITE":
            return "INVITE %s %s" % (self.some_nick(), self.chan())
        if v == "NICK":
            n = self.nick()
            if rng.random() < 0.6 and n and " " not in n:
                c["nick"] = c["nick"]  # may or may not succeed; keep rough picture
            return "NICK " + (n if n and " " not in n else ":" + n)
        if v == "NAMES":
            return "NAMES" if rng.random() < 0.4 else "NAMES " + ",".join(self.with_repeat([self.chan() for _ in range(rng.randint(1, 2))]))
        if v == "WHO":
            r = rng.random()
            return "WHO " + (self.chan() if r < 0.4 else self.some_nick() if r < 0.6 else
                             rng.choice(["*", "a*", "*o*", "?ob", "*!*@127.*", "*aaaaaaaaaaaaaaaa", "Real*", "*é*", "?va", "??a", self.mask(), self.mask()]))
        if v == "WHOIS":
            ms = [self.some_nick() if rng.random() < 0.7 else rng.choice(["*", "a*", "?ob", "*o*"])
                  for _ in range(1 if rng.random() < 0.7 else 2)]
            return "WHOIS " + ("" if rng.random() < 0.9 else "irc.irc ") + ",".join(self.with_repeat(ms))
        if v == "LIST":
            return "LIST" if rng.random() < 0.5 else "LIST " + ",".join(self.chan() for _ in range(rng.randint(1, 2)))
        if v == "AWAY":
            return "AWAY" if rng.random() < 0.4 else "AWAY :" + (self.text() if rng.random() < 0.97 else rng.choice(LONG_TEXTS))
        if v == "OPER":
            return "OPER %s %s" % (rng.choice(["admin", "admin", "oper2", "nobody"]),
                                   rng.choice(["operpass", "operpass", "topsecret", "wrongpw"]))
        if v == "KILL":
            return "KILL %s :%s" % (self.some_nick(), self.text() or "bye")
        if v == "WALLOPS":
            return "WALLOPS :" + self.text()
        if v == "ISON":
            return "ISON " + " ".join(self.nick() or "x" for _ in range(rng.randint(1, 3)))
        if v == "USERHOST":
            return "USERHOST " + " ".join(self.some_nick() or "x" for _ in range(rng.randint(1, 3)))
        if v == "LUSERS":
            return "LUSERS"
        if v == "WHOWAS":
            return "WHOWAS " + self.nick() + rng.choice(["", " 1", " 0", " 2", " x"])
        if v == "QUIT":
            return "QUIT" + rng.choice(["", " :bye"])
        if v == "PING":
            return rng.choice(["PING tok", "PING :a b", "PONG x", "PING", "PONG :", "PING :", "PONG :LALAL", "PONG"])
        if v == "DIE":
            return rng.choice(["DIE", "DIE :going down", "SQUIT irc.irc :bye", "SQUIT other.srv :x"])
        if v == "REG":
            return rng.choice(["PASS x", "USER a b c d", "CAP LS", "CAP LIST", "CAP REQ :multi-prefix", "CAP END",
                               "CAP REQ :foo", "AUTHENTICATE"])
        if v == "MISC":
            return rng.choice(["MOTD", "VERSION", "ADMIN", "INFO", "TIME", "STATS u", "STATS m", "STATS x", "STATS c", "STATS o", "STATS l", "LINKS",
                               "HELP", "HELP COMMANDS", "HELP nothing", "REHASH", "RESTART", "CONNECT a.b 6667",
                               "MOTD irc.irc", "TIME irc.irc", "LINKS a.b c.d", "VERSION x", "ADMIN *.irc"])
        # BAD: malformed / odd lines
        return rng.choice([
            "", "   ", ":", ": ", ":src", ":bad:src CMD", "FOO", "foo bar", "JOIN", "PRIVMSG", "PRIVMSG bob", "MODE",
            "KICK #a", "join #a", "Join #b", ":alice PRIVMSG bob :spoof", ":a!b@c JOIN #a", "TOPIC #a a:b",
            "JOIN #a:b", "NICK :a b", "NICK :", "JOIN :#a b", "USERHOST a b c d e f g h i j k l m n o p q r s t u v w",
            "MODE #a +l", "MODE #a +o", "MODE #a +k", "MODE #a -l 5", "MODE #a +l x", "MODE #a x", "WHOIS", "WHO",
            "PRIVMSG #a,,bob :x", "PRIVMSG , :x", "INVITE bob", "STATS", "STATS uu", "CAP", "CAP XX", "CAP LS 301",
            "CAP LS x", "OPER admin", "KILL bob", "PART", "LIST #a a", "WHOWAS", "CONNECT", "CONNECT a.b x",
            "PRIVMSG " + "~&@%+" + "#a :all prefixes", "PRIVMSG &&loc :amp", "PRIVMSG & :x", "PRIVMSG # :x",
            "PRIVMSG + :x", "PRIVMSG @ :x", "NAMES #a,", "JOIN #a,", "JOIN ,", "KICK #a bob,bob", "JOIN #a,#a",
            "MODE #a -i+i", "MODE #a +l-l 5", "MODE #a +l 5 -l", "MODE #a +k-k key", "MODE #a +b", "MODE #a +bb x",
            "TOPIC #a :\x0cff", "PRIVMSG bob :a\rb", "\tJOIN #a", "JOIN\t#a", "PRIVMSG bob\t:tabbed",
            "WHO *aaaaaaaaaaaaaaaaaaaaaaaa", "WHO ?", "WHO é?", "MODE #a +b *b*", "A" * 600,
            "PRIVMSG bob :" + "x" * 1984, "PRIVMSG bob :" + "x" * 1985, "PART #a,#a", "PART #a,#b,#a", "KICK #a bob,carol,bob", "MODE #a -b nobody!*@*", "MODE #a -I nobody!*@*",
        ])

    def step(self):
        rng = self.rng
        r = rng.random()
        regs, unregs = self.registered(), self.unregistered()
        if (not regs and r < 0.9) or (len(self.conns) < self.profile.get("max_conns", 5) and r < 0.07):
            self.new_conn(register=rng.random() < 0.85)
        elif self.conns and r < 0.07 + self.profile.get("p_close", 0.03):
            self.close_conn(rng.choice(sorted(self.conns)))
        elif unregs and r < 0.2:
            cid = rng.choice(unregs)
            ln = rng.choice(["NICK " + self.nick(), "USER u 8 * :R", "PASS " + rng.choice(PASSWORDS), "CAP LS 302",
                             "CAP END", "JOIN #a", "PRIVMSG alice :hi", "QUIT", "WHO *", "NICK alice", "LUSERS",
                             "MODE alice +i", "OPER admin operpass", self.command(cid)])
            self.t.line(cid, ln)
            if ln.startswith("QUIT"):
                self.conns.pop(cid, None)
        elif regs:
            cid = rng.choice(regs)
            ln = self.command(cid)
            self.t.line(cid, ln)
            if ln.startswith("QUIT"):
                self.conns.pop(cid, None)
        else:
            self.new_conn()


def gen_trace(rng, tid, length=30, profile=None, cfg=None):
    cfg = cfg or rand_config(rng, profile)
    t = Trace(tid, cfg)
    g = Gen(rng, t, profile)
    for _ in range((profile or {}).get("initial_conns", 2)):
        g.new_conn()
    while len(t.events) < length:
        g.step()
    return t
