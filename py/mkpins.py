#!/usr/bin/env python3
"""mkpins.py [--check] : pins the STATEMENT of every property theorem (coq/props/Cxx.v): sha256 of the text between
'Theorem <name>' and its 'Proof', comments removed, blanks normalised -> coq/props/pins.json.  check.py compares on every run: a
theorem whose statement differs from its pin, or a pinned theorem that is gone, breaks the proof side of that property (so that a
statement is never quietly weakened); after a reviewed edit of a statement run this script again and commit the pins with it."""
import glob, hashlib, json, os, re, sys
HERE = os.path.dirname(os.path.dirname(os.path.abspath(__file__)))
sys.path.insert(0, HERE)


def statements(path):
    from check import strip_coq
    src = strip_coq(open(path).read())
    out = {}
    for m in re.finditer(r"^Theorem\s+(\w+)(.*?)^Proof\b", src, re.M | re.S):
        out[m.group(1)] = hashlib.sha256(" ".join(m.group(2).split()).encode()).hexdigest()[:24]
    return out


def current():
    return {os.path.basename(f)[:-2]: statements(f) for f in sorted(glob.glob(os.path.join(HERE, "coq", "props", "C*.v")))}


if __name__ == "__main__":
    cur = current()
    p = os.path.join(HERE, "coq", "props", "pins.json")
    if "--check" in sys.argv:
        old = json.load(open(p))
        bad = [(k, n) for k in old for n in old[k] if cur.get(k, {}).get(n) != old[k][n]]
        print("differs:", bad)
        sys.exit(1 if bad else 0)
    json.dump(cur, open(p, "w"), indent=1, sort_keys=True)
    print("pinned", sum(len(v) for v in cur.values()), "statements")
