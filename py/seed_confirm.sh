#!/bin/bash
# usage: seed_confirm.sh <ID> : confirms a sub-agent's seeded change in its scratch worktree /tmp/mut/<ID>
# (no git stash: the stash is shared by all worktrees of /repo; the tree is set from patch.diff instead)
ID=$1; WT=/tmp/mut/$ID; export CARGO_TARGET_DIR=$WT/target CARGO_NET_OFFLINE=true
cd $WT || exit 2
LOG=$WT/confirm.log; : > $LOG
git checkout -q -- src && git apply patch.diff || { echo "patch.diff does not apply to a clean tree" >> $LOG; cat $LOG; exit 2; }
echo "== with change: cargo test (single-threaded, the suite shares a port counter)" >> $LOG
cargo test --offline -- --test-threads=1 2>&1 | grep -E "^test result|FAILED|failed" >> $LOG
# other people's test runs on this machine use the same ports: a test that failed is re-run alone (up to 3 times)
FAILED_TESTS=$(grep -E "^test .* \.\.\. FAILED" $LOG | sed -E 's/^test (.*) \.\.\. FAILED/\1/' | sort -u)
if [ -n "$FAILED_TESTS" ]; then
  ALLOK=1
  for t in $FAILED_TESTS; do
    ok=0
    for k in 1 2 3; do
      if cargo test --offline "$t" -- --test-threads=1 --exact 2>&1 | grep -q "test result: ok. 1 passed"; then ok=1; break; fi
      sleep 2
    done
    echo "re-run alone: $t -> $([ $ok = 1 ] && echo passes || echo FAILS)" >> $LOG
    [ $ok = 1 ] || ALLOK=0
  done
  [ $ALLOK = 1 ] && echo "test result: ok. every test that failed in the full run passes when re-run alone (port collisions with concurrent runs)" >> $LOG
fi
cargo build --offline >/dev/null 2>&1
python3 demo.py >$WT/demo_with.out 2>&1; echo "demo with change: exit $?" >> $LOG
git checkout -q -- src
cargo build --offline >/dev/null 2>&1
python3 demo.py >$WT/demo_without.out 2>&1; echo "demo without change: exit $?" >> $LOG
git apply patch.diff
git diff -- src > $WT/patch.confirmed.diff
cat $LOG
