#!/bin/bash
# usage: seed_confirm.sh <ID> : confirms a sub-agent's seeded change in its scratch worktree /tmp/mut/<ID>
ID=$1; WT=/tmp/mut/$ID; export CARGO_TARGET_DIR=$WT/target CARGO_NET_OFFLINE=true
cd $WT || exit 2
LOG=$WT/confirm.log; : > $LOG
echo "== with change: cargo test (single-threaded, the suite shares a port counter)" >> $LOG
cargo test --offline -- --test-threads=1 2>&1 | grep -E "^test result|FAILED|failed" >> $LOG
cargo build --offline >/dev/null 2>&1
python3 demo.py >$WT/demo_with.out 2>&1; echo "demo with change: exit $?" >> $LOG
git stash -q -- src
cargo build --offline >/dev/null 2>&1
python3 demo.py >$WT/demo_without.out 2>&1; echo "demo without change: exit $?" >> $LOG
git stash pop -q
git diff -- src > $WT/patch.confirmed.diff
cat $LOG
