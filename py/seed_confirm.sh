#!/bin/bash
# usage: seed_confirm.sh <ID> : confirms a sub-agent's seeded change in its scratch worktree /tmp/mut/<ID>
# (no git stash: the stash is shared by all worktrees of /repo; the tree is set from patch.diff instead)
ID=$1; WT=/tmp/mut/$ID; export CARGO_TARGET_DIR=$WT/target CARGO_NET_OFFLINE=true
cd $WT || exit 2
LOG=$WT/confirm.log; : > $LOG
git checkout -q -- src && git apply patch.diff || { echo "patch.diff does not apply to a clean tree" >> $LOG; cat $LOG; exit 2; }
echo "== with change: cargo test (single-threaded, the suite shares a port counter)" >> $LOG
cargo test --offline -- --test-threads=1 2>&1 | grep -E "^test result|FAILED|failed" >> $LOG
cargo build --offline >/dev/null 2>&1
python3 demo.py >$WT/demo_with.out 2>&1; echo "demo with change: exit $?" >> $LOG
git checkout -q -- src
cargo build --offline >/dev/null 2>&1
python3 demo.py >$WT/demo_without.out 2>&1; echo "demo without change: exit $?" >> $LOG
git apply patch.diff
git diff -- src > $WT/patch.confirmed.diff
cat $LOG
