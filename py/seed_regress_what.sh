#!/bin/bash
# usage: regress_what.sh seed... : for each seed (taking the lock per seed) run its property's quick check and record rc and the 'what's
cd /verif; OUT=/verif/.build/scratch/regress_what.jsonl
for d in "$@"; do
  grep -q "\"seed\": \"$d\"" $OUT 2>/dev/null && continue
  (
  flock 9
  id=${d:0:3}
  ( cd /repo && git apply /verif/seeded/$d/patch.diff ) || { echo "{\"seed\": \"$d\", \"rc\": -1}" >> $OUT; exit; }
  out=$(VERIF_DEV_SKIP_PROOF=1 python3 check.py $id --tier quick 2>&1); rc=$?
  git -C /repo checkout -- .
  echo "$out" | grep -E "VIOLATION" | head -6 > /verif/.build/scratch/regress_cur.txt
  python3 /verif/py/seed_regress_rec.py "$d" "$rc" >> $OUT
  ) 9>/verif/.build/scratch/r6.lock
done
echo ALLDONE
