#!/usr/bin/env python3
"""seed_table.py <regress_what.jsonl> [suffixes] : markdown rows for DESIGN.md section 11.6 from seeded/*/meta.json and the
recorded detections (first replay of the property's quick check run against each stored change)"""
import json, sys, os, re
det = {}
for l in open(sys.argv[1]):
    r = json.loads(l)
    det[r["seed"]] = r
suffixes = sys.argv[2] if len(sys.argv) > 2 else "ef"
for d in sorted(os.listdir("/verif/seeded"), key=lambda x: (x[-1], x)):
    if d[-1] not in suffixes:
        continue
    m = json.load(open("/verif/seeded/%s/meta.json" % d))
    summ = " ".join(str(m.get("summary", "")).split())[:250].replace("|", "/")
    r = det.get(d)
    if r is None:
        caught = "(not re-run)"
    elif r["rc"] == 0 or not r.get("whats"):
        caught = "MISSED by the quick check"
    else:
        found = [w for w, tie in r["whats"] if not tie]
        w = (found or [r["whats"][0][0]])[0]
        w = " ".join(w.split())[:230].replace("|", "/")
        w = re.sub(r"(.)\1{12,}", lambda mm: mm.group(1) * 6 + "...", w)
        caught = "%s: %s%s" % (d[:3], w, "" if found else " (tie only: no-failing-input-found)")
    print("| `%s` | %s | %s | %s |" % (d, d[:3], summ, caught))
