#!/bin/bash
# usage: seedtest.sh <patch.diff> <check ids...> : applies the patch to /repo, runs the quick checks, undoes it
P=$1; shift
cd /repo && git apply "$P" || { echo "patch does not apply"; exit 2; }
cd /verif
for id in "$@"; do
  out=$(python3 check.py $id --tier quick 2>&1); rc=$?
  echo "== $id exit=$rc"; echo "$out" | grep -E "VIOLATION|KNOWN" | head -5
  for f in $(echo "$out" | grep -oE "replay=\S+" | head -2 | cut -d= -f2); do python3 -c "
import json,sys; r=json.load(open('$f')); print('   ', r['what'][:300])"; done
done
git -C /repo checkout -- . ; git -C /repo status --short | head -3
