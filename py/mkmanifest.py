#!/usr/bin/env python3
"""writes /verif/MANIFEST.json from the table below"""
import json, os, subprocess
VERIF = os.path.dirname(os.path.dirname(os.path.abspath(__file__)))
ALL = ["C%02d" % i for i in range(1, 21)]

LEVEL_NOTE = ("Trusted: Coq 8.16.1 kernel; no axioms (Print Assumptions of each theorem re-read on every run, expected 'Closed under the global "
              "context'); extraction with ExtrOcamlBasic only + hand-written OCaml driver; the Rust harness that compiles /repo/src by path, the "
              "cfg(irc_verif) dump hook and the python canonicalisation. The theorems are about a hand-written Gallina model; the model is tied to "
              "the code by differential execution on every run, which samples and does not prove. ")

CLAIMS = {
    "C14": dict(
        technique="Coq proof (greedy segment matcher = textbook glob, by induction over the segment list) + exhaustive/random differential run of the model and of the extracted glob spec against the real match_wildcard",
        text="Theorems C14_glob / C14_glob_relation: for ALL patterns and texts the model of match_wildcard equals the textbook glob function (and the "
             "inductive relation); C14_normalize_*: the three documented completions, completeness and idempotence of mask normalisation, for all masks. "
             "The model is tied to utils.rs on every run by comparing it (and, independently, the extracted glob specification) with the real function "
             "on all pairs over {a,b,*,?,e-acute} up to length 4 (5 in the thorough tier) and on seeded random long multi-byte pairs, and the callers "
             "(bans, exceptions, invite exceptions, OPER/user masks, WHO, WHOIS) by server traces.",
        design_ref="5 (C14)",
        note="Totality is by construction: wild_match is a structurally recursive Gallina function without fuel or error value."),
}

def main():
    checks = []
    for pid in ALL:
        if pid in CLAIMS:
            c = CLAIMS[pid]
            checks.append({
                "property_id": pid,
                "quick_cmd": "python3 check.py %s --tier quick" % pid,
                "thorough_cmd": "python3 check.py %s --tier thorough" % pid,
                "evidence_file": "/verif/evidence/%s.json" % pid,
                "replay_cmd_template": "python3 check.py replay {path}",
                "engine": "coq-model+differential",
                "level_claimed": {"category": "proof", "text": c["text"], "design_ref": "DESIGN.md section " + c["design_ref"]},
                "level_note": LEVEL_NOTE + c.get("note", ""),
                "technique": c["technique"],
            })
    hooks = subprocess.run(["git", "-C", "/repo", "log", "--format=%H", "--grep=^verif hook"], capture_output=True, text=True).stdout.split()
    m = {
        "version": 1,
        "setup_cmd": "python3 check.py setup",
        "hooks": {
            "guard": "irc_verif",
            "enable": "RUSTFLAGS=\"--cfg irc_verif\" cargo build --offline (the harness crate /verif/rsharness compiles /repo/src/*.rs by #[path])",
            "baseline_off_cmd": "cd /repo && cargo test --workspace --no-fail-fast --offline",
            "source_commits": hooks,
            "add_only": True,
        },
        "engines": [
            {"name": "coq-model+differential", "path": "/verif/coq, /verif/rsharness, /verif/py",
             "serves_properties": sorted(CLAIMS), "kind_free_text":
             "hand-written Gallina model of the server with theorems per property (coq/props), extracted to OCaml and run against the real code (compiled from /repo's working tree) on the same inputs and histories on every check"}],
        "checks": checks,
        "notes": "See DESIGN.md. Defects repaired by fix: commits and the one recorded finding are listed in known_findings.json.",
        "not_applicable": [{"property_id": p, "reason": "not claimed yet: the check for this property is still being built in this round (the technique applies; see DESIGN.md section 5)"}
                           for p in ALL if p not in CLAIMS],
    }
    json.dump(m, open(os.path.join(VERIF, "MANIFEST.json"), "w"), indent=1)
    print("claimed:", sorted(CLAIMS))

if __name__ == "__main__":
    main()
