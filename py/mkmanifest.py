#!/usr/bin/env python3
"""writes /verif/MANIFEST.json from the table below"""
import json, os, subprocess
VERIF = os.path.dirname(os.path.dirname(os.path.abspath(__file__)))
ALL = ["C%02d" % i for i in range(1, 21)]

LEVEL_NOTE = ("Trusted: Coq 8.16.1 kernel; no axioms (Print Assumptions of each theorem re-read on every run, expected 'Closed under the global "
              "context'); extraction with ExtrOcamlBasic only + hand-written OCaml driver; the Rust harness that compiles /repo/src by path, the "
              "cfg(irc_verif) dump hook and the python canonicalisation. The theorems are about a hand-written Gallina model; the model is tied to "
              "the code by differential execution on every run, which samples and does not prove. ")

CLAIMS = {
    "C07": dict(
        technique="Coq proof (case analysis of the check phase against the admission rule with glob-based mask semantics; symbolic execution of the one-channel command) + 512-cell admission sweep against the real server with a rule oracle",
        text="Theorems (props/C07.v) for ALL states, users, keys and configurations: the check phase of JOIN accepts an existing channel for a non-member iff key equals +k when set, no ban mask "
             "globs the source unless an exception mask does, the channel is not +i or the user is invited or an invite-exception globs the source, and the member count is below +l; on refusal "
             "it reports exactly the first failing condition (475, 474, 473, 471); the whole one-channel command succeeds iff that rule and the max_joins quota hold, success inserts the member "
             "with the configured default ranks and consumes the invitation, refusal leaves the shared state identical, tells nobody else and answers the sender with a non-empty list. Comma "
             "lists are the entry-wise application of the same plan (C07_accepted_effect / C07_refused_effect). Conditional on the handler returning Ok (no-Panic is C05).",
        design_ref="5 (C07)"),
    "C09": dict(
        technique="Coq proof (fold invariant over the victim loop: selected = named members the actor's rank may remove, duplicate-free; case analysis of TOPIC and INVITE) + 32x32 rank sweep against the real server with a rank-rule oracle",
        text="Theorems (props/C09.v) for ALL states and rank combinations: KICK selects exactly the named members that are neither founder nor protected and, for a mere half-operator, not "
             "half-operator or above - a duplicate-free list, so absent/repeated names are harmless - and selects nobody for an absent channel (403), an outsider (442) or a rank below half-operator (482), "
             "in which case nothing changes; the new state is the removal of the selected victims through remove_user_from_channel; TOPIC is set only by a member and on +t only by half-operator or "
             "above, stored with the setter's nick (empty text clears) and relayed to every member; INVITE is honoured only from a member (operator flag on +i) for a registered non-member, records "
             "the invitation and reaches exactly the invited user; every refusal leaves the state identical.",
        design_ref="5 (C09)"),
    "C16": dict(
        technique="Coq proof (channel creation, removal of the last member, configured channels at start-up and default ranks on join) + create-use-empty-recreate life-cycle sweep over six ways of leaving against the real server",
        text="Theorems (props/C16.v) for ALL states/configurations: a JOIN to an absent name is always (join, create) and inserts the fresh channel - no topic, key, limit, lists or flags, the joiner "
             "founder+operator; remove_user_from_channel of the only member (the single path used by PART, KICK and every session end) deletes an ordinary channel and keeps a preconfigured one, "
             "empty, with its topic; with another member present the channel stays; init contains every configured channel with the configured topic/flags/key/limit/lists, empty, marked "
             "preconfigured, rank lists moved to defaults; a joiner of an existing channel gets exactly the ranks the defaults list for its nick.",
        design_ref="5 (C16)"),
    "C01": dict(
        technique="Coq proof over the handler model (per-target delivery = duplicate-free audience list minus the sender, via Forall2/NoDup) + differential traces and an audience oracle on the implementation's own state",
        text="Theorems (props/C01.v) about the Gallina model of process_privmsg_notice, for ALL shared states, connections, target lists and texts: an accepted channel target queues "
             "exactly one copy for each member of the audience other than the sender - the queued lines are in one-to-one correspondence (Forall2) with a duplicate-free list whose "
             "elements are exactly audience minus sender - each to the connection owning that nick; a nick target goes to exactly the owner; the audience of a status-prefixed target is the "
             "union of the named rank lists; duplicate targets are handled once; the line is :source VERB target :text verbatim; state and connection are unchanged. Statements are "
             "conditional on the handler returning Ok (absence of Panic is C05's theorem). Tie: 32 prefix subsets x rank combinations x flags sweep and seeded random histories, impl vs "
             "model per step, plus the audience rule recomputed from the implementation's own state dump.",
        design_ref="5 (C01)",
        note="History quantification is discharged by the theorems being about every shared state; which states are reachable matters only for the C05 no-Panic hypothesis."),
    "C03": dict(
        technique="Coq proof over the dispatch model (gate, state-independence of gated replies, characterisation of authenticate) + exhaustive verb x registration-progress x configuration sweep against the real server",
        text="Theorems (props/C03.v), for ALL shared states, connection states, lines and configurations, with password verification a parameter: a command outside CAP/AUTHENTICATE/PASS/"
             "NICK/USER/QUIT from an unregistered connection yields exactly 451 and leaves everything unchanged (C03_gate); its answer is the same in any two worlds (C03_no_reveal); a line "
             "turns the connection registered only if negotiation is closed, NICK and USER are set, the configured user mask globs the source, the applicable password verifies and the nick "
             "is free, and then exactly one user keyed by that nick and owned by that connection is inserted (C03_registration_only_if / _if); a failing password at that moment gives 464, "
             "closes, creates nothing (C03_bad_password_closes); any other line from an unregistered connection is inert (C03_refused_is_inert).",
        design_ref="5 (C03)",
        note="argon2 is outside the model: verify is a parameter; the driver instantiates it with hashes produced by the real argon2_hash_password."),
    "C10": dict(
        technique="Coq proof (can_send characterised by a boolean-reflection lemma over glob-based ban semantics; NOTICE silence by induction over the target fold) + flag x ban x rank sweep against the real server with a speaking-rule oracle",
        text="Theorems (props/C10.v), for ALL channels, senders and sources: can_send holds iff (member or neither +n nor +s) and not (some ban mask globs the source and no exception does) and "
             "(not +m or voice-or-higher), with mask matching proved equal to glob (C14); a channel target is delivered to the C01 audience iff can_send, otherwise nobody receives it and a "
             "PRIVMSG sender gets exactly one 404 (NOTICE: nothing); every line queued by a NOTICE command is the relayed NOTICE itself - no numeric, for all target lists (C10_notice_silent); "
             "PRIVMSG to an away user adds exactly the 301 with the away text, NOTICE does not.",
        design_ref="5 (C10)"),
    "C14": dict(
        technique="Coq proof (greedy segment matcher = textbook glob, by induction over the segment list) + exhaustive/random differential run of the model and of the extracted glob spec against the real match_wildcard",
        text="Theorems C14_glob / C14_glob_relation: for ALL patterns and texts the model of match_wildcard equals the textbook glob function (and the "
             "inductive relation); C14_normalize_*: the three documented completions, completeness and idempotence of mask normalisation, for all masks. "
             "The model is tied to utils.rs on every run by comparing it (and, independently, the extracted glob specification) with the real function "
             "on all pairs over {a,b,*,?,e-acute} up to length 4 (5 in the thorough tier) and on seeded random long multi-byte pairs, and the callers "
             "(bans, exceptions, invite exceptions, OPER/user masks, WHO, WHOIS) by server traces.",
        design_ref="5 (C14)",
        note="Totality is by construction: wild_match is a structurally recursive Gallina function without fuel or error value."),
}

def main():
    checks = []
    for pid in ALL:
        if pid in CLAIMS:
            c = CLAIMS[pid]
            checks.append({
                "property_id": pid,
                "quick_cmd": "python3 check.py %s --tier quick" % pid,
                "thorough_cmd": "python3 check.py %s --tier thorough" % pid,
                "evidence_file": "/verif/evidence/%s.json" % pid,
                "replay_cmd_template": "python3 check.py replay {path}",
                "engine": "coq-model+differential",
                "level_claimed": {"category": "proof", "text": c["text"], "design_ref": "DESIGN.md section " + c["design_ref"]},
                "level_note": LEVEL_NOTE + c.get("note", ""),
                "technique": c["technique"],
            })
    hooks = subprocess.run(["git", "-C", "/repo", "log", "--format=%H", "--grep=^verif hook"], capture_output=True, text=True).stdout.split()
    m = {
        "version": 1,
        "setup_cmd": "python3 check.py setup",
        "hooks": {
            "guard": "irc_verif",
            "enable": "RUSTFLAGS=\"--cfg irc_verif\" cargo build --offline (the harness crate /verif/rsharness compiles /repo/src/*.rs by #[path])",
            "baseline_off_cmd": "cd /repo && cargo test --workspace --no-fail-fast --offline",
            "source_commits": hooks,
            "add_only": True,
        },
        "engines": [
            {"name": "coq-model+differential", "path": "/verif/coq, /verif/rsharness, /verif/py",
             "serves_properties": sorted(CLAIMS), "kind_free_text":
             "hand-written Gallina model of the server with theorems per property (coq/props), extracted to OCaml and run against the real code (compiled from /repo's working tree) on the same inputs and histories on every check"}],
        "checks": checks,
        "notes": "See DESIGN.md. Defects repaired by fix: commits and the one recorded finding are listed in known_findings.json.",
        "not_applicable": [{"property_id": p, "reason": "not claimed yet: the check for this property is still being built in this round (the technique applies; see DESIGN.md section 5)"}
                           for p in ALL if p not in CLAIMS],
    }
    json.dump(m, open(os.path.join(VERIF, "MANIFEST.json"), "w"), indent=1)
    print("claimed:", sorted(CLAIMS))

if __name__ == "__main__":
    main()
