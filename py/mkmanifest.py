#!/usr/bin/env python3
"""writes /verif/MANIFEST.json from the table below"""
import json, os, subprocess
VERIF = os.path.dirname(os.path.dirname(os.path.abspath(__file__)))
ALL = ["C%02d" % i for i in range(1, 21)]

LEVEL_NOTE = ("Trusted: Coq 8.16.1 kernel; no axioms (Print Assumptions of each theorem re-read on every run, expected 'Closed under the global "
              "context'); extraction with ExtrOcamlBasic only + hand-written OCaml driver; the Rust harness that compiles /repo/src by path, the "
              "cfg(irc_verif) dump hook and the python canonicalisation. The theorems are about a hand-written Gallina model; the model is tied to "
              "the code by differential execution on every run, which samples and does not prove. ")

CLAIMS = {
    "C07": dict(
        technique="Coq proof (case analysis of the check phase against the admission rule with glob-based mask semantics; symbolic execution of the one-channel command) + 512-cell admission sweep against the real server with a rule oracle",
        text="EXACTLY THOSE WHOM THE RULE ALLOWS, for every history (C07_member_only_if_admitted): over every event of every connection a user that holds a membership after the step which the same "
             "connection's user did not hold before is the sender of the event, the event is its JOIN line, the channel stands at a position k of its list, the quota had room, and - when the "
             "channel existed - the channel as it was before the line admitted it with the key at position k (key, bans/exceptions, invitation, limit); no other command and nobody else's command "
             "makes anybody a member. Theorems (props/C07.v) for ALL states, users, keys and configurations: the check phase of JOIN accepts an existing channel for a non-member iff key equals +k when set, no ban mask "
             "globs the source unless an exception mask does, the channel is not +i or the user is invited or an invite-exception globs the source, and the member count is below +l; on refusal "
             "it reports exactly the first failing condition (475, 474, 473, 471); the whole one-channel command succeeds iff that rule and the max_joins quota hold, success inserts the member "
             "with the configured default ranks and consumes the invitation, refusal leaves the shared state identical, tells nobody else and answers the sender with a non-empty list. Comma "
             "lists with repeats and the quota: the plan of decisions is the prescribed one - each entry judged against the state at the start of the command with the key at its position, a channel accepted earlier in the list skipped, max_joins compared with the channels held plus the entries accepted so far - applied entry by entry (C07_comma_list, C07_accepted_effect / C07_refused_effect). Conditional on the handler returning Ok (no-Panic is C05).",
        design_ref="5 (C07)"),
    "C09": dict(
        technique="Coq proof (fold invariant over the victim loop: selected = named members the actor's rank may remove, duplicate-free; case analysis of TOPIC and INVITE) + 32x32 rank sweep against the real server with a rank-rule oracle",
        text="A KICK that selects nobody is, as a whole step, inert: state and connection records unchanged, nobody closed, only the sender hears (C09_kick_refused_step). "
             "OBEY RANK, for every history: a user who stays connected leaves a channel only by its own PART line or by a KICK line naming it whose sender was, before the line, a member holding "
             "half-operator rank or above whose rank may remove the victim's (C09_removed_only_by_part_or_ranked_kick); a topic that differs after a step was set by a TOPIC line of a member who on +t "
             "held half-operator rank or above (C09_topic_changed_only_by_rank); a new pending invitation was written by an INVITE line of a member who on an invite-only channel held the operator flag, "
             "for a user not on the channel (C09_invited_only_by_rank). "
             "GLOBAL (over every event of every connection, frames proved through all 41 commands, registration, teardown and KILL delivery): the topic of a channel that exists before and after a step is unchanged unless the event is a registered connection's TOPIC line naming that channel (C09_topic_changes_only_by_topic); a channel enters a user's pending invitations only through an INVITE line naming exactly that user and channel (C09_invitation_gained_only_by_invite) and a connected user loses a pending invitation only through its own JOIN (C09_invitation_lost_only_by_own_join). Theorems (props/C09.v) for ALL states and rank combinations: KICK selects exactly the named members that are neither founder nor protected and, for a mere half-operator, not "
             "half-operator or above - a duplicate-free list, so absent/repeated names are harmless - and selects nobody for an absent channel (403), an outsider (442) or a rank below half-operator (482), "
             "in which case nothing changes; the new state is the removal of the selected victims through remove_user_from_channel; TOPIC is set only by a member and on +t only by half-operator or "
             "above, stored with the setter's nick (empty text clears) and relayed to every member; INVITE is honoured only from a member (operator flag on +i) for a registered non-member, records "
             "the invitation and reaches exactly the invited user; every refusal leaves the state identical; GRANTS ONE ADMISSION: the recorded invitation admits its holder past +i whatever the invite-exception list says (C09_invitation_admits), any accepted JOIN to that channel - existing, or re-created after it vanished with the invitation pending - removes exactly that invitation, after which the holder is not admitted to the invite-only channel again (C09_invitation_used_once), and a refused JOIN entry leaves the pending invitations alone.",
        design_ref="5 (C09)"),
    "C16": dict(
        technique="Coq proof (channel creation, removal of the last member, configured channels at start-up and default ranks on join) + create-use-empty-recreate life-cycle sweep over six ways of leaving against the real server",
        text="BORN WITH A FOUNDER, for every history (C16_channel_born_only_by_join): over every event of every connection a channel that is there after the step and was not there before was named "
             "in a JOIN line of a registered connection - this very event - and is that connection's fresh channel: the joiner its only member, founder and operator, no topic, default settings - also "
             "when the JOIN list repeats names or mixes fresh names with existing channels; no other command (C16_other_commands_create_no_channel, all 41), no registration, session end or KILL "
             "creates a channel. PERSIST AND KEEP THEIR RANK LISTS in every reachable world (C16_configured_channels_persist; frame proved through all 41 commands, teardown, KILL delivery and induction over the event list): after any history every channel of the configuration exists, is marked preconfigured - so it is never dropped when it empties - and carries the configured rank lists a joiner's ranks are read from (per step: C16_preconfigured_kept_by_every_step). Theorems (props/C16.v) for ALL states/configurations: a JOIN to an absent name is always (join, create) and inserts the fresh channel - no topic, key, limit, lists or flags, the joiner "
             "founder+operator; remove_user_from_channel of the only member (the single path used by PART, KICK and every session end) deletes an ordinary channel and keeps a preconfigured one, "
             "empty, with its topic; with another member present the channel stays; init contains every configured channel with the configured topic/flags/key/limit/lists, empty, marked "
             "preconfigured, rank lists moved to defaults; a joiner of an existing channel gets exactly the ranks the defaults list for its nick.",
        design_ref="5 (C16)"),
    "C05": dict(
        technique="Coq proof (global invariant Inv preserved by every step of the server model, by case analysis over all 41 commands and all event kinds; hence run never reaches a Panic, the model's rendering of every unwrap/index/checked-arithmetic abort site) + differential traces with a panic hook and an EOF oracle on the real server",
        text="Theorems (props/C05.v): for EVERY finite history of events - lines of any content, over-long lines, invalid UTF-8, closes, timer ticks, new connections, on any number of "
             "connections under any configuration - the model runs to the end without reaching an abort site (C05_no_abort); every reachable world handles every further event (C05_keeps_serving); "
             "the invariant that makes the 139 inventoried abort sites unreachable holds in every reachable world (C05_invariant: membership stored twice agrees, rank lists mirror flags, counters "
             "equal true counts so no checked decrement underflows, every registered connection owns its user); an event of connection i leaves every other connection that the step does not close "
             "exactly as it was (C05_others_untouched); a connection closed by a step is the sender itself - over-long line, invalid text, its own close, pong timeout, connection limit, or a line whose "
             "handler asked for it, which happens only for QUIT and for a failed password at the end of registration (all 41 commands) - or the line was KILL/DIE/SQUIT of an operator "
             "(C05_closed_only_by_protocol, C05_quit_causes). The implementation is tied to the model on every run: any panic in the real server (hook) or any unexpected EOF is a violation.",
        design_ref="5 (C05)",
        note="Which endings count as protocol endings (QUIT, 464, KILL/DIE, timeout, bad text, over-long line, connection limit) is fixed by the model's step function and compared with the real server trace by trace; tokio task aborts outside handler code are outside the model."),
    "C02": dict(
        technique="Coq proof (ownership clauses of the global invariant; frame theorem for the nick->connection map under a step of another connection; inertness of unregistered connections) + contention traces and an ownership oracle on the real server",
        text="CAN MODIFY ONLY THE USER IT REGISTERED ITSELF, over every event of every connection i (C02_cannot_modify_others; record frame proved through all 41 commands, registration, teardown and KILL delivery): every user record that does not belong to i and exists afterwards existed before under the same nick with the same owner, host, user name, real name, source prefix, user modes, away text and WHOWAS data - a foreign command reaches only its membership set (KICK), pending invitations (INVITE) and KILL mark. Theorems (props/C02.v): in every reachable world each registered nick is owned by exactly one live connection, registered under exactly that nick, and every registered connection "
             "owns the user under its nick (C02_one_owner, C02_connection_owns); whatever connection i sends and however it ends, no OTHER connection gains, loses or changes a nick - except "
             "that its user disappears when that connection itself is closed by the step (KILL/DIE) (C02_acts_only_as_itself); a connection that is not registered - refused with 433, 464 or a "
             "mask mismatch, or never completed - leaves the ENTIRE shared state identical whatever it sends and however it ends; the only other outcome is its own accepted registration "
             "under a nick nobody owned (C02_unregistered_inert); schedules and faults: for EVERY sequence of events processed without delivering pending KILLs, interleaved in any way with the moments at which "
             "a marked connection's task finally ends (or never does), ownership is the same bijection - a killed connection that has not noticed yet keeps its nick, and its late teardown removes its own record only "
             "(C02_deferred_kill_ownership, C02_late_teardown_own_only); the real-binary scenario 'KILL of a connection stuck writing to a client that does not read' exhibits that schedule on every run.",
        design_ref="5 (C02)"),
    "C04": dict(
        technique="Coq proof (membership symmetry and rank-list clauses of the global invariant in every reachable world; membership frame through all 41 commands and every event: sets change only by own JOIN / own PART / KICK; fold-to-filter characterisation of the NAMES and WHOIS texts; single-operation effect lemmas) + differential traces with a three-view (NAMES/WHO/WHOIS) agreement oracle, a KICK/JOIN/PART/NICK announcement oracle and list-KICK histories",
        text="Theorems (props/C04.v): in every reachable world the per-user and per-channel membership tables are the same relation, the five rank lists of every channel are exactly the members "
             "whose rank flag is set, and every member is a registered user owned by a live connection; the 353 lines of NAMES carry exactly the members the viewer may see, each once, with its rank "
             "prefix (sound and complete: chunking loses and duplicates nothing), and nothing for a secret channel the viewer is not on; the 319 lines of WHOIS carry exactly the non-secret channels of "
             "the user's own membership set with the rank prefix; the 352 lines of WHO #channel carry one entry per member with the rank prefix (C04_who_text); the views read one relation (C04_views_agree); PART is announced, one copy each, to every member of the channel as it was before the departure, the leaver included (C04_part_announced); an accepted KICK gives one copy of the KICK line to every member that is left and one to the victim (C04_kick_announced); the output of JOIN is the planning refusals followed by the announcements of the accepted entries in order, each telling the joiner first (JOIN line, topic, NAMES) and then every other member once, refused entries announcing nothing (C04_join_output, C04_join_announced, C04_join_refused_silent). FOLLOWS THE HISTORY, over every event of every connection in every world satisfying the invariant (C04_membership_follows_commands, with the membership frame proved through all 41 commands, registration, teardown and KILL delivery): a user record found after a step carries the membership set of a record of the same connection before it, unless the event is a line of a registered connection whose command is JOIN (only the sender's set changes and it only grows), PART (only the sender's, it only shrinks) or KICK (a set loses at most the named channel), or the record was just created by a completed registration and is on no channel; hence a membership appears only through the user's own JOIN (C04_gained_only_by_own_join) and a user who stays connected loses one only through its own PART or a KICK naming that channel (C04_lost_only_by_part_or_kick). The detailed effects of JOIN/PART/KICK/NICK/teardown on that relation are the theorems "
             "of C07, C09, C15, C16 and C06. That the JOIN/KICK/NICK announcements together with the NAMES reply reconstruct the roster is decided per run by the oracles on real traces (L2).",
        design_ref="5 (C04)",
        note="Partial at proof level: the announcement-derived rosters are checked by differential execution, not proved."),
    "C06": dict(
        technique="Coq proof (full characterisation of VolatileState::remove_user through the channel fold; teardown of a registered / unregistered connection; absent-everywhere corollary of the invariant) + six-way ending sweep with a state-dump oracle on the real server",
        text="EVERY WAY, one statement over every event after any history (C06_closed_leaves_nothing): whichever connection a step closes - sender of QUIT, of an over-long or ill-encoded line, a peer that "
             "closed or timed out, a refused connection, the victim of KILL, everybody at DIE - has no connection record afterwards, owns no user, and every name on every roster belongs to a live user of somebody else. "
             "Theorems (props/C06.v): the teardown of a registered connection (the single path of QUIT, EOF, reset, bad text, over-long line, pong timeout, KILL, DIE) deletes exactly its user record - "
             "so every other record (memberships, modes, invitations) is identical -, removes the nick from the WALLOPS audience, appends one WHOWAS entry, leaves every channel it was not on "
             "untouched and turns every channel it was on into the same channel minus that member and its rank-list entries, or drops it if that leaves it empty and not preconfigured; the slot "
             "count decreases by one; a nick without user record is in no roster, rank list or audience; the end of an unregistered connection changes nothing; as whole steps: a closing event (EOF/reset at any moment, invalid text, over-long line, pong timeout) of a registered connection is exactly its teardown with all these clauses and closes nobody else, and QUIT does the same after the ERROR line (C06_closing_event, C06_quit).",
        design_ref="5 (C06)"),
    "C08": dict(
        technique="Coq proof (mode_char / mode_chars frame and effect lemmas, rank sufficiency, refusal inertness) + exhaustive letter x sign x rank sweep against the real server with an announcement-replay oracle",
        text="ONLY BY MEMBERS OF SUFFICIENT RANK, for every history (C08_settings_changed_only_by_ranked_mode, C08_ranks_changed_only_by_ranked_mode): over every event of every connection a channel that "
             "exists before and after the step has the same flags, key, limit and mask lists, and every member who stays the same rank flags, unless the event is a MODE line naming that channel sent by a "
             "registered connection that - before the line - was a member holding half-operator rank or above; a member below that changes nothing of the channel record whatever the mode string "
             "(C08_below_half_operator_changes_nothing). "
             "CHANGE ONLY THROUGH MODE, over every event of every connection (C08_settings_change_only_by_mode; settings frame proved through all 41 commands, registration, teardown and KILL delivery): a channel that exists before and after a step has the same flags, key, limit, ban, exception and invite-exception lists unless the event is a registered connection's MODE line naming that very channel - JOIN (incl. comma lists that create other channels), PART, KICK, NICK, TOPIC, INVITE and every way a session ends leave the settings of every surviving channel alone (C08_other_commands_keep_settings per command). Likewise the member ranks (C08_ranks_change_only_by_mode): a user who is a member of a channel before and after a step under the same nick holds the same five rank flags unless the event is a MODE line naming that channel. Theorems (props/C08.v) for ALL channels, ranks and mode strings: which rank each letter requires, that a refused letter changes nothing, that an accepted flag/rank/list/param letter "
             "has exactly its documented effect on the channel and nothing else, and that outsiders are refused; 'exactly as announced' for the flags: for any number of groups, letters and sign switches, a flag letter in the announced '+' group is set in the new channel, one in the '-' group is clear, none is in both, a flag not announced is as it was, and the line goes to every member (C08_flags_as_announced). The parameter part, letter by letter: an accepted rank letter appends exactly ' <sign><letter> <nick>' and touches neither flag group, one the actor may not use or naming a non-member announces and changes nothing "
             "(C08_rank_announced, C08_rank_silent); an accepted ban / exception / invite-exception edit changes exactly that list by exactly the normalised mask and appends exactly ' <sign><letter> <mask>', a refused one gives 482, announces nothing and leaves the channel record as it is "
             "(C08_list_announced, C08_list_refused). That the assembled string (with the +l/+k entries, which are edited in place) replays to the new channel is tied to the effect on every run by replaying the broadcast "
             "MODE line onto the previous dump and comparing with the new dump.",
        design_ref="5 (C08)"),
    "C11": dict(
        technique="Coq proof (global step theorem: operator status only through an accepted OPER of the connection itself or the default modes at registration, by a modes/owner frame through all 41 commands, teardown and KILL delivery; characterisation of OPER; no-grant frame of the user-mode interpreter; exact results of KILL/DIE/SQUIT/WALLOPS/STATS per privilege) + privilege-level sweep and an operator-status oracle on the real server",
        text="KILL and DIE from a connection without operator status, as whole steps after any history: the one privilege error to the sender, nothing to anybody else, nobody closed, state and connection records unchanged (C11_kill_refused_step, C11_die_refused_step). "
             "WALLOPS as a whole step after any history (C11_wallops_step): from a (local) operator everything sent in the step is one copy to each +w user, from anybody else the one 481 to the sender and nothing to anybody else; state unchanged, nobody closed. "
             "Theorems (props/C11.v): C11_operator_only_from_oper - for every step of every connection from a world satisfying the invariant, a user who is an operator afterwards was one before on the same "
             "connection, or belongs to the acting connection whose line was an OPER naming a configured operator with the verifying password from a matching source, or has just registered under default "
             "modes containing +o; no other of the 40 commands creates an operator or local operator (C11_no_other_command_confers); NO USER CAN CHANGE ANOTHER USER'S MODES and operator status is LOST ONLY BY REMOVING THE MODE OR DISCONNECTING, over every event of every connection: a record after a step carries the user modes of a record of the same connection before it unless the event is that connection's own MODE or OPER line (OPER never clears the operator flag) or its registration (C11_modes_follow_commands, modes frame through all 41 commands, registration, teardown, KILL delivery), hence a user who stays connected and is no longer an operator has sent a MODE command itself in that step (C11_oper_lost_only_by_own_mode); OPER confers iff configured name, password, mask; MODE on the own nick "
             "never turns an operator flag on and changes only the own mode field; MODE on a foreign nick changes nothing; KILL/DIE/SQUIT/WALLOPS/STATS from an unprivileged user give the privilege error and "
             "the identical state; permitted KILL marks exactly the named user and the delivery closes exactly the owners of marked users; WALLOPS reaches exactly the +w users; as whole steps: KILL closes exactly the victim's connection with the ERROR line naming killer and comment and removes exactly that record, DIE leaves no user and no registered connection (C11_kill_effect, C11_die_ends_all).",
        design_ref="5 (C11)"),
    "C12": dict(
        technique="Coq proof of the hiding statements that hold (LIST both forms, NAMES contribution, WHO by channel name) and a machine-checked refutation for NAMES with an explicit name + two-world differential check on the real server",
        text="A MODE <own nick> command whose mode strings do not contain the letter i leaves the invisible flag as it is, whatever else it drops or is refused (C12_mode_without_i_keeps_invisible_partial). "
             "New: NAMES without argument gives an outsider the same lines, up to the order of channels, as in the world without the secret channel (C12_names_all_hides_partial); the entry of an invisible user in every WHO answer of a client sharing no channel is empty, a wildcard WHO is answered - up to line order - as in the world where that user is not connected, and WHO <nick> as for an absent nick, and WHOIS in all its forms - nicks, comma lists, wildcards - up to the order of the answered users (C12_whois_hides_invisible_partial, C12_who_entry_of_invisible_is_empty_partial, C12_who_wildcard_hides_invisible_partial, C12_who_nick_hides_invisible_partial). Theorems (props/C12.v): LIST (explicit and bare) answers an outsider exactly as in the world without the secret channel; NAMES contributes no line for a secret channel to a non-member; "
             "WHO with any mask (wildcards, nicknames, channel names incl. the secret one) answers an outsider exactly as in the world without the secret channel; WHOIS never lists a secret channel whoever asks; an invisible user sharing no channel with the asker gets an empty WHOIS and is not "
             "listed by NAMES to outsiders. C12_names_explicit_refuted proves that NAMES #secret is silent while NAMES #absent answers 366, for every state: the recorded finding. "
             "All remaining forms (NAMES comma lists, WHOIS masks) are decided per run by executing both worlds on the real server and comparing the outsider's view (L2).",
        design_ref="5 (C12)",
        note="Partial at proof level (theorem names end in _partial); one known finding, listed in known_findings.json."),
    "C15": dict(
        technique="Coq proof (symbolic execution of process_nick through the channel-rename fold; characterisation of the renamed channel) + nick-change sweep with a state-dump oracle on the real server",
        text="AND NOTHING ELSE, for every history: over every event of every connection a connection keeps its nickname unless the event is its own NICK line "
             "(C15_nick_changes_only_by_own_nick), a user is found under the key the same connection's user had before unless the event is the owner's NICK line or the line completing its "
             "registration (C15_user_key_changes_only_by_own_nick), every other command of a registered connection keeps nick and source prefix of its record (C15_other_commands_keep_nick, all 41 commands). "
             "Theorems (props/C15.v) for ALL states satisfying the invariant: an accepted change re-keys the user record with only its source prefix rewritten (owner, modes incl. operator and +w, "
             "away, memberships, invitations travel), frees the old key, renames the member in place in each of its channels (rank record and rank-list entries follow, other members untouched), "
             "leaves other channels untouched, re-keys the WALLOPS audience, appends one WHOWAS entry under the old nick, moves no counter, and sends the NICK line with the old source to "
             "every registered user; a nick held by another user gives exactly 433 and the identical state; the own nick is a no-op; an invalid nick is answered by the parser and never reaches the handler.",
        design_ref="5 (C15)"),
    "C19": dict(
        technique="Coq proof (counter clauses of the global invariant; connection-limit invariant over all histories; high-water theorem by a population/mark frame through all 41 commands, teardown and KILL delivery) + statistics oracle (recount from the dump, high-water mark from the history) and a connection-limit sweep on the real server",
        text="Theorems (props/C19.v): in every reachable world the invisible and operator counters equal the true counts and the connection counter equals the number of live connections; LUSERS "
             "therefore prints the actual numbers of users, invisible users, operators and channels; with max_connections = m never more than m connections are live; a closed connection is "
             "no longer live and the counter stays exact; the maximum reported by LUSERS is the true high-water mark: after every step it equals the maximum of its previous value and the current "
             "population, and it dominates the population in every reachable world (C19_high_water_step, C19_high_water_dominates). ISON names exactly the queried registered nicknames and USERHOST carries one entry per queried registered nickname with '*' iff operator and '-' iff away (C19_ison_exact, C19_userhost_exact).",
        design_ref="5 (C19)",
        ),
    "C13": dict(
        technique="Coq proof (tokenizer inverse of the relay serialiser by induction over blank-led tokens; well-formedness of every tokenised message; per-verb classification by case analysis over 41 verbs and arities) + grammar oracle, re-parse oracle, CRLF oracle and segmentation pairs on the real code",
        text="Theorems (props/C13.v): every message out of the tokenizer has a non-empty, blank-free command and middle parameters not starting with ':'; every line of the grammar - leading blanks, optional ':'source, "
             "command, middle parameters separated by blank runs of any kind and length, optional ' :'-introduced trailing text of any content, trailing blanks - is tokenised to exactly its parts "
             "(C13_grammar_complete); serialising a message with a source and tokenising the result gives back exactly source, command and parameters (C13_serialise_parse, C13_relay_reparses); a verb outside the table is answered 421 "
             "with the upper-cased name, a known verb with fewer parameters than its arity 461, and with enough parameters the line is executed as exactly that verb or answered with a "
             "parameter-specific error - never 421/461 (all 41 verbs, every arity); an unparsable line changes nothing and an empty line is ignored; every emitted line is one CRLF-terminated message: what the encoder writes for any list of LF-free lines is framed by the same codec into exactly those lines, in order, nothing left over (C13_encode_decode; bytes not terminated by LF are never handed to the command layer, whatever they say: C13_unterminated_not_executed; the line the relay serialiser writes for a received message and an LF-free source contains no LF, every character of the message being a character of the received line: C13_relayed_line_has_no_lf; Frame.encode is run against IRCLinesCodec::encode on every check, incl. lines beyond 2000 bytes with multi-byte characters across the limit); the framing model (split at LF, strip CR, 2000-byte limit) yields the same "
             "frames however the byte stream is cut into segments, an over-long line is reported as such, never executed, and a received line never contains LF (C13_segmentation_invariant, C13_overlong_not_executed, C13_received_lines_have_no_lf). the format!-built relays PART, KICK, PRIVMSG/NOTICE re-parse to verb, target and text for every text (C13_relay_part, C13_relay_kick, C13_relay_msg). CRLF termination "
             "and the 301 relay are decided per run on the real server (L2); the framing model is the one the extracted program runs against the real LinesCodec.",
        design_ref="5 (C13)",
        note="Partial at proof level: CRLF emission is checked by an oracle, not proved; the python grammar oracle is part of the check's trusted base."),
    "C20": dict(
        technique="Coq proof (the validation model accepts exactly the conjunction the statement lists; shape of a well-formed hash; configured channels and default user modes in the state model) + differential validation of generated configuration files and command lines, and start-up / -g / plain-vs-TLS runs of the real binary",
        text="TLS CHANGES THE TRANSPORT ONLY, at model level: the transport is one flag of the connection record, fixed when the connection is accepted - no event of any connection changes a connection's host or transport flag (C20_transport_fixed_at_accept), no command of a registered connection changes its host, names, password, registration marks or transport flag (C20_commands_keep_connection_identity) - and read in one place only, WHOIS, whose answer over a secure connection is the same lines plus 671 (C20_whois_secure_adds_only_671); the number of readers is counted in the model text and in the source on every run. Theorems (props/C20.v): config_accept holds iff the TLS certificate and key options come together, the effective (command-line overridden) server name contains a dot, every password "
             "hash is 86 characters of canonical unpadded base64 (64 bytes), every operator and user name and nick passes the name validator (nicks at most 200 bytes) and every channel name the "
             "channel validator; the command line wins over the file; predefined channels exist from the start with their settings (with C16); a new user gets exactly the default user modes; the welcome burst of a completed registration is, line for line, built from the configured network, server name, MOTD, "
             "max_joins (ISUPPORT) and default modes (C20_welcome_burst). "
             "MainConfig::new is tied to that model on every run over generated files (each validated field valid/invalid/absent) and an independent python statement of the rules; exit status, "
             "welcome burst, max_joins, -n, the -g hash round trip through a configured server and the plain-vs-TLS transcript equality are observed on the real binary (L2).",
        design_ref="5 (C20)",
        note="Partial at proof level: argon2, TOML/serde, process exit and TLS are outside the model; they are exercised, not proved."),
    "C17": dict(
        technique="Coq proof over a timed model of the ping waker / pong timer (induction over timed event lists) + real-time scenarios against the real binary whose observed timelines are run through the extracted model",
        text="Theorems (props/C17.v): PING is answered with a PONG carrying the same token; in the timed model the first PING that finds no timer running and gets no PONG before its deadline closes the "
             "connection exactly pong_timeout later - whatever else is sent meanwhile and also when further PINGs fall into the wait (pong_timeout >= ping_timeout); a peer that answers every PING (any token) "
             "in less than pong_timeout is never closed, for every horizon; the keep-alive closes only at a PING time plus pong_timeout; other traffic neither resets nor delays the timer; the timeout is "
             "handled in every reachable world by the same teardown as every other ending (C06) and preserves the invariant. The timers themselves are tokio's: the model is tied on every run by 27+ real-time "
             "scenarios (3-7 timeout configurations x 11 response patterns, incl. registration later than ping_timeout and capability negotiation in mid-session) whose observed PING/PONG times are fed to ka_run and whose disconnection must agree within the stated slack. "
             "A registered connection's PING line is answered with the PONG and its PONG line is accepted silently whatever its capability-negotiation state (C17_registered_ping_line, C17_registered_pong_line).",
        design_ref="5 (C17)",
        note="Partial at proof level: real time, tokio sleep/interval/timeout and task scheduling are outside the model; the scenarios sample them."),
    "C18": dict(
        technique="Coq proof (the invariant over every interleaving of whole commands; concatenation lemma for run; two-phase model of the one handler with separate check and update) + source scan of lock acquisitions per handler + burst scenarios on the real multi-threaded binary",
        text="Theorems (props/C18.v): every interleaving of whole commands of any number of connections runs to the end and preserves the invariant, so of any number of claims to a nickname at most one "
             "connection owns it; the unlocked NICK look-up followed by the commit under the write lock is safe for EVERY state produced in between (inert, or registration of a nick free at commit time) and linearises at commit time (nick free both times) or at look-up time (nick taken at look-up); "
             "whoever is first in the serial order creates a channel and is its founder, nobody after gets 'create'; a JOIN is accepted only below the +l limit in force; what a connection receives is "
             "never reordered across commands. That each handler is one critical section is read off the source and re-scanned on every run (inventory/lock_shape.json); real schedules are exercised "
             "by bursts of 24 simultaneous claims / first joins / limited joins, pipelined numbered messages and liveness probes under lock contention (L2).",
        design_ref="5 (C18)",
        note="Partial at proof level: real schedules, RwLock fairness, the mpsc FIFO and flush order are the runtime's; the theorems are about the section structure, the bursts sample the runtime."),
    "C01": dict(
        technique="Coq proof over the handler model (per-target delivery = duplicate-free audience list minus the sender, via Forall2/NoDup) + differential traces and an audience oracle on the implementation's own state",
        text="AND NO COPY REACHES ANYBODY ELSE, as a whole step after any history (C01_message_step): a registered connection's PRIVMSG / NOTICE line leaves the state unchanged, closes nobody, and everything "
             "sent in the step - to any connection - is the concatenation over the DISTINCT targets of what the one-target rule prescribes; there is no other delivery and no other line. "
             "Theorems (props/C01.v) about the Gallina model of process_privmsg_notice, for ALL shared states, connections, target lists and texts: an accepted channel target queues "
             "exactly one copy for each member of the audience other than the sender - the queued lines are in one-to-one correspondence (Forall2) with a duplicate-free list whose "
             "elements are exactly audience minus sender - each to the connection owning that nick; a nick target goes to exactly the owner; the audience of a status-prefixed target is the "
             "union of the named rank lists; duplicate targets are handled once; the line is :source VERB target :text verbatim; state and connection are unchanged; and in every reachable world that source is nick!~user@host of the nick the user is registered under now, its user name and host - whatever the order of NICK and USER at registration and however many nick changes followed (C01_true_attribution, by a world invariant proved through all 41 commands, registration, teardown and KILL delivery: IRCP.IdentP). Statements are "
             "conditional on the handler returning Ok (absence of Panic is C05's theorem). Tie: 32 prefix subsets x rank combinations x flags sweep and seeded random histories, impl vs "
             "model per step, plus the audience rule recomputed from the implementation's own state dump.",
        design_ref="5 (C01)",
        note="History quantification is discharged by the theorems being about every shared state; which states are reachable matters only for the C05 no-Panic hypothesis."),
    "C03": dict(
        technique="Coq proof over the dispatch model (gate, state-independence of gated replies, characterisation of authenticate) + exhaustive verb x registration-progress x configuration sweep against the real server",
        text="REGISTRATION NEEDS THE RIGHT PASSWORD, for every history (C03_registered_only_with_password; world invariant AuthW kept by every event of every connection, "
             "C03_password_mark_kept_by_every_step, induction over the event list): in every reachable world whoever is in the user table is owned by a connection that is marked registered, "
             "carries that nick and the user name it registered under, and holds a password that verifies against the hash applying to that name (the configured user's, else the server's) - "
             "whatever the order of PASS/NICK/USER/CAP, however many refused attempts and nick changes came before. Per call, "
             "for ALL shared states, connection states, lines and configurations, with password verification a parameter: a command outside CAP/AUTHENTICATE/PASS/"
             "NICK/USER/QUIT from an unregistered connection yields exactly 451 and leaves everything unchanged (C03_gate); its answer is the same in any two worlds (C03_no_reveal); a line "
             "turns the connection registered only if negotiation is closed, NICK and USER are set, the configured user mask globs the source, the applicable password verifies and the nick "
             "is free, and then exactly one user keyed by that nick and owned by that connection is inserted (C03_registration_only_if / _if); a failing password at that moment gives 464, "
             "closes, creates nothing (C03_bad_password_closes); any other line from an unregistered connection is inert (C03_refused_is_inert).",
        design_ref="5 (C03)",
        note="argon2 is outside the model: verify is a parameter; the driver instantiates it with hashes produced by the real argon2_hash_password."),
    "C10": dict(
        technique="Coq proof (can_send characterised by a boolean-reflection lemma over glob-based ban semantics; NOTICE silence by induction over the target fold) + flag x ban x rank sweep against the real server with a speaking-rule oracle",
        text="NOTICE IS NEVER ANSWERED, as a whole step after any history (C10_notice_step_silent): every line sent in the step of a NOTICE line, to the sender or anybody else, is the relayed NOTICE itself. "
             "GLOBAL: a user's away state changes only through its own AWAY command - over every event of every connection the away text of a record is that of the same connection's record before the step unless the event is that connection's AWAY line, and a new user is not away (C10_away_changes_only_by_own_away), so the text a PRIVMSG sender is told is the one the user itself sent last. Theorems (props/C10.v), for ALL channels, senders and sources: can_send holds iff (member or neither +n nor +s) and not (some ban mask globs the source and no exception does) and "
             "(not +m or voice-or-higher), with mask matching proved equal to glob (C14); a channel target is delivered to the C01 audience iff can_send, otherwise nobody receives it and a "
             "PRIVMSG sender gets exactly one 404 (NOTICE: nothing); every line queued by a NOTICE command is the relayed NOTICE itself - no numeric, for all target lists (C10_notice_silent); "
             "PRIVMSG to an away user adds exactly the 301 with the away text, NOTICE does not; that text is the one of the user's LAST AWAY command - AWAY overwrites, AWAY without text clears, nothing else changes (C10_away_is_last_sent).",
        design_ref="5 (C10)"),
    "C14": dict(
        technique="Coq proof (greedy segment matcher = textbook glob, by induction over the segment list) + exhaustive/random differential run of the model and of the extracted glob spec against the real match_wildcard",
        text="Theorems C14_glob / C14_glob_relation: for ALL patterns and texts the model of match_wildcard equals the textbook glob function (and the "
             "inductive relation); C14_normalize_*: the three documented completions, completeness and idempotence of mask normalisation, for all masks. "
             "The model is tied to utils.rs on every run by comparing it (and, independently, the extracted glob specification) with the real function "
             "on all pairs over {a,b,*,?,e-acute} up to length 4 (5 in the thorough tier) and on seeded random long multi-byte pairs, and the callers "
             "(bans, exceptions, invite exceptions, OPER/user masks, WHO, WHOIS) by server traces.",
        design_ref="5 (C14)",
        note="Totality is by construction: wild_match is a structurally recursive Gallina function without fuel or error value."),
}

def main():
    checks = []
    for pid in ALL:
        if pid in CLAIMS:
            c = CLAIMS[pid]
            checks.append({
                "property_id": pid,
                "quick_cmd": "python3 check.py %s --tier quick" % pid,
                "thorough_cmd": "python3 check.py %s --tier thorough" % pid,
                "evidence_file": "/verif/evidence/%s.json" % pid,
                "replay_cmd_template": "python3 check.py replay {path}",
                "engine": "coq-model+differential",
                "level_claimed": {"category": "proof", "text": c["text"], "design_ref": "DESIGN.md section " + c["design_ref"]},
                "level_note": LEVEL_NOTE + c.get("note", ""),
                "technique": c["technique"],
            })
    hooks = subprocess.run(["git", "-C", "/repo", "log", "--format=%H", "--grep=^verif hook"], capture_output=True, text=True).stdout.split()
    m = {
        "version": 1,
        "setup_cmd": "python3 check.py setup",
        "hooks": {
            "guard": "irc_verif",
            "enable": "RUSTFLAGS=\"--cfg irc_verif\" cargo build --offline (the harness crate /verif/rsharness compiles /repo/src/*.rs by #[path])",
            "baseline_off_cmd": "cd /repo && cargo test --workspace --no-fail-fast --offline",
            "source_commits": hooks,
            "add_only": True,
        },
        "engines": [
            {"name": "coq-model+differential", "path": "/verif/coq, /verif/rsharness, /verif/py",
             "serves_properties": sorted(CLAIMS), "kind_free_text":
             "hand-written Gallina model of the server with theorems per property (coq/props), extracted to OCaml and run against the real code (compiled from /repo's working tree) on the same inputs and histories on every check"}],
        "checks": checks,
        "notes": "See DESIGN.md. Defects repaired by fix: commits and the one recorded finding are listed in known_findings.json.",
        "not_applicable": [{"property_id": p, "reason": "not claimed yet: the check for this property is still being built in this round (the technique applies; see DESIGN.md section 5)"}
                           for p in ALL if p not in CLAIMS],
    }
    json.dump(m, open(os.path.join(VERIF, "MANIFEST.json"), "w"), indent=1)
    print("claimed:", sorted(CLAIMS))

if __name__ == "__main__":
    main()
