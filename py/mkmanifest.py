#!/usr/bin/env python3
"""writes /verif/MANIFEST.json from the table below"""
import json, os, subprocess
VERIF = os.path.dirname(os.path.dirname(os.path.abspath(__file__)))
ALL = ["C%02d" % i for i in range(1, 21)]

LEVEL_NOTE = ("Trusted: Coq 8.16.1 kernel; no axioms (Print Assumptions of each theorem re-read on every run, expected 'Closed under the global "
              "context'); extraction with ExtrOcamlBasic only + hand-written OCaml driver; the Rust harness that compiles /repo/src by path, the "
              "cfg(irc_verif) dump hook and the python canonicalisation. The theorems are about a hand-written Gallina model; the model is tied to "
              "the code by differential execution on every run, which samples and does not prove. ")

CLAIMS = {
    "C01": dict(
        technique="Coq proof over the handler model (per-target delivery = duplicate-free audience list minus the sender, via Forall2/NoDup) + differential traces and an audience oracle on the implementation's own state",
        text="Theorems (props/C01.v) about the Gallina model of process_privmsg_notice, for ALL shared states, connections, target lists and texts: an accepted channel target queues "
             "exactly one copy for each member of the audience other than the sender - the queued lines are in one-to-one correspondence (Forall2) with a duplicate-free list whose "
             "elements are exactly audience minus sender - each to the connection owning that nick; a nick target goes to exactly the owner; the audience of a status-prefixed target is the "
             "union of the named rank lists; duplicate targets are handled once; the line is :source VERB target :text verbatim; state and connection are unchanged. Statements are "
             "conditional on the handler returning Ok (absence of Panic is C05's theorem). Tie: 32 prefix subsets x rank combinations x flags sweep and seeded random histories, impl vs "
             "model per step, plus the audience rule recomputed from the implementation's own state dump.",
        design_ref="5 (C01)",
        note="History quantification is discharged by the theorems being about every shared state; which states are reachable matters only for the C05 no-Panic hypothesis."),
    "C03": dict(
        technique="Coq proof over the dispatch model (gate, state-independence of gated replies, characterisation of authenticate) + exhaustive verb x registration-progress x configuration sweep against the real server",
        text="Theorems (props/C03.v), for ALL shared states, connection states, lines and configurations, with password verification a parameter: a command outside CAP/AUTHENTICATE/PASS/"
             "NICK/USER/QUIT from an unregistered connection yields exactly 451 and leaves everything unchanged (C03_gate); its answer is the same in any two worlds (C03_no_reveal); a line "
             "turns the connection registered only if negotiation is closed, NICK and USER are set, the configured user mask globs the source, the applicable password verifies and the nick "
             "is free, and then exactly one user keyed by that nick and owned by that connection is inserted (C03_registration_only_if / _if); a failing password at that moment gives 464, "
             "closes, creates nothing (C03_bad_password_closes); any other line from an unregistered connection is inert (C03_refused_is_inert).",
        design_ref="5 (C03)",
        note="argon2 is outside the model: verify is a parameter; the driver instantiates it with hashes produced by the real argon2_hash_password."),
    "C10": dict(
        technique="Coq proof (can_send characterised by a boolean-reflection lemma over glob-based ban semantics; NOTICE silence by induction over the target fold) + flag x ban x rank sweep against the real server with a speaking-rule oracle",
        text="Theorems (props/C10.v), for ALL channels, senders and sources: can_send holds iff (member or neither +n nor +s) and not (some ban mask globs the source and no exception does) and "
             "(not +m or voice-or-higher), with mask matching proved equal to glob (C14); a channel target is delivered to the C01 audience iff can_send, otherwise nobody receives it and a "
             "PRIVMSG sender gets exactly one 404 (NOTICE: nothing); every line queued by a NOTICE command is the relayed NOTICE itself - no numeric, for all target lists (C10_notice_silent); "
             "PRIVMSG to an away user adds exactly the 301 with the away text, NOTICE does not.",
        design_ref="5 (C10)"),
    "C14": dict(
        technique="Coq proof (greedy segment matcher = textbook glob, by induction over the segment list) + exhaustive/random differential run of the model and of the extracted glob spec against the real match_wildcard",
        text="Theorems C14_glob / C14_glob_relation: for ALL patterns and texts the model of match_wildcard equals the textbook glob function (and the "
             "inductive relation); C14_normalize_*: the three documented completions, completeness and idempotence of mask normalisation, for all masks. "
             "The model is tied to utils.rs on every run by comparing it (and, independently, the extracted glob specification) with the real function "
             "on all pairs over {a,b,*,?,e-acute} up to length 4 (5 in the thorough tier) and on seeded random long multi-byte pairs, and the callers "
             "(bans, exceptions, invite exceptions, OPER/user masks, WHO, WHOIS) by server traces.",
        design_ref="5 (C14)",
        note="Totality is by construction: wild_match is a structurally recursive Gallina function without fuel or error value."),
}

def main():
    checks = []
    for pid in ALL:
        if pid in CLAIMS:
            c = CLAIMS[pid]
            checks.append({
                "property_id": pid,
                "quick_cmd": "python3 check.py %s --tier quick" % pid,
                "thorough_cmd": "python3 check.py %s --tier thorough" % pid,
                "evidence_file": "/verif/evidence/%s.json" % pid,
                "replay_cmd_template": "python3 check.py replay {path}",
                "engine": "coq-model+differential",
                "level_claimed": {"category": "proof", "text": c["text"], "design_ref": "DESIGN.md section " + c["design_ref"]},
                "level_note": LEVEL_NOTE + c.get("note", ""),
                "technique": c["technique"],
            })
    hooks = subprocess.run(["git", "-C", "/repo", "log", "--format=%H", "--grep=^verif hook"], capture_output=True, text=True).stdout.split()
    m = {
        "version": 1,
        "setup_cmd": "python3 check.py setup",
        "hooks": {
            "guard": "irc_verif",
            "enable": "RUSTFLAGS=\"--cfg irc_verif\" cargo build --offline (the harness crate /verif/rsharness compiles /repo/src/*.rs by #[path])",
            "baseline_off_cmd": "cd /repo && cargo test --workspace --no-fail-fast --offline",
            "source_commits": hooks,
            "add_only": True,
        },
        "engines": [
            {"name": "coq-model+differential", "path": "/verif/coq, /verif/rsharness, /verif/py",
             "serves_properties": sorted(CLAIMS), "kind_free_text":
             "hand-written Gallina model of the server with theorems per property (coq/props), extracted to OCaml and run against the real code (compiled from /repo's working tree) on the same inputs and histories on every check"}],
        "checks": checks,
        "notes": "See DESIGN.md. Defects repaired by fix: commits and the one recorded finding are listed in known_findings.json.",
        "not_applicable": [{"property_id": p, "reason": "not claimed yet: the check for this property is still being built in this round (the technique applies; see DESIGN.md section 5)"}
                           for p in ALL if p not in CLAIMS],
    }
    json.dump(m, open(os.path.join(VERIF, "MANIFEST.json"), "w"), indent=1)
    print("claimed:", sorted(CLAIMS))

if __name__ == "__main__":
    main()
