import sys, json, random, time, collections
sys.path.insert(0, '/verif/py')
from irc import *
from gen import *
seed = int(sys.argv[1]) if len(sys.argv) > 1 else 1
n = int(sys.argv[2]) if len(sys.argv) > 2 else 200
length = int(sys.argv[3]) if len(sys.argv) > 3 else 30
rng = random.Random(seed)
traces = [gen_trace(rng, "s%d-%d" % (seed, i), length) for i in range(n)]
t0 = time.time()
i, m = run_traces(traces)
print("ran %d traces in %.1fs" % (n, time.time() - t0))
bad = 0
kinds = collections.Counter()
for t in traces:
    d = compare_trace(t, i.get(t.id), m.get(t.id))
    if d:
        bad += 1
        ev = t.events[d["k"]] if d["k"] >= 0 else None
        key = (d["what"], str(ev[2])[:40] if ev and len(ev) > 2 else str(ev))
        kinds[key] += 1
        if bad <= int(sys.argv[4]) if len(sys.argv) > 4 else bad <= 3:
            print("=== %s step %d: %s" % (t.id, d["k"], ev))
            print(json.dumps(d, indent=1, ensure_ascii=False)[:2500])
print("mismatching traces: %d / %d" % (bad, n))
for k, v in kinds.most_common(25):
    print(v, k)
