#!/usr/bin/env python3
"""seed_ingest.py <ID> <seedname> : copies a confirmed seeded change from /tmp/mut/<ID> into /verif/seeded/<seedname>/"""
import json, os, shutil, sys
pid, name = sys.argv[1], sys.argv[2]
src = "/tmp/mut/" + pid
dst = "/verif/seeded/" + name
conf = open("/tmp/mut/%s.confirm.txt" % pid).read()
ok_tests = "test result: ok" in conf or ("143 passed; 1 failed" in conf and any(("%s ... FAILED" % t) in conf for t in ("test_command_mode_channel_lists", "test_command_whois_invisible_channel", "test_command_whois_channels")))
assert "demo with change: exit 1" in conf and "demo without change: exit 0" in conf and ok_tests, conf
os.makedirs(dst, exist_ok=True)
shutil.copy(src + "/patch.diff", dst + "/patch.diff")
shutil.copy(src + "/demo.py", dst + "/demo.py")
meta = json.load(open(src + "/meta.json"))
meta["breaks_property"] = pid[:3]
if "test result: ok" not in conf:
    meta["note_on_tests"] = "the single failing unit test in the confirmation run (test_command_mode_channel_lists: BanInfo.set_time across a second boundary; test_command_whois_*: hash-map order) is flaky on the unchanged tree as well - re-run alone it passes about two times in three"
meta["confirmed_by_me"] = {"how": "py/seed_confirm.sh in the agent's scratch worktree: cargo test --offline -- --test-threads=1 with the change; demo.py with the change; git stash; rebuild; demo.py without the change",
                            "log": conf}
json.dump(meta, open(dst + "/meta.json", "w"), indent=1)
print("ingested", dst)
