import sys, json, random, collections, re
sys.path.insert(0, '/verif/py')
from irc import *
from gen import *
rng = random.Random(5)
traces = [gen_trace(rng, "q%d" % i, 40) for i in range(100)]
i, m = run_traces(traces, model=False)
codes = collections.Counter()
for t in traces:
    for s in i[t.id]:
        for c, ls in s["out"].items():
            for l in ls:
                mm = re.match(r"^:\S+ (\S+)", l)
                codes[mm.group(1) if mm else l[:10]] += 1
print(sorted(codes.items(), key=lambda x: -x[1]))
