#!/bin/bash
# runs the quick check of every claimed property the way `vp check` does (VERIF_SEED=1) and reports; evidence files are rewritten
cd /verif; LOG=/verif/.build/scratch/refresh.log; : > $LOG
for p in ${@:-C01 C02 C03 C04 C05 C06 C07 C08 C09 C10 C11 C12 C13 C14 C15 C16 C17 C18 C19 C20}; do
  s=$(date +%s); VERIF_SEED=1 VERIF_TIER=quick python3 check.py $p --tier quick > /verif/.build/scratch/run_$p.log 2>&1; rc=$?
  echo "$p rc=$rc $(( $(date +%s)-s ))s viol=$(grep -c VIOLATION /verif/.build/scratch/run_$p.log) known=$(grep -c KNOWN-FINDING /verif/.build/scratch/run_$p.log)" >> $LOG
done
cat $LOG
