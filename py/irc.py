"""irc.py - orchestration library: configurations, traces, running model and implementation,
canonicalisation and comparison.  Everything random derives from one random.Random(seed)."""
import json, os, re, subprocess, sys, hashlib, random, tempfile, time, shutil
from concurrent.futures import ThreadPoolExecutor

VERIF = os.path.dirname(os.path.dirname(os.path.abspath(__file__)))
BUILD = os.path.join(VERIF, ".build")
RSH = os.path.join(BUILD, "rs", "debug", "rsharness")
RSH_REL = os.path.join(BUILD, "rs", "release", "rsharness")
MODEL = os.path.join(BUILD, "ml", "ircmodel")
WORK = os.path.join(BUILD, "work")
NPROC = int(os.environ.get("VERIF_JOBS", "16"))


def hx(s):
    if isinstance(s, str):
        s = s.encode("utf-8")
    return s.hex()


# ------------------------------------------------------------------ passwords
_pw_cache = None
PW_CACHE = os.path.join(BUILD, "pwcache.json")


_pw_src = None


def pw_hash(pw):
    """argon2 hash of pw as computed by the real argon2_hash_password (cached on disk, per content of the source file that holds
    the hashing helper: a tree whose helper differs gets its own hashes, as a fresh checkout would)."""
    global _pw_cache, _pw_src
    if _pw_cache is None:
        try:
            _pw_cache = json.load(open(PW_CACHE))
        except Exception:
            _pw_cache = {}
    if _pw_src is None:
        import hashlib
        try:
            _pw_src = hashlib.sha1(open("/repo/src/utils.rs", "rb").read()).hexdigest()[:10]
        except Exception:
            _pw_src = "-"
    key = _pw_src + ":" + pw
    if key not in _pw_cache:
        out = subprocess.run([RSH, "pure"], input="H %s\n" % hx(pw), capture_output=True, text=True).stdout
        _pw_cache[key] = json.loads(out.strip())
        os.makedirs(BUILD, exist_ok=True)
        json.dump(_pw_cache, open(PW_CACHE, "w"))
    return _pw_cache[key]


def pkg_info():
    txt = open("/repo/Cargo.toml").read()
    name = re.search(r'^name\s*=\s*"([^"]*)"', txt, re.M).group(1)
    ver = re.search(r'^version\s*=\s*"([^"]*)"', txt, re.M).group(1)
    return name, ver


# ------------------------------------------------------------------ configuration
def tq(s):
    return json.dumps(s, ensure_ascii=False)


class Config:
    def __init__(self, **kw):
        self.name = "irc.irc"
        self.admin_info = "ircadmin is IRC admin"
        self.admin_info2 = None
        self.admin_email = None
        self.info = "This is IRC server"
        self.motd = "Hello, world!"
        self.network = "IRCnetwork"
        self.password = None            # plaintext; hashed on output
        self.max_connections = None
        self.max_joins = None
        self.ping_timeout = 120
        self.pong_timeout = 20
        self.default_modes = ""         # subset of "ioOrw"
        self.operators = []             # dict(name, password(plain), mask)
        self.users = []                 # dict(name, nick, password(plain)|None, mask|None)
        self.channels = []              # dict(name, topic, flags, key, limit, ban, exception, invex, founders, ...)
        self.known_passwords = ["secret1", "topsecret", "operpass", "wrongpw", ""]
        self.__dict__.update(kw)

    def to_toml(self):
        o = []
        o.append("name = %s" % tq(self.name))
        o.append("admin_info = %s" % tq(self.admin_info))
        if self.admin_info2 is not None:
            o.append("admin_info2 = %s" % tq(self.admin_info2))
        if self.admin_email is not None:
            o.append("admin_email = %s" % tq(self.admin_email))
        o.append("info = %s" % tq(self.info))
        o.append("motd = %s" % tq(self.motd))
        o.append('listen = "127.0.0.1"')
        o.append("port = 6667")
        o.append("network = %s" % tq(self.network))
        if self.password is not None:
            o.append("password = %s" % tq(pw_hash(self.password)))
        if self.max_connections is not None:
            o.append("max_connections = %d" % self.max_connections)
        if self.max_joins is not None:
            o.append("max_joins = %d" % self.max_joins)
        o.append("ping_timeout = %d" % self.ping_timeout)
        o.append("pong_timeout = %d" % self.pong_timeout)
        o.append("dns_lookup = false")
        o.append('log_level = "ERROR"')
        o.append("[default_user_modes]")
        for k, ch in (("invisible", "i"), ("oper", "o"), ("local_oper", "O"), ("registered", "r"), ("wallops", "w")):
            o.append("%s = %s" % (k, "true" if ch in self.default_modes else "false"))
        for op in self.operators:
            o.append("[[operators]]")
            o.append("name = %s" % tq(op["name"]))
            o.append("password = %s" % tq(pw_hash(op["password"])))
            if op.get("mask") is not None:
                o.append("mask = %s" % tq(op["mask"]))
        for u in self.users:
            o.append("[[users]]")
            o.append("name = %s" % tq(u["name"]))
            o.append("nick = %s" % tq(u["nick"]))
            if u.get("password") is not None:
                o.append("password = %s" % tq(pw_hash(u["password"])))
            if u.get("mask") is not None:
                o.append("mask = %s" % tq(u["mask"]))
        for c in self.channels:
            o.append("[[channels]]")
            o.append("name = %s" % tq(c["name"]))
            if c.get("topic") is not None:
                o.append("topic = %s" % tq(c["topic"]))
            o.append("[channels.modes]")
            fl = c.get("flags", "")
            for k, ch in (("invite_only", "i"), ("moderated", "m"), ("secret", "s"), ("protected_topic", "t"),
                          ("no_external_messages", "n")):
                o.append("%s = %s" % (k, "true" if ch in fl else "false"))
            if c.get("key") is not None:
                o.append("key = %s" % tq(c["key"]))
            if c.get("limit") is not None:
                o.append("client_limit = %d" % c["limit"])
            for k, tk in (("ban", "ban"), ("exception", "exception"), ("invex", "invite_exception"),
                          ("founders", "founders"), ("protecteds", "protecteds"), ("operators", "operators"),
                          ("half_operators", "half_operators"), ("voices", "voices")):
                if c.get(k) is not None:
                    o.append("%s = [%s]" % (tk, ", ".join(tq(x) for x in c[k])))
        return "\n".join(o) + "\n"

    def to_mc(self):
        def oh(x):
            return "-" if x is None else hx(x)
        pn, pv = pkg_info()
        o = []
        for k in ("name", "admin_info", "admin_info2", "admin_email", "info", "motd", "network"):
            o.append("MC %s %s" % (k, oh(getattr(self, k))))
        o.append("MC password %s" % ("-" if self.password is None else hx(pw_hash(self.password))))
        o.append("MC max_connections %s" % ("-" if self.max_connections is None else self.max_connections))
        o.append("MC max_joins %s" % ("-" if self.max_joins is None else self.max_joins))
        o.append("MC ping_timeout %d" % self.ping_timeout)
        o.append("MC pong_timeout %d" % self.pong_timeout)
        o.append("MC default_modes %s" % (self.default_modes or "-"))
        o.append("MC pkg_name %s" % hx(pn))
        o.append("MC pkg_version %s" % hx(pv))
        for op in self.operators:
            o.append("MC oper %s %s %s" % (hx(op["name"]), hx(pw_hash(op["password"])), oh(op.get("mask"))))
        for u in self.users:
            o.append("MC user %s %s %s %s" % (hx(u["name"]), hx(u["nick"]),
                                              "-" if u.get("password") is None else hx(pw_hash(u["password"])),
                                              oh(u.get("mask"))))
        for c in self.channels:
            parts = ["MC chan", hx(c["name"]), oh(c.get("topic")), c.get("flags", "") or "-", oh(c.get("key")),
                     "-" if c.get("limit") is None else str(c["limit"])]
            for k in ("ban", "exception", "invex", "founders", "protecteds", "operators", "half_operators", "voices"):
                v = c.get(k) or []
                parts.append("%s=%s" % (k, ",".join(hx(x) for x in v)))
            o.append(" ".join(parts))
        pws = set(self.known_passwords)
        if self.password is not None:
            pws.add(self.password)
        for op in self.operators:
            pws.add(op["password"])
        for u in self.users:
            if u.get("password") is not None:
                pws.add(u["password"])
        for p in sorted(pws):
            o.append("MC pw %s %s" % (hx(p), hx(pw_hash(p))))
        return o

    def describe(self):
        d = {k: v for k, v in self.__dict__.items() if k != "known_passwords"}
        return d


# ------------------------------------------------------------------ traces
class Trace:
    def __init__(self, tid, cfg):
        self.id = tid
        self.cfg = cfg
        self.events = []   # tuples: ("O", c) ("L", c, str|bytes) ("B", c, bytes[, offsets]) ("X", c) ("W", c, ms)
        self.meta = {}

    def open(self, c):
        self.events.append(("O", c))

    def line(self, c, text):
        self.events.append(("L", c, text))

    def raw(self, c, data, offsets=None):
        self.events.append(("B", c, data, offsets))

    def close(self, c):
        self.events.append(("X", c))

    def wait(self, c, ms):
        self.events.append(("W", c, ms))

    def register(self, c, nick, user=None, real=None, password=None, user_first=None):
        """registers connection c; the order of NICK and USER alternates with the connection number unless given
        (both orders are legal and must give the same identity: seeded change C01-c)"""
        self.open(c)
        if password is not None:
            self.line(c, "PASS " + password)
        if user_first is None:
            user_first = (c % 3 == 1)
        if user is None:
            # the user name is not the nick for every third connection: nothing may look a user up by the wrong one (seeded C04-e)
            user = nick + "U" if c % 3 == 2 else nick
        if user_first:
            self.line(c, "USER %s 8 * :%s" % (user or nick, real or ("Real " + nick)))
            self.line(c, "NICK " + nick)
        else:
            self.line(c, "NICK " + nick)
            self.line(c, "USER %s 8 * :%s" % (user or nick, real or ("Real " + nick)))

    def render(self):
        o = ["T %s" % self.id, "C %s" % hx(self.cfg.to_toml())]
        o += self.cfg.to_mc()
        for e in self.events:
            if e[0] == "O":
                o.append("O %d" % e[1])
            elif e[0] == "L":
                o.append("L %d %s" % (e[1], hx(e[2])))
            elif e[0] == "B":
                offs = e[3] if len(e) > 3 and e[3] else None
                o.append("B %d %s%s" % (e[1], hx(e[2]), (" " + ",".join(map(str, offs))) if offs else ""))
            elif e[0] == "X":
                o.append("X %d" % e[1])
            elif e[0] == "W":
                o.append("W %d %d" % (e[1], e[2]))
        o.append("E")
        return "\n".join(o) + "\n"

    def describe(self):
        def show(e):
            if e[0] in ("L", "B"):
                d = e[2]
                if isinstance(d, bytes):
                    try:
                        d = d.decode("utf-8")
                    except Exception:
                        d = "hex:" + d.hex()
                return "%s %d %s" % (e[0], e[1], d if len(d) < 300 else d[:300] + "...(%d)" % len(d))
            return " ".join(str(x) for x in e)
        return {"id": self.id, "config": self.cfg.describe(), "events": [show(e) for e in self.events],
                "meta": self.meta}


# ------------------------------------------------------------------ running
SHARD_TIMEOUT = 900 if os.environ.get("VERIF_TIER", "quick") != "thorough" else 5400


def _run_shard(binary, args, path):
    # backstop: a shard of histories is given a wall-clock limit; what it printed until then is used, the histories it did not
    # finish are missing from the result (and reported as such by the comparison)
    pr = subprocess.Popen([binary] + args + [path], stdout=subprocess.PIPE, stderr=subprocess.PIPE)
    try:
        so, se = pr.communicate(timeout=SHARD_TIMEOUT)
    except subprocess.TimeoutExpired:
        pr.kill()
        so, se = pr.communicate()
        se += b"\nshard killed after %d s" % SHARD_TIMEOUT
    p = type("P", (), {"stdout": so, "stderr": se})
    recs = {}
    for ln in p.stdout.decode("utf-8", "replace").splitlines():
        if not ln.startswith("{"):
            continue
        try:
            r = json.loads(ln)
        except Exception as ex:
            r = {"t": "?", "k": -1, "error": "bad json: %s: %s" % (ex, ln[:200])}
        recs.setdefault(r.get("t"), []).append(r)
    return recs, p.stderr.decode("utf-8", "replace")


def run_traces(traces, tag="x", impl=True, model=True, rsh=None):
    """Runs the traces through the implementation and the model; returns ({id: [steps]}, {id: [steps]})."""
    os.makedirs(WORK, exist_ok=True)
    d = tempfile.mkdtemp(prefix=tag + "-", dir=WORK)
    n = max(1, min(NPROC, len(traces)))
    shards = [[] for _ in range(n)]
    for i, t in enumerate(traces):
        shards[i % n].append(t)
    paths = []
    for i, sh in enumerate(shards):
        p = os.path.join(d, "s%d.trace" % i)
        with open(p, "w") as f:
            for t in sh:
                f.write(t.render())
        paths.append(p)
    impl_out, model_out = {}, {}
    with ThreadPoolExecutor(max_workers=n) as ex:
        futs_i = [ex.submit(_run_shard, rsh or RSH, ["trace"], p) for p in paths] if impl else []
        futs_m = [ex.submit(_run_shard, MODEL, ["trace"], p) for p in paths] if model else []
        for f in futs_i:
            r, err = f.result()
            impl_out.update(r)
        for f in futs_m:
            r, err = f.result()
            model_out.update(r)
    shutil.rmtree(d, ignore_errors=True)
    return impl_out, model_out


def run_pure(lines, binary=None, model=False):
    """Feeds pure-mode case lines to the Rust harness or the model driver; returns output lines."""
    b = MODEL if model else (binary or RSH)
    n = max(1, min(NPROC, (len(lines) + 1999) // 2000))
    size = (len(lines) + n - 1) // n
    chunks = [lines[i:i + size] for i in range(0, len(lines), size)] or [[]]

    def one(ch):
        p = subprocess.run([b, "pure"], input=("\n".join(ch) + "\n").encode(), capture_output=True)
        return p.stdout.decode("utf-8", "replace").splitlines()
    with ThreadPoolExecutor(max_workers=n) as ex:
        res = list(ex.map(one, chunks))
    out = []
    for r, ch in zip(res, chunks):
        if len(r) != len(ch):
            r = r + ["<missing>"] * (len(ch) - len(r))
        out += r
    return out


# ------------------------------------------------------------------ canonicalisation
def canon_line(line, srv):
    pre = ":" + srv + " "
    if not line.startswith(pre):
        return line
    rest = line[len(pre):]
    code = rest[:3]
    if code == "003":
        return re.sub(r"(:This server was created ).*$", r"\1T", line)
    if code == "317":
        m = re.match(r"^(317 \S* \S*) \S+ \S+ (:seconds idle, signon time)$", rest)
        if m:
            return pre + m.group(1) + " T T " + m.group(2)
    if code in ("329", "333", "367"):
        return re.sub(r" \S+$", " T", line)
    if code == "391":
        m = re.match(r"^(391 \S* \S*) ", rest)
        if m:
            return pre + m.group(1) + " T"
    if code == "242":
        m = re.match(r"^(242 \S*) ", rest)
        if m:
            return pre + m.group(1) + " T"
    if code == "212":
        m = re.match(r"^(212 \S*) ", rest)
        if m:
            return pre + m.group(1) + " T"
    if code == "324":
        toks = rest.split(" ")
        # 324 client chan +flags [key] [limit] (+x arg)*  - the list entries come in hash order
        if len(toks) >= 4:
            fl = toks[3]
            nfix = 4 + (1 if "k" in fl else 0) + (1 if "l" in fl else 0)
            tail = toks[nfix:]
            if len(tail) % 2 == 0:
                pairs = sorted(zip(tail[0::2], tail[1::2]))
                return pre + " ".join(toks[:nfix] + [x for p2 in pairs for x in p2])
    if code == "312":
        return re.sub(r":Logged in at .*$", ":Logged in at T", line)
    return line


def canon_lines(lines, srv):
    out = []
    merged = {}
    seen212 = set()
    for l in lines:
        l = canon_line(l, srv)
        m = re.match(r"^(:\S+ (353|319) \S* .*?):(.*)$", l) if (" 353 " in l[:80] or " 319 " in l[:80]) else None
        if m and l.startswith(":" + srv + " "):
            # head up to the first " :" is the grouping key
            idx = l.find(" :")
            head, names = l[:idx], l[idx + 2:]
            merged.setdefault(head, []).extend([x for x in names.split(" ") if x != ""])
            continue
        if l.startswith(":" + srv + " 212 "):
            if l in seen212:
                continue
            seen212.add(l)
        out.append(l)
    for head, names in merged.items():
        out.append(head + " :" + " ".join(sorted(names)))
    return sorted(out)


def canon_step(step, srv):
    outs = {}
    for c, ls in (step.get("out") or {}).items():
        cl = canon_lines(ls, srv)
        if cl:
            outs[str(c)] = cl
    return {"out": outs, "eof": sorted(step.get("eof") or []), "stall": sorted(step.get("stall") or []),
            "panics": step.get("panics") or [], "dump": step.get("dump")}


def diff_dump(a, b, path=""):
    """first difference between two JSON values, as a short string, or None"""
    if type(a) != type(b):
        return "%s: %r vs %r" % (path, a, b)
    if isinstance(a, dict):
        for k in sorted(set(a) | set(b)):
            if k not in a:
                return "%s.%s: absent in the first, the second has %r" % (path, k, b[k])
            if k not in b:
                return "%s.%s: the first has %r, absent in the second" % (path, k, a[k])
            d = diff_dump(a[k], b[k], path + "." + k)
            if d:
                return d
        return None
    if a != b:
        return "%s: %r vs %r" % (path, a, b)
    return None


def compare_trace(trace, impl_steps, model_steps, project=None):
    """Returns None if equal, else dict describing the first differing step.
    project(canon_step, event) may reduce a step to the observables of one property."""
    srv = trace.cfg.name
    if impl_steps is None or model_steps is None:
        return {"k": -1, "what": "missing output", "impl": impl_steps is not None, "model": model_steps is not None}
    ms = {s["k"]: s for s in model_steps}
    for s in impl_steps:
        if "error" in s:
            return {"k": s.get("k", -1), "what": "impl error: " + s["error"]}
    for s in sorted(impl_steps, key=lambda s: s["k"]):
        k = s["k"]
        ev = trace.events[k] if 0 <= k < len(trace.events) else None
        if ev and ev[0] == "W":
            continue
        m = ms.get(k)
        if m is None:
            prev = [x for x in model_steps if x["k"] < k and x.get("panics")]
            return {"k": k, "what": "model stopped (panic: %s)" % (prev[-1]["panics"] if prev else "?"),
                    "impl": canon_step(s, srv)}
        ci, cm = canon_step(s, srv), canon_step(m, srv)
        if ev and ev[0] == "B":
            # several lines in one segment that end in the connection's own close: lines still queued in its
            # mpsc channel (relays, also of its own commands) are dropped with the connection; only what the
            # handler wrote directly (numerics, ERROR) is certain to have been flushed
            for side in (ci, cm):
                for c in (side.get("eof") or []):
                    o = side.get("out") or {}
                    if str(c) in o:
                        o[str(c)] = [l for l in o[str(c)] if isinstance(l, str) and (l.startswith(":" + srv + " ") or l.startswith("ERROR"))]
                        if not o[str(c)]:
                            del o[str(c)]
        if project:
            ci, cm = project(ci, ev), project(cm, ev)
        for key in ("panics", "stall", "eof", "out"):
            if ci.get(key) != cm.get(key):
                return {"k": k, "what": key, "impl": ci.get(key), "model": cm.get(key)}
        d = diff_dump(ci.get("dump"), cm.get("dump"), "dump")
        if d:
            return {"k": k, "what": "dump", "detail": d}
    return None
