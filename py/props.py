"""props.py - the per-property correspondence checks and oracles."""
import itertools, json, os, random, re, sys, collections
import irc, gen
from irc import hx, run_pure, run_traces, compare_trace, Config, Trace, canon_step


def pick(res, k, mod):
    """quick-tier subsampling of a sweep: keeps cell k with probability 1/mod, decided by a hash of (seed, k) - a plain
    'k % mod' stride can coincide with one axis of the sweep and silently drop all cells with one value of it"""
    import zlib
    return zlib.crc32(("%d:%d" % (res.seed, k)).encode()) % mod == 0


def unhex_s(h):
    return bytes.fromhex(h).decode("utf-8", "replace")


def load_known(pid):
    try:
        k = json.load(open(os.path.join(irc.VERIF, "known_findings.json")))
    except Exception:
        return []
    return [f for f in k.get("findings", []) if f.get("property") == pid]


# ====================================================================== C14
def c14_pairs(res):
    rng = random.Random(res.seed)
    alpha = ["a", "b", "*", "?", "é"]
    maxlen = 4 if res.tier == "quick" else 5
    strs = [""]
    for n in range(1, maxlen + 1):
        strs += ["".join(x) for x in itertools.product(alpha, repeat=n)]
    pats = strs
    texts = [s for s in strs if "*" not in s and "?" not in s] + ["*", "?", "a*", "?b"]
    pairs = [(p, t) for p in pats for t in texts]
    exhaustive_n = len(pairs)
    # long random pairs: literal runs longer than the text, stacked wildcards, multi-byte
    pool = "ab*?é漢!@.~-_0😀"
    for _ in range(20000 if res.tier == "quick" else 200000):
        lp, lt = rng.randint(0, 14), rng.randint(0, 14)
        t = "".join(rng.choice("abé漢!@.~😀") for _ in range(lt))
        r = rng.random()
        if r < 0.4:
            # derive the pattern from the text so that many match
            p = ""
            for ch in t:
                x = rng.random()
                p += ch if x < 0.6 else "?" if x < 0.75 else "*" if x < 0.9 else ""
            if rng.random() < 0.3:
                p += rng.choice(["*", "a", "**", "?"])
        else:
            p = "".join(rng.choice(pool) for _ in range(lp))
        pairs.append((p, t))
    return pairs, exhaustive_n


def coq_lit(x):
    return "[" + "; ".join(str(ord(ch)) for ch in x) + "]"


def coq_eval(pid, imports, typ, exprs):
    """evaluates closed Gallina expressions INSIDE Coq (vm_compute over the compiled theories - no extraction, no OCaml driver)
    and returns the printed values as python objects (bool / list of code points); None if coqc fails"""
    import ast, subprocess
    d = os.path.join(irc.BUILD, "scratch")
    os.makedirs(d, exist_ok=True)
    path = os.path.join(d, "cases_%s.v" % pid)
    with open(path, "w") as f:
        f.write("From IRC Require Import %s.\nFrom Coq Require Import NArith List.\nImport ListNotations.\nOpen Scope N_scope.\n" % imports)
        f.write("Definition cases : list (%s) := [\n  %s].\nEval vm_compute in cases.\n" % (typ, ";\n  ".join(exprs)))
    p = subprocess.run(["coqc", "-noglob", "-Q", os.path.join(irc.VERIF, "coq", "theories"), "IRC", path],
                       capture_output=True, text=True, timeout=900)
    if p.returncode != 0:
        return None
    out = p.stdout
    body = out[out.index("= ") + 2:out.rindex(": list")]
    body = " ".join(body.split())
    body = body.replace("%N", "").replace(";", ",").replace("true", "True").replace("false", "False").replace("Some ", "")
    return ast.literal_eval(body)


def coq_str(x):
    return "[" + "; ".join(str(ord(ch)) for ch in x) + "]"


def coq_opt(x, f=coq_str):
    return "None" if x is None else "(Some %s)" % f(x)


def coq_trace_file(t):
    """Gallina text of the configuration, the password oracle and the event list of a history (only O / L / X events with
    LF- and CR-free text lines within the length limit - for those the framing is the identity), built from the very
    configuration lines the extracted driver is given; None if the history has other events"""
    def uh(h):
        return bytes.fromhex(h).decode("utf-8")
    def uo(h):
        return None if h == "-" else uh(h)
    fields, opers, users, chans, pws = {}, [], [], [], []
    for l in t.cfg.to_mc():
        f = l.split(" ")
        if f[1] == "oper":
            opers.append("{| oc_name := %s; oc_password := %s; oc_mask := %s |}" % (coq_str(uh(f[2])), coq_str(uh(f[3])), coq_opt(uo(f[4]))))
        elif f[1] == "user":
            users.append("{| uc_name := %s; uc_nick := %s; uc_password := %s; uc_mask := %s |}" % (coq_str(uh(f[2])), coq_str(uh(f[3])), coq_opt(uo(f[4])), coq_opt(uo(f[5]))))
        elif f[1] == "chan":
            kv = dict(x.split("=", 1) for x in f[7:])
            def g(k):
                v = kv.get(k, "")
                return "(list_to_set [%s] : gset str)" % "; ".join(coq_str(uh(x)) for x in v.split(",") if x)
            flags = f[4]
            chans.append("{| cc_name := %s; cc_topic := %s; cc_modes := {| cm_ban := %s; cm_exception := %s; cm_limit := %s; cm_invex := %s; cm_key := %s; "
                         "cm_operators := %s; cm_half_operators := %s; cm_voices := %s; cm_founders := %s; cm_protecteds := %s; cm_invite_only := %s; cm_moderated := %s; "
                         "cm_secret := %s; cm_protected_topic := %s; cm_noext := %s |} |}" % (
                             coq_str(uh(f[2])), coq_opt(uo(f[3])), g("ban"), g("exception"), "None" if f[6] == "-" else "(Some %s)" % f[6], g("invex"), coq_opt(uo(f[5])),
                             g("operators"), g("half_operators"), g("voices"), g("founders"), g("protecteds"),
                             *[("true" if c in flags else "false") for c in "imstn"]))
        elif f[1] == "pw":
            pws.append("(%s, %s)" % (coq_str(uh(f[2])), coq_str(uh(f[3]))))
        else:
            fields[f[1]] = f[2] if len(f) > 2 else "-"
    def fs(k):
        v = fields.get(k, "-")
        return coq_str("" if v == "-" else uh(v))
    def fo(k):
        return coq_opt(uo(fields.get(k, "-")))
    def fn(k):
        v = fields.get(k, "-")
        return "None" if v == "-" else "(Some %s)" % v
    dm = fields.get("default_modes", "-")
    dm = "" if dm == "-" else dm
    cfg = ("{| cfg_name := %s; cfg_admin_info := %s; cfg_admin_info2 := %s; cfg_admin_email := %s; cfg_info := %s; cfg_motd := %s; cfg_network := %s; cfg_password := %s; "
           "cfg_max_connections := %s; cfg_max_joins := %s; cfg_ping_timeout := %s; cfg_pong_timeout := %s; "
           "cfg_default_umodes := {| um_invisible := %s; um_oper := %s; um_local_oper := %s; um_registered := %s; um_wallops := %s |}; "
           "cfg_operators := [%s]; cfg_users := [%s]; cfg_channels := [%s]; cfg_pkg_name := %s; cfg_pkg_version := %s |}" % (
               fs("name"), fs("admin_info"), fo("admin_info2"), fo("admin_email"), fs("info"), fs("motd"), fs("network"), fo("password"),
               fn("max_connections"), fn("max_joins"), fields.get("ping_timeout", "120"), fields.get("pong_timeout", "20"),
               *[("true" if c in dm else "false") for c in "ioOrw"],
               "; ".join(opers), "; ".join(users), "; ".join(chans), fs("pkg_name"), fs("pkg_version")))
    evs = []
    for e in t.events:
        if e[0] == "O":
            evs.append("(%d%%nat, EvOpen false)" % e[1])
        elif e[0] == "X":
            evs.append("(%d%%nat, EvClose)" % e[1])
        elif e[0] == "L" and isinstance(e[2], str) and "\r" not in e[2] and "\n" not in e[2] and len(e[2].encode("utf-8")) < 1990:
            evs.append("(%d%%nat, EvLine %s)" % (e[1], coq_str(e[2])))
        else:
            return None
    return ("From stdpp Require Import gmap.\nFrom IRC Require Import Str Wild Mask Parse Reply State Handlers Step.\nOpen Scope N_scope.\n"
            "Definition cfg : config := %s.\nDefinition pws : list (str * str) := [%s].\n"
            "Definition verify (p h : str) : bool := existsb (fun '(p', h') => str_eqb p p' && str_eqb h h') pws.\n"
            "Definition evs : list (nat * event) := [\n  %s].\n"
            "Definition result := match run cfg verify (world_init cfg) evs with\n"
            "  | Ok (w, outs) => Some (List.map (fun '(o, cl) => (List.map (fun '(c, l) => (N.of_nat c, l)) o, List.map N.of_nat cl)) outs)\n  | Panic _ => None end.\n"
            "Eval vm_compute in result.\n" % (cfg, "; ".join(pws), ";\n  ".join(evs)))


def kernel_crosscheck(res, pid, traces, model_steps, k):
    """a sample of histories is run by Coq's own evaluator on the compiled theories (Step.run under vm_compute: no extraction, no
    OCaml) and every step's lines and closed connections are compared with what the extracted program printed for the same history"""
    import ast, subprocess
    from concurrent.futures import ThreadPoolExecutor
    d = os.path.join(irc.BUILD, "scratch")
    os.makedirs(d, exist_ok=True)
    todo = []
    for t in traces:
        if len(todo) >= k:
            break
        txt = coq_trace_file(t) if model_steps.get(t.id) else None
        if txt is not None and len(t.events) <= 120:
            todo.append((t, txt))

    def one(job):
        j, (t, txt) = job
        path = os.path.join(d, "krun_%s_%d.v" % (pid, j))
        open(path, "w").write(txt)
        p = subprocess.run(["coqc", "-noglob", "-Q", os.path.join(irc.VERIF, "coq", "theories"), "IRC", path], capture_output=True, text=True, timeout=1200)
        if p.returncode != 0:
            return t, None, p.stderr[-600:]
        out = p.stdout
        body = " ".join(out[out.index("= ") + 2:out.rindex(": option")].split())
        body = body.replace("%N", "").replace(";", ",").replace("Some ", "")
        return t, (None if body.strip() == "None" else ast.literal_eval(body)), ""
    checked = steps = 0
    with ThreadPoolExecutor(max_workers=8) as ex:
        for t, val, err in ex.map(one, enumerate(todo)):
            ms = sorted(model_steps[t.id], key=lambda s: s["k"])
            if val is None:
                if err or not any(s.get("panics") for s in ms):
                    res.violation("history %s could not be evaluated inside Coq, or Coq's evaluation aborts where the extracted program does not: %s" % (t.id, err), {"kind": "tie", "trace": t.describe()}, found=False)
                continue
            checked += 1
            for s, (o, cl) in zip(ms, val):
                by = {}
                for c, l in o:
                    by.setdefault(str(c), []).append("".join(chr(x) for x in l))
                steps += 1
                if by != {c: ls for c, ls in (s.get("out") or {}).items() if ls} or sorted(set(cl)) != sorted(s.get("eof") or []):
                    res.violation("the extracted program and Coq's own evaluation of Step.run disagree at step %d of %s" % (s["k"], t.id),
                                  {"kind": "tie", "trace": t.describe(), "in_coq": by, "extracted": s.get("out"), "closed_in_coq": cl, "closed_extracted": s.get("eof")}, found=False)
                    break
    res.coverage["evaluated_inside_coq"] = {"histories": checked, "steps": steps,
                                            "note": "Step.run under vm_compute on the compiled theories, compared step by step with the extracted OCaml program"}


def check_C14(res):
    pairs, exh = c14_pairs(res)
    lines = ["W %s %s" % (hx(p), hx(t)) for p, t in pairs]
    impl = run_pure(lines)
    model = run_pure(lines, model=True)
    spec = run_pure(["WG %s %s" % (hx(p), hx(t)) for p, t in pairs], model=True)
    impl_rel = run_pure(lines, binary=irc.RSH_REL) if res.tier == "thorough" else None
    n_true = sum(1 for x in impl if x == "true")
    spec_fail = tie_fail = 0
    for idx, (p, t) in enumerate(pairs):
        if impl[idx] != spec[idx] or (impl_rel and impl_rel[idx] != spec[idx]):
            spec_fail += 1
            if spec_fail <= 3:
                res.violation("match_wildcard(%r, %r) = %s but glob semantics gives %s" %
                              (p, t, impl[idx] if impl[idx] != spec[idx] else impl_rel[idx], spec[idx]),
                              {"kind": "pure", "case": lines[idx], "pattern": p, "text": t,
                               "impl": impl[idx], "impl_release": impl_rel[idx] if impl_rel else None,
                               "spec_glob": spec[idx], "model": model[idx]}, found=True)
        elif impl[idx] != model[idx]:
            tie_fail += 1
    if tie_fail and not spec_fail:
        res.violation("correspondence Wild.wild_match vs utils.rs match_wildcard differs on %d inputs" % tie_fail,
                      {"kind": "tie", "note": "implementation agrees with the glob specification on every explored input"},
                      found=False)
    # normalize_sourcemask
    rng = random.Random(res.seed + 1)
    masks = ["", "!", "@", "!@", "@!", "a", "a!b", "a@b", "a!b@c", "a@b!c", "a!b!c", "a@b@c", "é!ü@漢", "*", "*!*@*",
             "nick!user", "nick@host", "!u@h", "n!@h", "n!u@"]
    for _ in range(3000 if res.tier == "quick" else 30000):
        masks.append("".join(rng.choice("ab!@*é.") for _ in range(rng.randint(0, 8))))
    nl = ["N %s" % hx(m) for m in masks]
    ni, nm = run_pure(nl), run_pure(nl, model=True)
    norm_bad = 0
    for m, a, b in zip(masks, ni, nm):
        exp = None
        if a.startswith("PANIC"):
            exp = "aborts"
        else:
            v = json.loads(a)
            # the property's own statement of the completion
            if "!" in m:
                e = m if "@" in m[m.index("!") + 1:] else m + "@*"
            elif "@" in m:
                i = m.index("@")
                e = m[:i] + "!*" + m[i:]
            else:
                e = m + "!*@*"
            if v != e:
                exp = "gives %r, the documented completion is %r" % (v, e)
        if exp:
            norm_bad += 1
            if norm_bad <= 2:
                res.violation("normalize_sourcemask(%r) %s" % (m, exp), {"kind": "pure", "case": "N " + hx(m), "mask": m,
                                                                      "impl": a, "model": b}, found=True)
        elif a != b:
            norm_bad += 1
            res.violation("correspondence Mask.normalize_mask vs normalize_sourcemask differs", {"mask": m, "impl": a, "model": b},
                          found=False)
    # the extraction itself: a sample is evaluated by the Coq kernel's own evaluator on the compiled theories and compared with
    # what the extracted OCaml program answered (and, transitively, with the implementation)
    rng2 = random.Random(res.seed + 141)
    ks = sorted(rng2.sample(range(len(pairs)), 300 if res.tier == "quick" else 2000))
    kv = coq_eval("C14w", "Str Wild Glob", "bool * bool", ["(wild_match %s %s, glob %s %s)" % (coq_lit(pairs[k][0]), coq_lit(pairs[k][1]), coq_lit(pairs[k][0]), coq_lit(pairs[k][1])) for k in ks])
    ms = sorted(rng2.sample(range(len(masks)), 100))
    mv = coq_eval("C14n", "Str Mask", "list N", ["normalize_mask %s" % coq_lit(masks[k]) for k in ms])
    kernel_checked = 0
    if kv is None or mv is None:
        res.violation("the model could not be evaluated inside Coq (cases file does not compile)", {"kind": "tie"}, found=False)
    else:
        for k, (w, g) in zip(ks, kv):
            kernel_checked += 1
            if (model[k] == "true") != w or (spec[k] == "true") != g:
                res.violation("the extracted program and Coq's own evaluation of wild_match / glob disagree on (%r, %r): extracted %s / %s, in Coq %s / %s" % (
                    pairs[k][0], pairs[k][1], model[k], spec[k], w, g), {"kind": "tie", "pattern": pairs[k][0], "text": pairs[k][1]}, found=False)
                break
        for k, v in zip(ms, mv):
            kernel_checked += 1
            if not nm[k].startswith("PANIC") and json.loads(nm[k]) != "".join(chr(c) for c in v):
                res.violation("the extracted program and Coq's own evaluation of normalize_mask disagree on %r" % masks[k], {"kind": "tie", "mask": masks[k]}, found=False)
                break
    # callers of the matcher, through the real server: bans, exceptions, invex, oper/user masks, WHO, WHOIS
    prof = {"weights": dict(MODE=16, JOIN=14, WHO=6, WHOIS=5, OPER=4, PRIVMSG=6, KICK=1, TOPIC=1, MISC=0.3, BAD=0.5),
            "p_users": 0.6, "p_operators": 0.9}
    ntr = 60 if res.tier == "quick" else 600
    l2 = l2_campaign(res, "C14", ntr, 40, prof, project=None, traces=c14_caller_traces(res), oracle=mask_callers_oracle)
    res.coverage.update({
        "evaluations": len(pairs) + len(masks) + l2["steps"],
        "distinct_nontrivial": len(set(pairs)) + len(set(masks)),
        "rule": "wildcard pairs: exhaustive over alphabet {a,b,*,?,é} (patterns up to length %d x literal texts up to length %d = %d pairs) "
                "plus seeded random long pairs (multi-byte, stacked wildcards, literal runs longer than the text); distinct = distinct (pattern,text) "
                "and distinct masks; each is compared impl vs model AND impl vs extracted glob specification; callers exercised by %d server traces plus a fixed "
                "population probed with 34 WHO / WHOIS patterns ('?'-only, '*'-only, mixed, comma lists, source and real-name patterns), with an oracle on the implementation: the users "
                "answered are exactly those the glob semantics selects among the users visible to the asker, and bans / exceptions decide JOIN by the same semantics; abbreviated masks (nick, nick@host, nick!user) "
                "set and removed in every combination of forms on the three lists, with the announcement-replay oracle (the stored, announced and removed mask is the completed one)" % (
                    4 if res.tier == "quick" else 5, 4 if res.tier == "quick" else 5, exh, ntr),
        "exhaustive": False, "exhaustive_part": exh,
        "traces_validated_against_impl": l2["traces"],
        "samples": [{"pattern": p, "text": t, "impl": impl[i], "model": model[i], "glob": spec[i]}
                    for i, (p, t) in list(enumerate(pairs))[exh:exh + 6]] + [{"mask": masks[25], "normalized": ni[25]}],
        "matching_pairs": n_true, "release_build_checked": impl_rel is not None, "evaluated_inside_coq": kernel_checked,
        "l2": l2["summary"]})
    res.assumptions = ["UTF-8 <-> code point conversion in the two drivers is trusted",
                       "callers (bans, exceptions, invite exceptions, OPER and user masks, WHO, WHOIS) are tied by server traces, see l2"]


def mask_callers_oracle(t, steps):
    """C14 at the call sites, on the implementation's own state: a WHO / WHOIS pattern containing '*' or '?' selects
    exactly the users the glob semantics selects (a pattern of '?' alone is a pattern, not a literal nick), and a ban /
    exception decides JOIN exactly as the glob semantics says (join_oracle restates that rule)"""
    fails = []
    cm = ConnMap(t.cfg.name)
    prev = None
    for s in sorted(steps, key=lambda s: s["k"]):
        ev = t.events[s["k"]]
        if ev[0] == "L" and isinstance(ev[2], str) and prev is not None and not s.get("panics"):
            actor = cm.nick.get(ev[1])
            mine = (s.get("out") or {}).get(str(ev[1]), [])
            if actor in prev["users"] and not (mine and numeric_of(mine[0]) == "ERROR"):
                me = prev["users"][actor]

                def visible(n):
                    u = prev["users"][n]
                    return "i" not in u["modes"] or bool(set(u["channels"]) & set(me["channels"]))
                m = re.match(r"^WHOIS ([^ :]+)$", ev[2])
                if m and all(x for x in m.group(1).split(",")):
                    masks = m.group(1).split(",")
                    exp = set()
                    for n in prev["users"]:
                        for mk in masks:
                            if (("*" in mk or "?" in mk) and py_glob(mk, n)) or mk == n:
                                if visible(n):
                                    exp.add(n)
                    got = set(l.split(" ")[3] for l in mine if numeric_of(l) == "311")
                    if got != exp:
                        fails.append(("WHOIS %s asked by %s answers for %r, glob semantics over the users visible to the asker selects %r" % (
                            m.group(1), actor, sorted(got), sorted(exp)), {"step": s["k"]}))
                m = re.match(r"^WHO ([^ :]+)$", ev[2])
                if m and ("*" in m.group(1) or "?" in m.group(1)):
                    mk = m.group(1)
                    exp = set(n for n, u in prev["users"].items()
                              if visible(n) and (py_glob(mk, n) or py_glob(mk, u["source"]) or py_glob(mk, u["realname"])))
                    got = set(l.split(" ")[7] for l in mine if numeric_of(l) == "352")
                    if got != exp:
                        fails.append(("WHO %s asked by %s lists %r, glob semantics over nick / source / real name of the visible users selects %r" % (
                            mk, actor, sorted(got), sorted(exp)), {"step": s["k"]}))
        cm.update(s)
        prev = s.get("dump")
    return fails + join_oracle(t, steps) + mode_oracle(t, steps)


def c14_caller_traces(res):
    """patterns of every shape through WHO and WHOIS over a fixed population (some invisible, one sharing a channel)"""
    cfg = Config()
    t = Trace("c14-callers", cfg)
    nicks = ["harry", "harvy", "barry", "ha", "h", "harry_", "x?y"]
    for c, n in enumerate(nicks):
        t.register(c, n)
    t.line(1, "MODE harvy +i")
    t.line(2, "MODE barry +i")
    t.line(2, "JOIN #a")
    t.line(0, "JOIN #a")
    for mk in ["h?rry", "?arry", "harr?", "ha??y", "?????", "????", "harry?", "h*rry", "*arry", "h?*y", "h?ry", "harry", "?", "??", "*", "h*", "*y",
               "*r*y", "?a*", "x?y", "x*y", "x\\?y", "h??", "ha?", "?a", "*?", "?*?", "h?rry,b?rry", "harry,h?", "nobody,?", "*!*@*", "h*!*@127.*", "*Real*", "Real h?rry"]:
        if " " not in mk:
            t.line(0, "WHOIS " + mk)
            t.line(3, "WHOIS " + mk)
        if "," not in mk:
            t.line(0, "WHO " + mk if " " not in mk else "WHO :" + mk)
            t.line(3, "WHO " + mk if " " not in mk else "WHO :" + mk)
    # "completed with wildcards before it is stored, announced and compared": abbreviated masks set and removed in every
    # combination of forms on the three lists, the lists queried, the effect on JOIN observed
    t2 = Trace("c14-abbrev", Config())
    for c, n in enumerate(["alice", "bob", "carl", "dora"]):
        t2.register(c, n)
    t2.line(0, "JOIN #room")
    forms = lambda n: [n, n + "@127.0.0.1", n + "!~" + n, n + "!*@*", n + "!~" + n + "@127.0.0.1"]
    for letter in "Ibe":
        for who in ("bob", "carl"):
            for set_form in forms(who)[:3]:
                for unset_form in forms(who):
                    t2.line(0, "MODE #room +%s %s" % (letter, set_form))
                    t2.line(0, "MODE #room -%s %s" % (letter, unset_form))
                    t2.line(0, "MODE #room %s" % letter)
    t2.line(0, "MODE #room +i")
    t2.line(0, "MODE #room +I bob")
    t2.line(0, "MODE #room -I bob")
    t2.line(1, "JOIN #room")
    t2.line(0, "MODE #room +I carl@127.0.0.1")
    t2.line(2, "JOIN #room")
    t2.line(0, "MODE #room -i+b dora")
    t2.line(0, "MODE #room -b dora")
    t2.line(3, "JOIN #room")
    t2.line(0, "NAMES #room")
    return [t, t2]


# ====================================================================== generic L2 campaign
def l2_campaign(res, pid, ntraces, length, profile, project=None, traces=None, oracle=None):
    """generates traces, runs implementation and model, compares (optionally projected);
    oracle(trace, impl_steps) -> list of (description, replay) property failures on the implementation itself"""
    import zlib
    rng = random.Random(res.seed ^ (zlib.crc32(pid.encode()) % 100000))
    if traces is None:
        traces = []
    corpus_dir = os.path.join(irc.VERIF, "corpus", pid)
    traces = list(traces) + [gen.gen_trace(rng, "%s-%d" % (pid, i), length, profile) for i in range(ntraces)]
    impl, model = run_traces(traces, tag=pid)
    steps = 0
    mism = []
    oracle_fail = []
    verbs = collections.Counter()
    codes = collections.Counter()
    suspects = []
    for t in traces:
        si = impl.get(t.id)
        if si:
            steps += len(si)
            for s in si:
                for c, ls in (s.get("out") or {}).items():
                    for l in ls:
                        m = re.match(r"^:\S+ (\S+)", l)
                        if m:
                            codes[m.group(1)] += 1
        for e in t.events:
            if e[0] == "L" and isinstance(e[2], str):
                verbs[(e[2].split(" ") or [""])[0].upper()[:12]] += 1
        d = compare_trace(t, si, model.get(t.id), project=project)
        of = oracle(t, si) if (oracle and si) else []
        if d or of:
            suspects.append(t)
    retried = 0
    if suspects:
        # a disagreement is believed only if it shows again when the same history is run once more
        # (the harness is timing-sensitive at a rate of about one step in a million)
        impl2, model2 = run_traces(suspects, tag=pid + "-retry")
        retried = len(suspects)
        for t in suspects:
            si = impl2.get(t.id)
            d = compare_trace(t, si, model2.get(t.id), project=project)
            if d:
                mism.append((t, d))
            if oracle and si:
                for desc, rp in oracle(t, si):
                    oracle_fail.append((t, desc, rp))
            impl[t.id], model[t.id] = si, model2.get(t.id)
    seen_t = set()
    for t, desc, rp in oracle_fail[:3]:
        r = {"kind": "trace", "trace": t.describe(), "failure": desc}
        r.update(rp or {})
        if t.id not in seen_t and len(seen_t) < 2:
            seen_t.add(t.id)
            # shrink the history while the same oracle still objects; the minimal history is the replay
            sig = lambda x: re.sub(r"\d+", "#", x.split(":")[0])[:40]
            word = sig(desc)
            small = shrink_trace(t, lambda tt, si, mo: any(sig(dd) == word for dd, _ in (oracle(tt, si) if si else [])), pid)
            if small is not None:
                r["minimal_history"] = small.describe()["events"]
                r["trace_file"] = small.render()
        res.violation(desc, r, found=True)
    if mism and not oracle_fail:
        t, d = mism[0]
        small = shrink_trace(t, lambda tt, si, mo: compare_trace(tt, si, mo, project=project) is not None, pid)
        rp = {"kind": "trace", "trace": t.describe(), "diff": d, "trace_file": (small or t).render()}
        if small is not None:
            rp["minimal_history"] = small.describe()["events"]
        res.violation("correspondence model vs implementation differs (%d of %d traces), first at step %d of %s: %s" % (
            len(mism), len(traces), d["k"], t.id, d["what"]), rp, found=False)
    if pid != "C05" and traces:
        # the extraction and the driver, for the handlers this property exercises: a few of the histories are also run by Coq's own
        # evaluator on the compiled theories and compared step by step with what the extracted program printed (C05 does it on its own)
        try:
            kernel_crosscheck(res, pid, traces, model, 4 if res.tier == "quick" else 24)
        except Exception as ex:
            res.coverage["evaluated_inside_coq"] = {"histories": 0, "error": str(ex)[:300]}
    return {"traces": len(traces), "steps": steps, "mismatches": len(mism),
            "summary": {"traces": len(traces), "steps": steps, "mismatching_traces": len(mism), "suspects_rerun": retried,
                        "verbs": dict(verbs.most_common(40)), "reply_codes": dict(codes.most_common(60))},
            "impl": impl, "model": model, "trace_objs": traces}


def shrink_trace(t, still_fails, pid, rounds=14):
    """delta debugging over the events of a failing history (connection openings are kept): returns a smaller
    history on which still_fails(trace, impl_steps, model_steps) holds, or None if nothing could be removed"""
    try:
        import time as _t
        deadline = _t.time() + (40 if os.environ.get("VERIF_TIER", "quick") != "thorough" else 240)
        events = list(t.events)
        best = None
        n = 2
        for rd in range(rounds):
            # shrinking is a convenience for the reader of the replay: it never takes more than its time budget (a change that makes
            # connections stall makes every candidate history slow)
            if len(events) < 3 or _t.time() > deadline:
                break
            size = max(1, len(events) // n)
            cands = []
            for start in range(0, len(events), size):
                keep = [e for k2, e in enumerate(events) if not (start <= k2 < start + size) or e[0] == "O"]
                if len(keep) < len(events):
                    tt = Trace("%s-shr%d-%d" % (t.id, rd, start), t.cfg)
                    tt.events = keep
                    tt.meta = dict(t.meta, shrunk_from=t.id)
                    cands.append(tt)
            if not cands:
                break
            impl, model = run_traces(cands, tag=pid + "-shrink")
            hit = None
            for tt in cands:
                try:
                    if still_fails(tt, impl.get(tt.id), model.get(tt.id)):
                        hit = tt
                        break
                except Exception:
                    continue
            if hit is not None:
                events = list(hit.events)
                best = hit
                n = max(n - 1, 2)
            elif size == 1:
                break
            else:
                n = min(n * 2, len(events))
        return best
    except Exception:
        return None


# ====================================================================== dispatch
def run(pid, res):
    fn = globals().get("check_" + pid)
    if fn is None:
        res.violation("no check implemented for %s" % pid, {}, found=False)
        return
    fn(res)


def replay(path):
    r = json.load(open(path))
    rp = r.get("replay", {})
    print("property:", r.get("property"), "-", r.get("what"))
    if rp.get("kind") == "pure":
        out = run_pure([rp["case"]])
        print("implementation now answers:", out)
        return 0
    if rp.get("kind") == "trace" and rp.get("trace_file"):
        p = os.path.join(irc.BUILD, "replay.trace")
        open(p, "w").write(rp["trace_file"])
        import subprocess
        for b in (irc.RSH, irc.MODEL):
            print("==", b)
            print(subprocess.run([b, "trace", p], capture_output=True, text=True).stdout[-4000:])
        return 0
    print(json.dumps(rp, indent=1, ensure_ascii=False)[:4000])
    return 0


# ====================================================================== helpers for oracles
SIX = {"CAP", "AUTHENTICATE", "PASS", "NICK", "USER", "QUIT"}


def first_verb(line):
    if isinstance(line, bytes):
        try:
            line = line.decode("utf-8")
        except Exception:
            return None
    ws = line.split()
    if ws and ws[0].startswith(":"):
        ws = ws[1:]
    return ws[0].upper() if ws else None


def numeric_of(line):
    m = re.match(r"^:\S+ (\S+)", line)
    return m.group(1) if m else None


def strip_dump(d):
    """dump without fields that legitimately move (none at present)"""
    return d


# ====================================================================== C03
ALL_VERB_LINES = [
    "JOIN #a", "PART #a", "TOPIC #a", "TOPIC #a :x", "NAMES", "NAMES #a", "LIST", "INVITE bob #a", "KICK #a bob",
    "MOTD", "VERSION", "ADMIN", "CONNECT a.b", "LUSERS", "TIME", "STATS u", "LINKS", "HELP", "INFO", "MODE bob",
    "MODE #a +i", "MODE bob +i", "PRIVMSG bob :hi", "PRIVMSG #a :hi", "NOTICE bob :hi", "WHO *", "WHO bob", "WHOIS bob",
    "WHOWAS bob", "KILL bob :x", "REHASH", "RESTART", "SQUIT irc.irc :x", "AWAY :gone", "USERHOST bob", "WALLOPS :x",
    "ISON bob", "DIE", "PING x", "PONG x", "OPER admin operpass", "FOO", "join #a", "JOIN", "PRIVMSG", "MODE", "",
    "CAP LS 302", "CAP LIST", "CAP REQ :multi-prefix", "CAP END", "AUTHENTICATE", "PASS secret1", "NICK bob", "NICK zed",
    "USER z 8 * :Z", "QUIT",
]


def c03_cases(res):
    rng = random.Random(res.seed)
    cfgs = []
    cfgs.append(("nopw", Config(operators=[dict(name="admin", password="operpass")])))
    cfgs.append(("srvpw", Config(password="secret1", operators=[dict(name="admin", password="operpass")])))
    cfgs.append(("userpw", Config(users=[dict(name="zed", nick="zed", password="topsecret", mask=None)])))
    cfgs.append(("usermask", Config(users=[dict(name="zed", nick="zed", password=None, mask="zed!*@10.*")])))
    cfgs.append(("usermaskok", Config(password="secret1",
                                      users=[dict(name="zed", nick="zed", password="topsecret", mask="z*!~zed@127.0.0.?")])))
    # several configured users, one user name defined twice before the one that is probed: each configured user is held to ITS OWN
    # password and mask (seeded C03-i: the index of a configured user was computed over a filtered list)
    cfgs.append(("userdup", Config(users=[dict(name="acct", nick="acct", password=None, mask=None), dict(name="acct", nick="acct2", password=None, mask=None),
                                          dict(name="zed", nick="zed", password="topsecret", mask=None), dict(name="last", nick="last", password="lastpw", mask=None)])))
    prefixes = [[], ["PASS secret1"], ["PASS topsecret"], ["PASS wrongpw"], ["NICK zed"], ["USER zed 8 * :Z"],
                ["CAP LS 302", "NICK zed", "USER zed 8 * :Z"], ["PASS secret1", "NICK zed"], ["PASS topsecret", "USER zed 8 * :Z"],
                ["CAP LS 302"], ["NICK bob"], ["USER zed 8 * :Z", "NICK bob"],
                ["CAP REQ :sasl"], ["CAP REQ"], ["CAP REQ :multi-prefix", "NICK zed"], ["CAP REQ :sasl", "NICK zed", "USER zed 8 * :Z"]]
    finishers = [["NICK zed", "USER zed 8 * :Z", "CAP END"], ["PASS secret1", "NICK zed", "USER zed 8 * :Z", "CAP END"],
                 ["PASS topsecret", "USER zed 8 * :Z", "NICK zed", "CAP END"]]
    traces = []
    k = 0
    for cname, cfg in cfgs:
        for pi, pre in enumerate(prefixes):
            probes = ALL_VERB_LINES if res.tier == "thorough" or True else ALL_VERB_LINES
            for li, probe in enumerate(probes):
                if cname == "userdup" and (pi not in (0, 2, 3, 8) or probe not in ("JOIN #a", "WHO *")):
                    continue
                if res.tier == "quick" and (k * 7 + li) % 3 != 0 and probe not in ("JOIN #a", "PRIVMSG bob :hi", "WHO *"):
                    k += 1
                    continue
                k += 1
                t = Trace("c03-%s-%d-%d" % (cname, pi, li), cfg)
                pw = cfg.password
                t.open(0)
                if pw:
                    t.line(0, "PASS " + pw)
                t.line(0, "NICK bob")
                t.line(0, "USER bob 8 * :Bob")
                t.line(0, "JOIN #a")
                t.open(1)
                for p in pre:
                    t.line(1, p)
                t.line(1, probe)
                for f in finishers[(pi + li) % len(finishers)]:
                    t.line(1, f)
                t.line(1, "LUSERS")
                t.meta = {"cfg": cname, "prefix": pre, "probe": probe}
                traces.append(t)
    # "exactly that password": long passwords - a password that agrees with the configured one on its first 72 (64, 80) bytes, a proper
    # prefix, an extension - are wrong passwords (seeded C03-j: the hashing helper looked at the first 72 bytes only)
    P90 = "correct-horse-battery-staple-" * 3 + "tail-0123456789-abcdefghi"
    longcfg = Config(password=P90)
    for k2, pw in enumerate([P90, P90[:72] + "X" * (len(P90) - 72), P90[:80], P90 + "XYZ", P90[:72], P90[:64] + P90[65:] + "q", P90[1:]]):
        t = Trace("c03-longpw-%d" % k2, longcfg)
        t.open(0)
        t.line(0, "PASS " + P90)
        t.line(0, "NICK bob")
        t.line(0, "USER bob 8 * :Bob")
        t.open(1)
        t.line(1, "PASS " + pw)
        t.line(1, "NICK zed")
        t.line(1, "USER zed 8 * :Z")
        t.line(1, "LUSERS")
        t.line(0, "ISON zed")
        t.meta = {"cfg": "longpw", "prefix": ["PASS #%d" % k2], "probe": "-"}
        traces.append(t)
    # registration refused half-way by a nickname collision that only shows at the end
    for cname, cfg in cfgs:
        for li, probe in enumerate(ALL_VERB_LINES):
            if cname == "userdup" and probe != "JOIN #a":
                continue
            if res.tier == "quick" and li % 4 != 0 and probe not in ("JOIN #a", "PRIVMSG bob :hi", "WHO *", "NICK zed", "MODE bob +i"):
                continue
            for order in (0, 1):
                t = Trace("c03-late-%s-%d-%d" % (cname, li, order), cfg)
                pw = cfg.password
                uc = [u for u in cfg.users if u["name"] == "zed"]
                pw1 = (uc[0].get("password") if uc and uc[0].get("password") else None) or pw
                t.open(1)
                if pw1:
                    t.line(1, "PASS " + pw1)
                if order == 0:
                    t.line(1, "NICK zed")
                else:
                    t.line(1, "CAP LS 302")
                    t.line(1, "NICK zed")
                    t.line(1, "USER zed 8 * :Z")
                t.open(0)
                if pw:
                    t.line(0, "PASS " + pw)
                t.line(0, "NICK zed")
                t.line(0, "USER other 8 * :Other")
                t.line(0, "JOIN #a")
                t.line(1, "USER zed 8 * :Z" if order == 0 else "CAP END")
                t.line(1, probe)
                t.line(1, "PRIVMSG #a :spoof")
                t.close(1)
                t.line(0, "ISON zed")
                t.line(0, "NAMES #a")
                t.meta = {"cfg": cname, "prefix": ["late-collision", order], "probe": probe}
                traces.append(t)
    return traces


def c03_oracle(t, steps):
    """the gate on the implementation's own observations"""
    fails = []
    registered = set()
    closed = set()
    prev_dump = None
    srv = t.cfg.name
    for s in sorted(steps, key=lambda s: s["k"]):
        ev = t.events[s["k"]]
        dump = s.get("dump")
        cid = ev[1] if len(ev) > 1 else None
        if ev[0] == "L" and cid not in registered and cid not in closed:
            v = first_verb(ev[2])
            outs = s.get("out") or {}
            if v is not None and v not in SIX:
                mine = outs.get(str(cid), [])
                others = {c: l for c, l in outs.items() if c != str(cid) and l}
                ok_reply = len(mine) == 1 and numeric_of(mine[0]) in ("451", "421", "461", "472", "501", "696", "ERROR")
                if not ok_reply:
                    fails.append(("unregistered connection %d sent %r and was answered %r (expected exactly ERR_NOTREGISTERED or a parse error)" % (cid, ev[2], mine), {"step": s["k"]}))
                if prev_dump is not None and dump != prev_dump:
                    fails.append(("unregistered connection %d sent %r and the server state changed: %s" % (
                        cid, ev[2], irc.diff_dump(prev_dump, dump, "dump")), {"step": s["k"]}))
                if others:
                    fails.append(("unregistered connection %d sent %r and other connections received %r" % (cid, ev[2], others), {"step": s["k"]}))
                if s.get("eof"):
                    fails.append(("unregistered connection %d sent %r and connections %r were closed" % (cid, ev[2], s["eof"]), {"step": s["k"]}))
        for c, ls in (s.get("out") or {}).items():
            for l in ls:
                if l.startswith(":" + srv + " 001 "):
                    registered.add(int(c))
                # "a wrong or missing password closes the connection": whoever is told 464 at the end of a registration attempt
                # is closed in that very step (seeded C03-g: the missing-password case answered 464 and stayed open)
                if l.startswith(":" + srv + " 464 ") and int(c) not in registered and int(c) not in (s.get("eof") or []):
                    fails.append(("connection %s was refused with 464 (password) during registration and is still open" % c, {"step": s["k"]}))
        closed.update(s.get("eof") or [])
        prev_dump = dump
    # password / mask requirement: the probing connection (1) registers as zed only with the right credentials
    cfg = t.cfg
    # the user name connection 1 presented (the probing cases use "zed"; random histories may use any configured user)
    uname = "zed"
    got001_pre = 1 in registered
    k001_pre = min([s["k"] for s in steps for c, ls in (s.get("out") or {}).items() if c == "1" for l in ls if " 001 " in l[:40]] or [len(t.events)])
    for e in t.events[:k001_pre + 1]:
        if e[0] == "L" and e[1] == 1 and isinstance(e[2], str) and e[2].upper().startswith("USER "):
            ws = e[2].split()
            if len(ws) > 1:
                uname = ws[1]
    uc = [u for u in cfg.users if u["name"] == uname]
    need = (uc[0].get("password") if uc and uc[0].get("password") else None) or cfg.password
    mask = uc[0].get("mask") if uc else None
    passes = [e[2].split(" ", 1)[1] for e in t.events if e[0] == "L" and e[1] == 1 and isinstance(e[2], str) and e[2].upper().startswith("PASS ")]
    got001 = 1 in registered
    if got001 and need is not None:
        # the password in force when registration completed is the last PASS before the 001 step
        k001 = min(s["k"] for s in steps for c, ls in (s.get("out") or {}).items() if c == "1" for l in ls if " 001 " in l[:40])
        last = None
        for idx, e in enumerate(t.events[:k001 + 1]):
            if e[0] == "L" and e[1] == 1 and isinstance(e[2], str) and e[2].upper().startswith("PASS "):
                last = e[2].split(" ", 1)[1]
        if last != need:
            fails.append(("connection 1 completed registration with password %r while %r is required" % (last, need), {"step": k001}))
    if got001:
        # an opened capability negotiation (CAP LS / CAP REQ, accepted or not) must have been ended before the welcome
        k001 = min(s["k"] for s in steps for c, ls in (s.get("out") or {}).items() if c == "1" for l in ls if " 001 " in l[:40])
        opened = False
        for e in t.events[:k001 + 1]:
            if e[0] == "L" and e[1] == 1 and isinstance(e[2], str):
                w = e[2].upper().split()
                if len(w) >= 2 and w[0] == "CAP" and w[1] in ("LS", "REQ"):
                    opened = True
                elif len(w) >= 2 and w[0] == "CAP" and w[1] == "END":
                    opened = False
        if opened:
            fails.append(("connection 1 completed registration while the capability negotiation it opened was not ended (no CAP END)", {"step": k001}))
    if got001 and mask == "zed!*@10.*":
        nick_at_reg = [d for s in steps for d in [s.get("dump")] if d]
        fails.append(("connection 1 registered although the configured user mask %r cannot match a loopback client" % mask, {}))
    return fails


def check_C03(res):
    traces = c03_cases(res)
    prof = {"weights": dict(REG=8, BAD=4, NICK=5, JOIN=4, PRIVMSG=4), "p_server_password": 0.5, "p_users": 0.7,
            "initial_conns": 1, "max_conns": 5}
    rng = random.Random(res.seed + 3)
    extra = 40 if res.tier == "quick" else 600
    r = l2_campaign(res, "C03", extra, 30, prof, traces=traces, oracle=c03_oracle)
    distinct = len(set((t.meta.get("cfg"), tuple(t.meta.get("prefix", [])), t.meta.get("probe")) for t in traces))
    res.coverage.update({
        "evaluations": r["steps"], "distinct_nontrivial": distinct,
        "rule": "finite sweep: 5 configurations (no password / server password / configured user with password / with non-matching mask / with "
                "matching mask and both passwords) x 16 registration-progress prefixes (incl. a refused / bare / accepted CAP REQ as the first CAP command) x %d probe lines (every verb, malformed and unknown lines); "
                "quick tier runs a fixed third of the cells plus the cells JOIN/PRIVMSG/WHO; each trace then finishes registration in one of 3 orders; "
                "distinct = distinct (config, prefix, probe) cells; plus %d random registration-heavy traces" % (len(ALL_VERB_LINES), extra),
        "exhaustive": res.tier == "thorough",
        "traces_validated_against_impl": r["traces"],
        "samples": [traces[i].describe() for i in (0, len(traces) // 2)],
        "l2": r["summary"]})
    res.coverage["rule"] += '; plus a configuration with several configured users in which one user name is defined twice before the probed one (each configured user is held to its own password)'
    res.assumptions = ["argon2 verification is a parameter (verify) of the model; the driver instantiates it with the table of hashes computed by the real argon2_hash_password"]


# ====================================================================== python-side spec helpers
def py_glob(p, t):
    """textbook glob ('*' any run, '?' one character), iterative with backtracking"""
    pi = ti = 0
    star = -1
    mark = 0
    while ti < len(t):
        if pi < len(p) and p[pi] == "*":
            star, mark = pi, ti
            pi += 1
        elif pi < len(p) and (p[pi] == "?" or p[pi] == t[ti]):
            pi += 1
            ti += 1
        elif star >= 0:
            pi = star + 1
            mark += 1
            ti = mark
        else:
            return False
    while pi < len(p) and p[pi] == "*":
        pi += 1
    return pi == len(p)


def py_banned(ch, source):
    return any(py_glob(b, source) for b in ch["ban"]) and not any(py_glob(e, source) for e in ch["exception"])


def py_target_type(target):
    """get_privmsg_target_type as specified: leading status prefixes, then the channel name"""
    flags = set()
    i = 0
    n = len(target)
    amp = 0
    last_amp = False
    while i < n:
        c = target[i]
        if c in "~@%+":
            flags.add(c)
        elif c == "&":
            flags.add("&")
        elif c == "#":
            return (flags, target[i:]) if i + 1 < n else (None, "")
        else:
            if last_amp:
                if amp < 2:
                    flags.discard("&")
                return (flags, target[i - 1:])
            return (None, "")
        if c == "&":
            if i + 1 < n:
                last_amp = True
                amp += 1
            else:
                return (None, "")
        else:
            last_amp = False
        i += 1
    return (flags, "")


class ConnMap:
    """which nickname each connection is registered under, read off the wire"""

    def __init__(self, srv):
        self.srv = srv
        self.nick = {}

    def update(self, step):
        for c, ls in (step.get("out") or {}).items():
            c = int(c)
            for l in ls:
                if l.startswith(":" + self.srv + " 001 "):
                    self.nick[c] = l.split(" ")[2]
                else:
                    # (a nickname may itself contain '!' and '@': match against the nick the connection is known to hold)
                    cur = self.nick.get(c)
                    if cur is not None and l.startswith(":" + cur + "!"):
                        m = re.match(r"^\S* (?i:NICK) :?(\S+)", l[len(cur) + 2:])
                        if m:
                            self.nick[c] = m.group(1)
        for c in step.get("eof") or []:
            self.nick.pop(c, None)

    def conn_of(self, nick):
        for c, n in self.nick.items():
            if n == nick:
                return c
        return None


RANKSET = {"~": "founders", "&": "protecteds", "@": "operators", "%": "half_operators", "+": "voices"}


def msg_expected(dump, actor, verb, targets, text):
    """deliveries and replies the property prescribes, computed from the implementation's own pre-state"""
    users, chans = dump["users"], dump["channels"]
    src = users[actor]["source"]
    deliveries = collections.Counter()   # (nick, line)
    replies = []                          # numerics for the sender
    seen = set()
    for tg in targets:
        if tg in seen:
            continue
        seen.add(tg)
        line = ":%s %s %s :%s" % (src, verb, tg, text)
        flags, chname = py_target_type(tg)
        if flags is not None:
            ch = chans.get(chname)
            if ch is None:
                replies.append("403")
                continue
            member = actor in ch["users"]
            ok = (member or ("n" not in ch["flags"] and "s" not in ch["flags"])) and not py_banned(ch, src) and \
                 ("m" not in ch["flags"] or (member and ch["users"][actor] != ""))
            if not ok:
                replies.append("404")
                continue
            if flags:
                aud = set()
                # the members HOLDING the addressed status (their own rank flags, not the server's rank lists)
                letter = {"~": "q", "&": "a", "@": "o", "%": "h", "+": "v"}
                for f in flags:
                    aud |= set(n for n, fl in ch["users"].items() if letter[f] in fl)
            else:
                aud = set(ch["users"])
            for n in aud:
                if n != actor:
                    deliveries[(n, line)] += 1
        else:
            if tg in users:
                deliveries[(tg, line)] += 1
                if users[tg]["away"] is not None:
                    replies.append("301")
            else:
                replies.append("401")
    return deliveries, replies


def msg_oracle(t, steps):
    """C01 / C10 on the implementation: deliveries and sender replies of every PRIVMSG/NOTICE step"""
    fails = []
    cm = ConnMap(t.cfg.name)
    prev = None
    for s in sorted(steps, key=lambda s: s["k"]):
        ev = t.events[s["k"]]
        if ev[0] == "L" and isinstance(ev[2], str) and prev is not None and not s.get("panics"):
            m = re.match(r"^(PRIVMSG|NOTICE) (\S+) :(.*)$", ev[2])
            actor = cm.nick.get(ev[1])
            if m and actor in prev["users"] and "\t" not in ev[2] and "\r" not in ev[2]:
                verb, tl, text = m.group(1), m.group(2).split(","), m.group(3)
                valid = all(x != "" and ":" not in x for x in tl)
                if valid:
                    exp, replies = msg_expected(prev, actor, verb, tl, text)
                    got = collections.Counter()
                    for c, ls in (s.get("out") or {}).items():
                        for l in ls:
                            if re.match(r"^:\S+ (PRIVMSG|NOTICE) ", l):
                                got[(cm.nick.get(int(c)), l)] += 1
                    mine = [numeric_of(l) for l in (s.get("out") or {}).get(str(ev[1]), []) if l.startswith(":" + t.cfg.name + " ")]
                    # a syntactically refused command (bad target) answers ERROR and delivers nothing
                    if mine and mine[0] == "ERROR":
                        if got:
                            fails.append(("refused %s still delivered %r" % (verb, dict(got)), {"step": s["k"]}))
                        # targets of plainly well-formed shape (status prefixes, '#' or '&', then letters, digits, dots, dashes; or a
                        # plain nickname) are not a syntax error - for NOTICE no more than for PRIVMSG (seeded C10-i)
                        if all(re.match(r"^(?:[~&@%+]*[#&][A-Za-z0-9._é-]+|[A-Za-z][A-Za-z0-9_-]*)$", x) for x in tl):
                            fails.append(("%s to the well-formed target(s) %r is refused as malformed: %r" % (verb, tl, (s.get("out") or {}).get(str(ev[1]), [])[:1]), {"step": s["k"]}))
                    else:
                        if got != exp:
                            fails.append(("%s by %s: delivered %r, the audience rule gives %r" % (
                                ev[2], actor, sorted((k, v) for k, v in got.items()), sorted((k, v) for k, v in exp.items())), {"step": s["k"]}))
                        if verb == "NOTICE" and mine:
                            fails.append(("NOTICE was answered with %r" % mine, {"step": s["k"]}))
                        if verb == "PRIVMSG" and sorted(mine) != sorted(replies):
                            fails.append(("%s by %s: sender got %r, expected %r" % (ev[2], actor, sorted(mine), sorted(replies)), {"step": s["k"]}))
        # the constraints a sender is judged by (flags, key, limit, ban / exception / invite-exception lists) of a channel
        # that outlives the step change only in a step that announces a MODE for that channel: a refused or unrelated
        # command that silently alters them lifts or imposes a speaking restriction nobody was told about (seeded C10-c)
        after = s.get("dump")
        if prev is not None and after is not None and not s.get("panics"):
            for chn, cha in after["channels"].items():
                chp = prev["channels"].get(chn)
                if chp is None:
                    continue
                changed = [f for f in ("flags", "key", "limit", "ban", "exception", "invex") if chp.get(f) != cha.get(f)]
                if changed and not any(re.match(r"^:\S+ MODE %s " % re.escape(chn), l) for ls in (s.get("out") or {}).values() for l in ls):
                    fails.append(("%r changed %s of %s (%r -> %r) without any announced MODE: the restrictions in force are no longer the ones set" % (
                        ev[2] if ev[0] == "L" else ev, changed, chn, {f: chp.get(f) for f in changed}, {f: cha.get(f) for f in changed}), {"step": s["k"]}))
        cm.update(s)
        prev = s.get("dump")
    return fails


def msg_profile():
    return {"weights": dict(PRIVMSG=22, NOTICE=10, JOIN=12, PART=4, KICK=4, NICK=5, MODE=10, AWAY=3, QUIT=1.2, MISC=0.2,
                            WHO=0.3, WHOIS=0.3, LIST=0.2, WHOWAS=0.2, LUSERS=0.2, BAD=1, REG=1.5),
            "p_close": 0.04, "max_conns": 6, "initial_conns": 3}


def msg_sweep(res):
    """every subset of status prefixes against members holding every combination of ranks, on n/s/m/ban settings"""
    traces = []
    rng = random.Random(res.seed + 11)
    prefixes = ["".join(p) for k in range(0, 6) for p in itertools.combinations("~&@%+", k)]
    for fi, fl in enumerate(["", "n", "s", "m", "nm", "ns"]):
        for banned in (False, True):
            # quick tier: half of the 12 settings, alternating so that banned and unbanned channels both occur
            if res.tier == "quick" and ((fi + int(banned) + res.seed) % 2 == 1) and fl != "":
                continue
            cfg = Config(channels=[dict(name="#r", flags=fl, founders=["alice"], protecteds=["alice", "bob"], operators=["bob", "carol"],
                                        half_operators=["carol", "dave"], voices=["dave", "alice"],
                                        ban=(["éva!*@*", "x!*@*", "y*!*@*"] if banned else None), exception=(["nobody!*@*", "x!*@127.*"] if banned else None))])
            t = Trace("msg-%s-%d" % (fl or "none", banned), cfg)
            for c, n in enumerate(["alice", "bob", "carol", "dave", "éva", "x", "yan", "frank"]):
                t.register(c, n)
                if n not in ("x", "yan"):
                    t.line(c, "JOIN #r")
            # registration commands repeated by registered members (refused with 462) change neither identity nor what the masks see
            t.line(7, "USER zed 8 * :Somebody else")
            t.line(3, "USER x 8 * :x")
            t.line(0, "PASS whatever")
            if banned:
                t.line(0, "MODE #r +b *!~frank@*")     # banned by user name
                t.line(0, "MODE #r +b frank!*@*")      # a member banned after joining stays on the channel and is silenced
            # refused edits of the mask lists (plain member, outsider, unregistered nick) leave the lists as they are
            for l in (["MODE #r +b q!*@*", "MODE #r -b éva!*@*", "MODE #r +e éva!*@*", "MODE #r -e x!*@127.*", "MODE #r b"] if banned else ["MODE #r +b alice!*@*"]):
                t.line(4, l)
                t.line(7, l)
            t.line(6, "MODE #r -b x!*@*")
            if "m" in fl:
                # a member listed for voice AND a higher rank keeps its voice when the higher rank is taken away
                t.line(0, "MODE #r -h dave")
                t.line(3, "PRIVMSG #r :dave, voiced by configuration, after -h")
                t.line(0, "MODE #r +h dave")
            for sender in (0, 3, 4, 5, 6, 7):
                for pf in prefixes:
                    t.line(sender, "PRIVMSG %s#r :to %s" % (pf, pf or "all"))
                t.line(sender, "NOTICE @%#r,#r,alice,@%#r :dup")
            t.meta = {"flags": fl, "banned": banned}
            traces.append(t)
    # status-prefixed targets after the rank holders changed their nicks (and strangers took the old ones)
    for variant in range(2 if res.tier == "quick" else 6):
        cfg = Config(channels=[dict(name="#r", flags="", founders=["alice"], protecteds=["bob"], operators=["carol"], half_operators=["dave"], voices=["erin", "carol"])])
        t = Trace("msg-rename-%d" % variant, cfg)
        names = ["alice", "bob", "carol", "dave", "erin", "frank"]
        for c, n in enumerate(names):
            t.register(c, n)
            t.line(c, "JOIN #r")
        order = list(range(5))
        rng.shuffle(order)
        for c in order:
            t.line(c, "NICK %s2" % names[c])
        # strangers take the freed nicks and stay outside
        for k2, c in enumerate(order[:3]):
            t.register(6 + k2, names[c])
        for pf in ["+", "%", "@", "&", "~", "+%", "@+", "~&@%+"]:
            t.line(5, "PRIVMSG %s#r :to %s after the renames" % (pf, pf))
            t.line(order[0], "NOTICE %s#r :from a renamed member to %s" % (pf, pf))
        t.meta = {"renamed": [names[c] for c in order]}
        traces.append(t)
    return traces


def msg_leave_traces():
    """members holding several ranks leave (PART, KICK, QUIT, close) a channel that survives, and come back as plain members;
    then every status-prefixed target is used (seeded C01-g: the leaver stays in the lists of its lower ranks)"""
    out = []
    for k, how in enumerate(["PART", "KICK", "QUIT", "CLOSE"]):
        t = Trace("msg-leave-%s" % how, Config())
        for c, n in enumerate(["alice", "bob", "carol", "dave"]):
            t.register(c, n)
        for c in range(4):
            t.line(c, "JOIN #r")
        t.line(0, "MODE #r +ov bob bob")
        t.line(0, "MODE #r +hv carol carol")
        t.line(0, "MODE #r +av alice alice")
        if how == "PART":
            t.line(1, "PART #r")
            t.line(0, "PART #r")
        elif how == "KICK":
            t.line(0, "KICK #r bob")
            t.line(2, "KICK #r carol")
        elif how == "QUIT":
            t.line(1, "QUIT")
        else:
            t.close(1)
        for pf in ["+", "%", "@", "&", "~", "@+", "~&@%+", ""]:
            t.line(3, "PRIVMSG %s#r :to %s after the departure" % (pf, pf))
        if how in ("PART", "KICK"):
            t.line(1, "JOIN #r")
            for pf in ["+", "@", "~&@%+"]:
                t.line(3, "NOTICE %s#r :to %s after the return" % (pf, pf))
        t.meta = {"leave": how}
        out.append(t)
    # members ask every kind of question (counts beyond what is stored, lists, masks) and then the channel is spoken to: a
    # question never costs anybody a copy (seeded C01-h: a query handler that aborts leaves a ghost member behind)
    t = Trace("msg-after-queries", Config())
    for c, n in enumerate(["alice", "bob", "carol", "dave", "erin"]):
        t.register(c, n)
    for c in range(5):
        t.line(c, "JOIN #r,#s")
    t.line(3, "NICK dave2")
    t.line(3, "NICK dave")
    qs = ["WHOWAS dave2 5", "WHOWAS dave2", "WHOWAS dave2 0", "WHOWAS dave2 1", "WHOWAS nobody 3", "WHOWAS dave2 99999999999999999999", "ISON nobody alice zz bob",
          "USERHOST alice nobody bob", "LIST #r,#none,#s", "NAMES #r,#none", "WHO #r", "WHO *a*", "WHOIS alice,nobody,bob", "WHOIS *", "LUSERS", "TIME", "VERSION",
          "ADMIN", "INFO", "MOTD", "LINKS", "HELP", "HELP nothing", "STATS u", "MODE #r", "MODE #r +b", "TOPIC #r"]
    for k, q in enumerate(qs):
        t.line(1 + k % 4, q)
    for sender in (0, 4):
        t.line(sender, "PRIVMSG #r,#s,bob :after the questions")
        t.line(sender, "NOTICE @#r,+#s :to the ranks")
    t.meta = {"leave": "queries"}
    out.append(t)
    return out


def check_C01(res):
    sweep = msg_sweep(res)
    n = 150 if res.tier == "quick" else 2500
    # the audience of a status-prefixed target is read from the channel's rank lists: they must mirror the members' flags after every step
    extra = []
    for k2, line in enumerate(["JOIN #old,#old,#fresh", "JOIN #old,#fresh,#old,#fresh2"]):
        t = Trace("c01-join-repeat-%d" % k2, Config())
        for c, nk in enumerate(["alice", "bob", "carol", "dave"]):
            t.register(c, nk)
        t.line(0, "JOIN #old")
        t.line(1, "JOIN #old")
        t.line(0, "MODE #old +n")
        t.line(2, line)
        t.line(0, "PRIVMSG #old :from the founder")
        t.line(2, "PRIVMSG #old,#fresh :from the joiner")
        t.line(1, "NOTICE #old :from a member")
        t.line(3, "PRIVMSG #old :from outside (+n)")
        extra.append(t)
    # the audience is the channel's membership: who may be in it is decided by JOIN's rule
    r = l2_campaign(res, "C01", n, 45, msg_profile(), traces=sweep + msg_leave_traces() + extra, oracle=lambda t, st: msg_oracle(t, st) + inv_oracle(t, st) + join_oracle(t, st))
    res.coverage.update({
        "evaluations": r["steps"], "distinct_nontrivial": msg_distinct(r),
        "rule": "sweep: all 32 status-prefix subsets x 4 senders (founder+voice, half-op+voice, plain member, outsider with ban exception) on a preconfigured channel whose "
                "five rank lists overlap, x channel flags {none,n,s,m,nm,ns} x banned/not; plus %d seeded random histories (membership churn, nick changes, kicks, modes, disconnects) "
                "with PRIVMSG/NOTICE to mixed target lists; distinct = distinct (verb, target shape, outcome) of message steps; every message step is checked impl vs model AND against the "
                "audience rule evaluated on the implementation's own pre-state dump" % n,
        "traces_validated_against_impl": r["traces"],
        "samples": [sweep[0].describe()["events"][20:26], r["trace_objs"][-1].describe()["events"][:12]],
        "l2": r["summary"]})
    res.coverage["rule"] += '; plus JOIN lists that repeat a name before a fresh one followed by messages to the old channel, under the admission oracle'
    res.assumptions = ["per-step drain of every queue (FIFO marker) makes deliveries of one command observable as one multiset per connection; drain order is C18's subject"]


def msg_distinct(r):
    shapes = set()
    for t in r["trace_objs"]:
        si = r["impl"].get(t.id) or []
        byk = {s["k"]: s for s in si}
        for k, e in enumerate(t.events):
            if e[0] == "L" and isinstance(e[2], str):
                m = re.match(r"^(PRIVMSG|NOTICE) (\S+) ", e[2])
                if m and k in byk:
                    shape = tuple(sorted(re.sub(r"[a-zA-Zé]+", "w", x) for x in m.group(2).split(",")))
                    outc = tuple(sorted(set(numeric_of(l) or "" for ls in (byk[k].get("out") or {}).values() for l in ls)))
                    shapes.add((m.group(1), shape, outc))
    return len(shapes)


def check_C10(res):
    sweep = msg_sweep(res)
    n = 120 if res.tier == "quick" else 2000
    prof = msg_profile()
    prof["weights"].update(MODE=16, AWAY=6)
    # the rank that lets a member speak on +m is the one the channel's configuration gives it at JOIN (all listed ranks)
    # "that user's away text": the text of the LAST AWAY it sent - replaced while away, cleared and set again, kept over a nick change
    # (seeded C10-h: a second AWAY :text of a user who is already away was acknowledged but not stored)
    for k2 in range(2):
        t = Trace("c10-away-replaced-%d" % k2, Config())
        t.register(0, "alice")
        t.register(1, "bob")
        t.register(2, "carol")
        t.line(1, "AWAY :first text")
        t.line(0, "PRIVMSG bob :are you there")
        t.line(1, "AWAY :second text, sent while away")
        t.line(0, "PRIVMSG bob :and now")
        t.line(2, "PRIVMSG bob,alice :both")
        t.line(0, "NOTICE bob :a notice is never answered")
        if k2:
            t.line(1, "NICK robert")
            t.line(0, "PRIVMSG robert :renamed")
            t.line(1, "AWAY :third")
            t.line(0, "PRIVMSG robert :third?")
        t.line(1, "AWAY")
        t.line(0, "PRIVMSG %s :back" % ("robert" if k2 else "bob"))
        t.line(1, "AWAY :again")
        t.line(1, "AWAY :and again")
        t.line(2, "PRIVMSG %s :last" % ("robert" if k2 else "bob"))
        t.line(2, "WHOIS %s" % ("robert" if k2 else "bob"))
        sweep.append(t)
    # "a NOTICE is never answered whatever its target": status-prefixed targets whose channel name has a dot, a non-ASCII letter, is a
    # local channel, does not exist (seeded C10-i: NOTICE validated prefixed targets with the plain-channel rule)
    t = Trace("c10-prefixed-targets", Config())
    for c, nk in enumerate(["alice", "bob", "carol"]):
        t.register(c, nk)
    for chn in ("#dev.ops", "&loc.al", "#café"):
        t.line(0, "JOIN " + chn)
        t.line(1, "JOIN " + chn)
        t.line(0, "MODE %s +v bob" % chn)
    for verb in ("NOTICE", "PRIVMSG"):
        for tg in ("@#dev.ops", "+#dev.ops", "@+#dev.ops", "@&loc.al", "+#café", "@#no.such", "#dev.ops,@#dev.ops", "@#dev.ops,bob,+&loc.al", "%#dev.ops", "~&#dev.ops"):
            t.line(1, "%s %s :to %s" % (verb, tg, tg))
            t.line(2, "%s %s :outsider to %s" % (verb, tg, tg))
    sweep.append(t)
    r = l2_campaign(res, "C10", n, 45, prof, traces=sweep, oracle=lambda t, st: msg_oracle(t, st) + cfg_rank_oracle(t, st) + relay_oracle(t, st))
    res.coverage.update({
        "evaluations": r["steps"], "distinct_nontrivial": msg_distinct(r),
        "rule": "same sweep as C01 (flags {none,n,s,m,nm,ns} x banned/excepted x every rank combination x PRIVMSG and NOTICE) plus %d seeded random histories weighted to MODE "
                "(+n/+s/+m/+b/+e/rank changes) and AWAY; distinct = distinct (verb, target shape, outcome); each message step is compared impl vs model and against the speaking rule "
                "(member or open channel, not banned unless excepted, voice on +m) evaluated on the implementation's own pre-state, incl. NOTICE silence and 301" % n,
        "traces_validated_against_impl": r["traces"],
        "samples": [sweep[-1].describe()["events"][20:26]],
        "l2": r["summary"]})
    res.coverage["rule"] += "; plus AWAY texts replaced while away / cleared / kept over a nick change with the history-based 301 clause, and status-prefixed targets whose channel name has a dot, is local or non-ASCII ('well-formed targets are not a syntax error, for NOTICE no more than for PRIVMSG')"


# ====================================================================== C07 / C16
def join_oracle(t, steps):
    """JOIN admission on the implementation: decision from its own pre-state, effect, announcement"""
    fails = []
    cm = ConnMap(t.cfg.name)
    prev = None
    srv = t.cfg.name
    for s in sorted(steps, key=lambda s: s["k"]):
        ev = t.events[s["k"]]
        if ev[0] == "L" and isinstance(ev[2], str) and prev is not None and not s.get("panics"):
            m = re.match(r"^JOIN (\S+)(?: (\S+))?$", ev[2])
            actor = cm.nick.get(ev[1])
            if m and actor in prev["users"]:
                chs = m.group(1).split(",")
                keys = m.group(2).split(",") if m.group(2) else None
                valid = all(c and c[0] in "#&" and ":" not in c for c in chs) and (keys is None or len(keys) == len(chs))
                mine = (s.get("out") or {}).get(str(ev[1]), [])
                if valid and not (mine and numeric_of(mine[0]) == "ERROR"):
                    u = prev["users"][actor]
                    src = u["source"]
                    jc = len(u["channels"])
                    accepted = []
                    exp_num = []
                    for idx, c in enumerate(chs):
                        if c in accepted:
                            continue
                        ch = prev["channels"].get(c)
                        ok = True
                        if ch is not None:
                            if ch["key"] is not None and (keys is None or keys[idx] != ch["key"]):
                                ok = False
                                exp_num.append("475")
                            elif py_banned(ch, src):
                                ok = False
                                exp_num.append("474")
                            elif "i" in ch["flags"] and c not in u["invited"] and not any(py_glob(e, src) for e in ch["invex"]):
                                ok = False
                                exp_num.append("473")
                            elif ch["limit"] is not None and len(ch["users"]) >= ch["limit"]:
                                ok = False
                                exp_num.append("471")
                            elif actor in ch["users"]:
                                ok = False
                        mj = t.cfg.max_joins
                        if mj is not None and jc >= mj:
                            exp_num.append("405")
                            ok = False
                        if ok:
                            accepted.append(c)
                            jc += 1
                    after = s["dump"]
                    for c in set(chs):
                        was = actor in (prev["channels"].get(c) or {"users": {}})["users"]
                        now = actor in (after["channels"].get(c) or {"users": {}})["users"]
                        should = was or c in accepted
                        if now != should:
                            fails.append(("JOIN %s by %s: membership of %s is %s, the admission rule gives %s" % (ev[2], actor, c, now, should), {"step": s["k"]}))
                        if c in accepted and c in after["users"].get(actor, {}).get("invited", []):
                            fails.append(("JOIN %s: the invitation to %s was not used up" % (ev[2], c), {"step": s["k"]}))
                    got_num = sorted(n for n in (numeric_of(l) for l in mine) if n in ("471", "473", "474", "475", "405"))
                    if got_num != sorted(exp_num):
                        fails.append(("JOIN %s by %s: answered %r, the rule gives %r" % (ev[2], actor, got_num, sorted(exp_num)), {"step": s["k"]}))
                    if not accepted:
                        d = irc.diff_dump(prev, after, "dump")
                        if d:
                            fails.append(("refused JOIN %s changed the state: %s" % (ev[2], d), {"step": s["k"]}))
                        others = {c: l for c, l in (s.get("out") or {}).items() if c != str(ev[1]) and l}
                        if others:
                            fails.append(("refused JOIN %s was announced: %r" % (ev[2], others), {"step": s["k"]}))
                    for c in accepted:
                        line = ":%s JOIN %s" % (src, c)
                        members_after = set(after["channels"][c]["users"]) if c in after["channels"] else set()
                        for mem in members_after:
                            cid = cm.conn_of(mem) if mem != actor else ev[1]
                            cnt = (s.get("out") or {}).get(str(cid), []).count(line)
                            if cnt != 1:
                                fails.append(("JOIN %s: member %s saw the announcement %d times" % (c, mem, cnt), {"step": s["k"]}))
                        if c not in prev["channels"]:
                            co = after["channels"].get(c)
                            if co is None or co["users"] != {actor: "qo"} or co["flags"] or co["key"] or co["limit"] is not None or co["topic"] or co["ban"]:
                                fails.append(("JOIN created %s as %r, expected a fresh channel with the joiner as founder+operator" % (c, co), {"step": s["k"]}))
        cm.update(s)
        prev = s.get("dump")
    return fails


def c07_sweep(res):
    traces = []
    k = 0
    for keymode in ("nokey", "right", "wrong", "missing"):
        for bits in range(64):
            banned, excepted, ionly, invited, invex, full = [(bits >> b) & 1 for b in range(6)]
            for quota_at in (0, 1):
                k += 1
                if res.tier == "quick" and not pick(res, k, 4):
                    continue
                cfg = Config(max_joins=1 if quota_at else 3,
                             channels=[dict(name="#c", operators=["alice"], topic="T")])
                t = Trace("c07-%s-%d-%d" % (keymode, bits, quota_at), cfg)
                t.register(0, "alice")
                t.register(1, "joe")
                t.line(0, "JOIN #c")
                if quota_at:
                    t.line(1, "JOIN #other")
                if keymode != "nokey":
                    t.line(0, "MODE #c +k k1")
                if banned:
                    t.line(0, "MODE #c +b joe!*@*")
                if excepted:
                    t.line(0, "MODE #c +e *!*@127.*")
                if ionly:
                    t.line(0, "MODE #c +i")
                if invex:
                    t.line(0, "MODE #c +I j?e")
                if invited:
                    t.line(0, "INVITE joe #c")
                if full:
                    t.line(0, "MODE #c +l 1")
                t.line(1, "JOIN #c" + {"nokey": "", "right": " k1", "wrong": " kX", "missing": ""}[keymode])
                t.line(0, "NAMES #c")
                t.line(1, "JOIN #c" + {"nokey": "", "right": " k1", "wrong": " k1", "missing": " k1"}[keymode])
                t.meta = {"cell": [keymode, banned, excepted, ionly, invited, invex, full, quota_at]}
                traces.append(t)
    # mask LISTS: several masks per list with the joiner matching none / the first / the last / one in the middle,
    # and lists that were populated and emptied again (a list is "any mask matches"; an emptied list matches nobody)
    for which in range(8):
        cfg = Config(channels=[dict(name="#c", operators=["alice"], topic="T")])
        t = Trace("c07-lists-%d" % which, cfg)
        t.register(0, "alice")
        t.register(2, "joe")
        t.register(3, "jim")
        t.line(0, "JOIN #c")
        bans = [["joe!*@*", "zed!*@*"], ["zed!*@*", "j*!*@*"], ["a!*@*", "b!*@*", "joe!*@*"], ["zed!*@*", "zz!*@*"]][which % 4]
        exc = [["*!*@10.*", "joe!*@127.*"], ["jim!*@*", "nobody!*@*"], ["joe!*@*", "jim!*@*", "*!*@10.*"], ["q!*@*", "r!*@*"]][(which // 2) % 4]
        for b in bans:
            t.line(0, "MODE #c +b " + b)
        for e in exc:
            t.line(0, "MODE #c +e " + e)
        t.line(2, "JOIN #c")
        t.line(3, "JOIN #c")
        t.line(2, "PART #c")
        t.line(3, "PART #c")
        # empty the exception list again: the bans alone decide
        for e in exc:
            t.line(0, "MODE #c -e " + e)
        t.line(2, "JOIN #c")
        t.line(3, "JOIN #c")
        t.line(2, "PART #c")
        t.line(3, "PART #c")
        # invite-only with a two-mask invite-exception list, then emptied
        t.line(0, "MODE #c +i")
        inv = [["zed!*@*", "joe!*@*"], ["jim!*@*", "zed!*@*"]][which % 2]
        for m in inv:
            t.line(0, "MODE #c +I " + m)
        for b in bans:
            t.line(0, "MODE #c -b " + b)
        t.line(2, "JOIN #c")
        t.line(3, "JOIN #c")
        t.line(2, "PART #c")
        t.line(3, "PART #c")
        for m in inv:
            t.line(0, "MODE #c -I " + m)
        t.line(2, "JOIN #c")
        t.line(3, "JOIN #c")
        t.line(0, "NAMES #c")
        t.meta = {"cell": ["lists", which]}
        traces.append(t)
    # the masks judge the joiner's CURRENT nick!user@host: renamed into / out of a ban mask, an exception mask, an invite-exception mask
    for k2, (old_n, new_n) in enumerate([("good1", "evil1"), ("evil2", "nice2"), ("stranger3", "friend3"), ("friend4", "other4")]):
        cfg = Config(channels=[dict(name="#ban", flags="", ban=["evil*!*@*"], exception=["evil9*!*@*"]),
                               dict(name="#inv", flags="i", invex=["friend*!*@*"])])
        t = Trace("c07-renamed-%d" % k2, cfg)
        t.register(0, "alice")
        t.register(1, old_n)
        t.line(0, "JOIN #ban,#inv")
        t.line(1, "NICK " + new_n)
        t.line(1, "JOIN #ban")
        t.line(1, "JOIN #inv")
        t.line(1, "PART #ban,#inv")
        t.line(1, "NICK evil95")
        t.line(1, "JOIN #ban")
        t.line(1, "NICK " + old_n)
        t.line(1, "JOIN #ban,#inv")
        t.line(0, "NAMES")
        t.meta = {"cell": ["renamed", k2]}
        traces.append(t)
    return traces


def join_profile():
    return {"weights": dict(JOIN=26, PART=8, MODE=14, INVITE=8, KICK=4, NICK=3, PRIVMSG=2, QUIT=1, MISC=0.2, BAD=1,
                            WHO=0.3, WHOIS=0.3, LIST=0.5, NAMES=2),
            "max_joins": [None, 1, 2, 3], "max_conns": 6, "initial_conns": 3}


def check_C07(res):
    sweep = c07_sweep(res) + invite_life_traces()
    # "the key at its own position": lists of keyed channels with the keys swapped, shifted by a keyless channel, missing at the end,
    # empty in the middle (seeded C07-i: a key was accepted from any position of the list)
    for k2, line in enumerate(["JOIN #alpha,#beta keybeta,keyalpha", "JOIN #open,#alpha keyalpha,wrong", "JOIN #beta,#fresh ,keybeta",
                               "JOIN #alpha,#beta keyalpha", "JOIN #alpha,#open,#beta keyalpha,x,keybeta", "JOIN #beta,#alpha keyalpha,keyalpha"]):
        t = Trace("c07-key-position-%d" % k2, Config())
        for c, nk in enumerate(["alice", "bob"]):
            t.register(c, nk)
        t.line(0, "JOIN #alpha,#beta,#open")
        t.line(0, "MODE #alpha +k keyalpha")
        t.line(0, "MODE #beta +k keybeta")
        t.line(1, line)
        t.line(0, "NAMES #alpha")
        t.line(0, "NAMES #beta")
        t.line(1, "JOIN #alpha,#beta keyalpha,keybeta")
        sweep.append(t)
    n = 100 if res.tier == "quick" else 2000
    r = l2_campaign(res, "C07", n, 45, join_profile(), traces=sweep, oracle=lambda t, st: join_oracle(t, st) + inv_oracle(t, st))
    res.coverage.update({
        "evaluations": r["steps"], "distinct_nontrivial": len(set(tuple(t.meta.get("cell") or (t.id,)) for t in sweep)),
        "rule": "ten invitation-lifetime histories (an invitation outliving its channel, used on a channel the invitee re-creates, twice, after KICK / PART; ordinary and configured channels); sweep over the admission table: key {unset, right, wrong, missing} x banned x excepted x +i x invited x invite-exception x full x quota reached = 512 cells, each set up "
                "through real MODE/INVITE commands on a preconfigured channel and probed with two JOINs (quick tier: a seed-selected quarter = 128 cells; thorough: all); distinct = cells run; plus %d "
                "seeded random histories with comma lists and per-channel keys; every JOIN step is compared impl vs model and against the admission rule evaluated on the implementation's own pre-state" % n,
        "exhaustive": res.tier == "thorough",
        "traces_validated_against_impl": r["traces"],
        "samples": [sweep[3].describe()["events"][8:], sweep[-1].meta],
        "l2": r["summary"]})
    res.coverage["rule"] += "; plus lists of keyed channels with the keys swapped, shifted, missing or empty at a position ('the key at its own position')"


def c16_traces(res):
    rng = random.Random(res.seed + 16)
    traces = []
    exits = ["PART", "KICKSELF", "QUIT", "CLOSE", "KILL", "KICKED"]
    k = 0
    for pre, swap in ((False, False), (True, False), (False, True), (True, True)):
        for e1 in exits:
            for e2 in exits:
                if swap and e2 not in ("KICKSELF", "PART", "CLOSE"):
                    continue
                k += 1
                cfg = Config(operators=[dict(name="admin", password="operpass")],
                             channels=[dict(name="#pre", topic="Pre", flags="nt", key="k1", limit=5, ban=["x!*@*"],
                                            voices=["bob"], founders=["alice"])] if pre else [])
                ch = "#pre" if pre else "#life"
                key = " k1" if pre else ""
                t = Trace("c16-%d%d-%s-%s" % (pre, swap, e1, e2), cfg)
                t.register(0, "alice")
                t.register(1, "bob")
                t.register(2, "admin")
                t.line(2, "OPER admin operpass")
                t.line(0, "JOIN " + ch + key)
                t.line(0, "TOPIC %s :first life" % ch)
                t.line(0, "MODE %s +im" % ch)
                # the mask lists - for a configured channel the configured ones, whose entries have no 'set by' record - are shown
                # to a member who asks (seeded C16-g)
                for q in ("+b", "+e", "+I"):
                    t.line(0, "MODE %s %s" % (ch, q))
                t.line(0, "INVITE bob " + ch)
                t.line(1, "JOIN " + ch + key)
                t.line(0, "MODE %s +o bob" % ch)

                def leave(cid, nick, how, other_cid):
                    if how == "PART":
                        t.line(cid, "PART " + ch)
                    elif how == "KICKSELF":
                        t.line(cid, "KICK %s %s" % (ch, nick))
                    elif how == "QUIT":
                        t.line(cid, "QUIT")
                    elif how == "CLOSE":
                        t.close(cid)
                    elif how == "KILL":
                        t.line(2, "KILL %s :bye" % nick)
                    elif how == "KICKED":
                        t.line(other_cid, "KICK %s %s" % (ch, nick))
                if swap:
                    # the founder goes first, so that the last member is a plain operator (who may kick himself)
                    leave(0, "alice", e1, 1)
                    t.line(2, "LIST")
                    leave(1, "bob", e2, 0)
                else:
                    leave(1, "bob", e1, 0)
                    t.line(2, "LIST")
                    leave(0, "alice", e2, 1)
                t.line(2, "LIST")
                t.line(2, "MODE " + ch)
                t.line(2, "JOIN " + ch + key)

                t.line(2, "MODE " + ch)
                t.line(2, "TOPIC " + ch)
                t.line(2, "NAMES " + ch)
                t.meta = {"pre": pre, "founder_leaves_first": swap, "exits": [e1, e2]}
                traces.append(t)
    # one JOIN line that names a channel twice and goes on: the repeat is skipped, every later entry is decided for its own name -
    # an existing channel is not born again, the fresh ones get their founder (seeded C16-a)
    for k2, line in enumerate(["JOIN #room,#room,#fresh", "JOIN #n1,#n1,#n2,#room", "JOIN #room,#n1,#room,#n1,#n2", "JOIN #pre,#pre,#room,&loc"]):
        t = Trace("c16-repeat-%d" % k2, Config(channels=[dict(name="#pre", topic="Pre", flags="nt", founders=["alice"])]))
        t.register(0, "alice")
        t.register(1, "bob")
        t.register(2, "carol")
        t.line(0, "JOIN #room")
        t.line(0, "TOPIC #room :first life")
        t.line(0, "MODE #room +m")
        t.line(2, "JOIN #room")
        t.line(1, line)
        for chn in ("#room", "#fresh", "#n1", "#n2", "#pre", "&loc"):
            t.line(1, "NAMES " + chn)
        t.line(1, "MODE #room")
        t.line(1, "TOPIC #room")
        t.line(2, "LIST")
        t.meta = {"pre": True, "repeat": line}
        traces.append(t)
    # a JOIN refused by the quota creates nothing: the name stays free, the next joiner is its founder (seeded C16-i: the channel
    # was born although its only JOIN was answered 405)
    for k2, line in enumerate(["JOIN #new", "JOIN #one,#new", "JOIN #new,#pre,#newer"]):
        t = Trace("c16-quota-%d" % k2, Config(max_joins=1, channels=[dict(name="#pre", topic="Pre", flags="nt")]))
        t.register(0, "alice")
        t.register(1, "bob")
        t.register(2, "carol")
        t.line(0, "JOIN #one")
        t.line(0, line)
        t.line(2, "LIST")
        t.line(2, "NAMES #new")
        t.line(1, "JOIN #new")
        t.line(2, "NAMES #new")
        t.line(1, "PART #new")
        t.line(2, "LIST")
        t.line(0, "QUIT :gone")
        t.line(2, "JOIN #new")
        t.line(2, "NAMES #new")
        t.meta = {"pre": True, "quota": line}
        traces.append(t)
    # "give the configured ranks to the listed nicknames whenever these join": every subset of the five rank lists for one
    # nick (so: nicks listed in several lists), joining, leaving and joining again, next to a nick listed nowhere
    for k2, sub in enumerate(RANK_SUBSETS):
        if res.tier == "quick" and k2 % 2 != res.seed % 2 and len(sub) < 2:
            continue
        ch = dict(name="#cfg", topic="Configured", flags="t")
        for l in sub:
            ch[RANKLIST[l]] = ["alice"] + (["bob"] if l in "hv" else [])
        cfg = Config(channels=[ch])
        t = Trace("c16-ranks-%s" % (sub or "none"), cfg)
        t.register(0, "alice")
        t.register(1, "bob")
        t.register(2, "carol")
        t.line(2, "JOIN #cfg")
        t.line(0, "JOIN #cfg")
        t.line(1, "JOIN #cfg")
        t.line(2, "NAMES #cfg")
        t.line(0, "PART #cfg")
        t.line(0, "JOIN #cfg")
        t.line(0, "NICK alice2")
        t.line(0, "PART #cfg")
        t.line(0, "JOIN #cfg")
        t.line(0, "NICK alice")
        t.line(1, "PART #cfg")
        t.line(2, "PART #cfg")
        t.line(0, "PART #cfg")
        t.line(0, "JOIN #cfg")
        t.line(2, "NAMES #cfg")
        t.meta = {"pre": True, "ranks": sub}
        traces.append(t)
    return traces


def listquery_oracle(t, steps):
    """a member who asks for a mask list (MODE ch +b / +e / +I without a mask) is shown exactly the masks that are in force - the
    ones JOIN and speaking go by - whether they were set by MODE or come from the configuration (seeded C20-h)"""
    fails = []
    cm = ConnMap(t.cfg.name)
    prev = None
    code = {"b": ("367", "368", "ban"), "e": ("348", "349", "exception"), "I": ("346", "347", "invex")}
    for s in sorted(steps, key=lambda s: s["k"]):
        ev = t.events[s["k"]]
        if ev[0] == "L" and isinstance(ev[2], str) and prev is not None and not s.get("panics"):
            m = re.match(r"^MODE ([#&][^ ,:]*) \+?([beI])$", ev[2])
            actor = cm.nick.get(ev[1])
            if m and actor in prev["users"]:
                ch = prev["channels"].get(m.group(1))
                if ch is not None and actor in ch["users"]:
                    num, end, fld = code[m.group(2)]
                    mine = (s.get("out") or {}).get(str(ev[1]), [])
                    got = sorted(l.split(" ")[4] for l in mine if numeric_of(l) == num and len(l.split(" ")) > 4)
                    ended = any(numeric_of(l) == end for l in mine)
                    # (a mode string without a sign is refused by the parser: that is not a list query)
                    if ended and got != sorted(ch[fld]):
                        fails.append(("%s by member %s lists %r, the masks in force on the channel are %r" % (ev[2], actor, got, sorted(ch[fld])), {"step": s["k"]}))
        cm.update(s)
        if s.get("dump"):
            prev = s["dump"]
    return fails


def cfg_rank_oracle(t, steps):
    """a nick that has just become a member of a configured channel holds exactly the ranks the configuration lists for it -
    all of them when it is named in several lists (seeded C16-c, C10-g)"""
    fails = []
    prev = None
    for s in sorted(steps, key=lambda s: s["k"]):
        d = s.get("dump")
        if d is None or s.get("panics"):
            prev = d
            continue
        if prev is not None:
            for c in t.cfg.channels:
                chp, cha = prev["channels"].get(c["name"]), d["channels"].get(c["name"])
                if chp is None or cha is None:
                    continue
                for n in set(cha["users"]) - set(chp["users"]):
                    if n in prev["users"]:          # a join, not a rename of a member
                        want = "".join(l for l in "qaohv" if n in (c.get(RANKLIST[l]) or []))
                        got = "".join(l for l in "qaohv" if l in cha["users"][n])
                        if got != want:
                            fails.append(("%s joined the configured channel %s and holds ranks %r, the configuration lists it for %r" % (n, c["name"], got, want), {"step": s["k"]}))
                            return fails
        prev = d
    return fails


def c16_oracle(t, steps):
    fails = join_oracle(t, steps) + inv_oracle(t, steps) + listquery_oracle(t, steps)
    pre_names = set(c["name"] for c in t.cfg.channels)
    prev = None
    for s in sorted(steps, key=lambda s: s["k"]):
        d = s.get("dump")
        if d is None or s.get("panics"):
            prev = d
            continue
        for name, ch in d["channels"].items():
            if not ch["users"] and not ch["preconfigured"]:
                fails.append(("channel %s exists without members after step %d" % (name, s["k"]), {"step": s["k"]}))
            if ch["preconfigured"] != (name in pre_names) and name in pre_names:
                fails.append(("configured channel %s lost its preconfigured mark" % name, {"step": s["k"]}))
        for name in pre_names:
            if name not in d["channels"]:
                fails.append(("configured channel %s ceased to exist at step %d" % (name, s["k"]), {"step": s["k"]}))
        # a nick that has just become a member of a configured channel holds exactly the ranks the configuration lists for it
        if prev is not None:
            for c in t.cfg.channels:
                chp, cha = prev["channels"].get(c["name"]), d["channels"].get(c["name"])
                if chp is None or cha is None:
                    continue
                for n in set(cha["users"]) - set(chp["users"]):
                    if n in prev["users"]:          # a join, not a rename of a member
                        want = "".join(l for l in "qaohv" if n in (c.get(RANKLIST[l]) or []))
                        got = "".join(l for l in "qaohv" if l in cha["users"][n])
                        if got != want:
                            fails.append(("%s joined the configured channel %s and holds ranks %r, the configuration lists it for %r" % (n, c["name"], got, want), {"step": s["k"]}))
        prev = d
    return fails


def check_C16(res):
    sweep = c16_traces(res)
    n = 80 if res.tier == "quick" else 1500
    prof = join_profile()
    prof["weights"].update(PART=14, KICK=8, QUIT=3, KILL=2, OPER=3)
    prof["p_close"] = 0.08
    r = l2_campaign(res, "C16", n, 50, prof, traces=sweep, oracle=c16_oracle)
    res.coverage.update({
        "evaluations": r["steps"], "distinct_nontrivial": len(sweep),
        "rule": "life-cycle sweep: {ordinary, preconfigured with topic/flags/key/limit/ban/rank lists} x exit of the first member x exit of the last member over {PART, self-KICK, QUIT, "
                "socket close, KILL, KICK by the other} = 72 create-use-empty-recreate histories, each followed by LIST/MODE/TOPIC/NAMES probes and a re-JOIN; plus %d seeded random histories "
                "weighted to PART/KICK/QUIT/close; oracle on the implementation: no memberless ordinary channel ever exists, configured channels never vanish, a JOIN to an absent name yields the "
                "fresh founder+operator channel, and a nick joining a configured channel holds exactly the ranks its configuration lists for it (all 32 subsets of the five rank lists, "
                "joined, left, renamed and re-joined); distinct = sweep histories" % n,
        "traces_validated_against_impl": r["traces"],
        "samples": [sweep[7].describe()["events"][10:]],
        "l2": r["summary"]})
    res.coverage["rule"] += '; plus JOIN lists repeating a name before further names, JOINs of a new name refused by the quota (nothing is created, the next joiner is founder), and mask-list queries on configured channels'


# ====================================================================== C09
def rk(flags):
    return {"founder": "q" in flags, "protected": "a" in flags, "operator": "o" in flags, "half": "h" in flags,
            "voice": "v" in flags}


def is_half_op(f):
    return any(x in f for x in "qaoh")


def rank_oracle(t, steps):
    """KICK / TOPIC / INVITE decisions on the implementation, from its own pre-state"""
    fails = []
    cm = ConnMap(t.cfg.name)
    prev = None
    for s in sorted(steps, key=lambda s: s["k"]):
        ev = t.events[s["k"]]
        if ev[0] == "L" and isinstance(ev[2], str) and prev is not None and not s.get("panics"):
            actor = cm.nick.get(ev[1])
            mine = (s.get("out") or {}).get(str(ev[1]), [])
            refused_syntax = bool(mine) and numeric_of(mine[0]) in ("ERROR", "461")
            after = s["dump"]
            if actor in prev["users"] and not refused_syntax:
                m = re.match(r"^KICK (\S+) (\S+)(?: :(.*))?$", ev[2])
                if m and m.group(1)[0] in "#&":
                    chn, victims = m.group(1), m.group(2).split(",")
                    ch = prev["channels"].get(chn)
                    exp_removed = set()
                    if ch and actor in ch["users"] and is_half_op(ch["users"][actor]):
                        only_half = ch["users"][actor].replace("v", "") == "h"
                        for v in victims:
                            f = ch["users"].get(v)
                            if f is not None and "q" not in f and "a" not in f and not (only_half and is_half_op(f)):
                                exp_removed.add(v)
                    before = set(ch["users"]) if ch else set()
                    now = set(after["channels"][chn]["users"]) if chn in after["channels"] else set()
                    removed = before - now
                    if removed != exp_removed:
                        fails.append(("%s by %s (%s): removed %r, the rank rule gives %r" % (
                            ev[2], actor, ch["users"].get(actor) if ch else None, sorted(removed), sorted(exp_removed)), {"step": s["k"]}))
                    for v in exp_removed:
                        line_re = re.compile(r"^:\S+ KICK %s %s :" % (re.escape(chn), re.escape(v)))
                        for mem in (now | {v}):
                            cid = cm.conn_of(mem)
                            cnt = sum(1 for l in (s.get("out") or {}).get(str(cid), []) if line_re.match(l))
                            if cnt != 1:
                                fails.append(("KICK of %s from %s: %s saw the announcement %d times" % (v, chn, mem, cnt), {"step": s["k"]}))
                    if not exp_removed and irc.diff_dump(prev, after, "d"):
                        fails.append(("refused %s changed the state: %s" % (ev[2], irc.diff_dump(prev, after, "state")), {"step": s["k"]}))
                m = re.match(r"^TOPIC (\S+) :(.*)$", ev[2])
                if m and m.group(1)[0] in "#&" and "\r" not in ev[2] and "\x0c" not in ev[2]:
                    chn, text = m.group(1), m.group(2)
                    ch = prev["channels"].get(chn)
                    allowed = bool(ch) and actor in ch["users"] and ("t" not in ch["flags"] or is_half_op(ch["users"][actor]))
                    if allowed:
                        exp_topic = [text, actor] if text != "" else None
                        if after["channels"][chn]["topic"] != exp_topic:
                            fails.append(("%s by %s: topic is %r, expected %r" % (ev[2], actor, after["channels"][chn]["topic"], exp_topic), {"step": s["k"]}))
                        for mem in ch["users"]:
                            cid = cm.conn_of(mem)
                            cnt = sum(1 for l in (s.get("out") or {}).get(str(cid), []) if re.match(r"^:\S+ TOPIC ", l))
                            if cnt != 1:
                                fails.append(("TOPIC change on %s: member %s saw it %d times" % (chn, mem, cnt), {"step": s["k"]}))
                    elif irc.diff_dump(prev, after, "d"):
                        fails.append(("%s by %s (not entitled) changed the state: %s" % (ev[2], actor, irc.diff_dump(prev, after, "state")), {"step": s["k"]}))
                m = re.match(r"^INVITE (\S+) (\S+)$", ev[2])
                if m and m.group(2)[0] in "#&":
                    who, chn = m.group(1), m.group(2)
                    ch = prev["channels"].get(chn)
                    ok = bool(ch) and actor in ch["users"] and ("i" not in ch["flags"] or "o" in ch["users"][actor]) \
                        and who not in ch["users"] and who in prev["users"]
                    got_inv = [(c, l) for c, ls in (s.get("out") or {}).items() for l in ls if re.match(r"^:\S+ INVITE ", l)]
                    if ok:
                        if chn not in after["users"][who]["invited"]:
                            fails.append(("%s by %s: invitation not recorded" % (ev[2], actor), {"step": s["k"]}))
                        if [c for c, _ in got_inv] != [str(cm.conn_of(who))]:
                            fails.append(("%s: INVITE line went to connections %r, expected only %s" % (ev[2], [c for c, _ in got_inv], who), {"step": s["k"]}))
                    else:
                        if got_inv or irc.diff_dump(prev, after, "d"):
                            fails.append(("%s by %s is not entitled but had an effect: %r %s" % (ev[2], actor, got_inv, irc.diff_dump(prev, after, "state")), {"step": s["k"]}))
        cm.update(s)
        prev = s.get("dump")
    return fails


RANK_SUBSETS = ["".join(x) for k in range(6) for x in itertools.combinations("qaohv", k)]


def invite_life_traces():
    """ "an invitation grants ONE admission": invitations that outlive the channel, are used on a channel the invitee
    (re-)creates, on an ordinary join, after a KICK, twice - on ordinary and configured channels (seeded C09-d, C07-f)"""
    traces = []
    for k2, (pre, how) in enumerate(itertools.product((False, True), ("recreate", "plain", "twice", "kicked", "parted"))):
        cfg = Config(channels=[dict(name="#club", topic=None, flags="", founders=["alice"])] if pre else [])
        t = Trace("c09-invite-%d" % k2, cfg)
        for c, n2 in enumerate(["alice", "bob", "carol"]):
            t.register(c, n2)
        t.line(0, "JOIN #club")
        t.line(0, "INVITE bob #club")
        if how == "recreate":
            t.line(0, "PART #club")            # the channel dies (or stays empty) with the invitation pending
            t.line(1, "JOIN #club")            # the invitee (re-)creates it: this is the admission the invitation is good for
            t.line(0, "JOIN #club")
            t.line(1, "MODE #club +i")         # whoever holds the rank now closes the channel
            t.line(0, "MODE #club +i")
            t.line(1, "PART #club")
        elif how == "plain":
            t.line(1, "JOIN #club")
            t.line(1, "PART #club")
        elif how == "twice":
            t.line(0, "INVITE bob #club")
            t.line(1, "JOIN #club")
            t.line(1, "PART #club")
        elif how == "kicked":
            t.line(1, "JOIN #club")
            t.line(0, "KICK #club bob")
        else:
            t.line(0, "MODE #club +i")
            t.line(1, "JOIN #club")
            t.line(1, "PART #club :once")
        t.line(0, "JOIN #club")
        for tp in (":)", ":", "a:b", "", "two words", ":-D x", "plain"):
            t.line(0, "TOPIC #club :" + tp)    # what is relayed to the members re-parses to what was sent and is what TOPIC shows later
            t.line(0, "TOPIC #club")
        t.line(0, "MODE #club +i")
        t.line(1, "JOIN #club")                # no new invitation: must be refused with 473
        t.line(0, "NAMES #club")
        t.line(0, "INVITE bob #club")
        t.line(1, "JOIN #club")
        t.line(2, "JOIN #club")
        t.meta = {"actor": "invite", "victim": how, "flags": "pre" if pre else ""}
        traces.append(t)
    # "grants ONE admission": an invitation that did not admit - the JOIN was refused by the limit, by the quota or by a wrong key -
    # is still there when the obstacle is gone (seeded C09-i: it was used up by the check, not by the admission)
    for k2, obstacle in enumerate(["limit", "quota", "key", "limit-then-quota"]):
        t = Trace("c09-invite-unused-%d" % k2, Config(max_joins=2))
        for c, n2 in enumerate(["alice", "bob", "carol"]):
            t.register(c, n2)
        t.line(0, "JOIN #club")
        t.line(2, "JOIN #club")
        t.line(0, "MODE #club +i")
        if obstacle.startswith("limit"):
            t.line(0, "MODE #club +l 2")
        if obstacle == "key":
            t.line(0, "MODE #club +k sesame")
        if obstacle.endswith("quota"):
            t.line(1, "JOIN #x,#y")
        t.line(0, "INVITE bob #club")
        t.line(1, "JOIN #club wrong" if obstacle == "key" else "JOIN #club")            # refused: 471 / 405 / 475
        t.line(1, "JOIN #club")
        if obstacle.startswith("limit"):
            t.line(2, "PART #club")
        if obstacle == "limit-then-quota":
            t.line(1, "JOIN #club")                                                     # refused again: 405
        if obstacle.endswith("quota"):
            t.line(1, "PART #x")
        t.line(1, "JOIN #club sesame" if obstacle == "key" else "JOIN #club")           # the obstacle is gone: the invitation admits
        t.line(0, "NAMES #club")
        t.line(1, "PART #club")
        t.line(1, "JOIN #club sesame" if obstacle == "key" else "JOIN #club")           # used up now: 473
        t.meta = {"actor": "invite", "victim": "unused-" + obstacle, "flags": ""}
        traces.append(t)
    return traces


def c09_sweep(res):
    """actor rank subset x victim rank subset through preconfigured rank lists; +t/-t, +i/-i"""
    traces = []
    k = 0
    names = {"q": "founders", "a": "protecteds", "o": "operators", "h": "half_operators", "v": "voices"}
    for a in RANK_SUBSETS:
        for v in RANK_SUBSETS:
            k += 1
            if res.tier == "quick" and not pick(res, k, 6):
                continue
            ch = dict(name="#r", flags=("t" if k % 2 else "") + ("i" if k % 3 == 0 else ""))
            for l in "qaohv":
                mem = (["actor"] if l in a else []) + (["victim"] if l in v else [])
                if mem:
                    ch[names[l]] = mem
            cfg = Config(channels=[ch])
            t = Trace("c09-%s-%s" % (a or "none", v or "none"), cfg)
            t.register(0, "actor")
            t.register(1, "victim")
            t.register(2, "third")
            t.register(3, "guest")
            if "i" in ch["flags"]:
                # +i: members come in through invite-exception set by config is not available; use founder bootstrap
                cfg.channels[0]["invex"] = ["*!*@*"]
            for c in (0, 1, 2):
                t.line(c, "JOIN #r")
            t.line(0, "TOPIC #r :new topic by actor")
            t.line(0, "INVITE guest #r")
            t.line(0, "INVITE victim #r")
            t.line(3, "INVITE third #r")
            t.line(0, "KICK #r nobody,victim,victim :out")
            t.line(1, "JOIN #r")
            t.line(0, "KICK #r victim,third,victim,nobody,third :again")    # names repeated after another name (seeded C09-f)
            t.line(2, "JOIN #r")
            t.line(2, "NAMES #r")
            t.line(1, "JOIN #r")
            t.line(1, "KICK #r actor")
            t.line(2, "KICK #r third")
            t.meta = {"actor": a, "victim": v, "flags": ch["flags"]}
            traces.append(t)
    traces += invite_life_traces()
    return traces


def check_C09(res):
    sweep = c09_sweep(res)
    n = 100 if res.tier == "quick" else 2000
    prof = {"weights": dict(KICK=18, TOPIC=10, INVITE=10, JOIN=12, MODE=14, PART=3, NICK=2, PRIVMSG=1, MISC=0.2, BAD=1),
            "max_conns": 6, "initial_conns": 4}
    # the rank KICK / TOPIC / INVITE go by is, on a configured channel, the one the configuration lists for the nick - every list
    # it stands in (seeded C09-h: only the first matching list was applied at JOIN)
    r = l2_campaign(res, "C09", n, 45, prof, traces=sweep, oracle=lambda t, st: rank_oracle(t, st) + join_oracle(t, st) + relay_oracle(t, st) + cfg_rank_oracle(t, st))
    res.coverage.update({
        "evaluations": r["steps"], "distinct_nontrivial": len(set((t.meta["actor"], t.meta["victim"], t.meta["flags"]) for t in sweep)),
        "rule": "sweep: 32 actor rank subsets x 32 victim rank subsets (set through the configured rank lists of a preconfigured channel) with +t/+i varied, each running TOPIC, INVITE (to an "
                "outsider, to a member, from an outsider), KICK with an absent, a present and a repeated name (adjacent, and repeated after another name), self-directed and counter kicks (quick: a seed-selected sixth = ~171 cells; thorough: all 1024); "
                "distinct = cells; plus %d seeded random histories; each KICK/TOPIC/INVITE step is compared impl vs model and against the rank rule evaluated on the implementation's pre-state" % n,
        "exhaustive": res.tier == "thorough",
        "traces_validated_against_impl": r["traces"],
        "samples": [sweep[5].describe()["events"][12:], sweep[5].meta],
        "l2": r["summary"]})
    res.coverage["rule"] += "; plus invitations that did not admit (JOIN refused by limit, quota or key) and must still be there when the obstacle is gone; the configured-rank clause (every list a nick stands in) applies to the sweep's channels"


# ====================================================================== C08
NEEDED = {"q": lambda f: "q" in f, "a": lambda f: "q" in f or "a" in f,
          "o": lambda f: any(x in f for x in "qao"), "h": lambda f: any(x in f for x in "qao")}
RANKLIST = {"q": "founders", "a": "protecteds", "o": "operators", "h": "half_operators", "v": "voices"}
LISTNAME = {"b": "ban", "e": "exception", "I": "invex"}


def rank_sufficient(letter, f):
    return NEEDED.get(letter, is_half_op)(f)


def apply_announcement(ch, tokens):
    """replays 'MODE #c ...' (this server's dialect) over a channel record of the dump"""
    import copy
    ch = copy.deepcopy(ch)
    i = 0
    while i < len(tokens):
        tok = tokens[i]
        i += 1
        if not tok or tok[0] not in "+-":
            return None
        sign = None
        for l in tok:
            if l in "+-":
                sign = l
                continue
            arg = None
            if l in "beIqaohv" or (l in "lk" and sign == "+"):
                if i >= len(tokens):
                    return None
                arg = tokens[i]
                i += 1
            if l in "imtns":
                fl = set(ch["flags"])
                (fl.add if sign == "+" else fl.discard)(l)
                ch["flags"] = "".join(x for x in "imstn" if x in fl)
            elif l == "l":
                ch["limit"] = int(arg) if sign == "+" else None
            elif l == "k":
                ch["key"] = arg if sign == "+" else None
            elif l in LISTNAME:
                s = set(ch[LISTNAME[l]])
                (s.add if sign == "+" else s.discard)(arg)
                ch[LISTNAME[l]] = sorted(s)
            elif l in RANKLIST:
                s = set(ch[RANKLIST[l]])
                (s.add if sign == "+" else s.discard)(arg)
                ch[RANKLIST[l]] = sorted(s)
                if arg in ch["users"]:
                    f = set(ch["users"][arg])
                    (f.add if sign == "+" else f.discard)(l)
                    ch["users"][arg] = "".join(x for x in "qaohv" if x in f)
            else:
                return None
    return ch


MODE_FIELDS = ["flags", "key", "limit", "ban", "exception", "invex", "founders", "protecteds", "operators", "half_operators",
               "voices", "users"]


def mode_oracle(t, steps):
    fails = []
    cm = ConnMap(t.cfg.name)
    prev = None
    for s in sorted(steps, key=lambda s: s["k"]):
        ev = t.events[s["k"]]
        if ev[0] == "L" and isinstance(ev[2], str) and prev is not None and not s.get("panics"):
            actor = cm.nick.get(ev[1])
            m = re.match(r"^MODE ([#&]\S*)(?: (.*))?$", ev[2])
            if m and actor in prev["users"]:
                chn = m.group(1)
                after = s["dump"]
                chp, cha = prev["channels"].get(chn), after["channels"].get(chn)
                anns = [(c, l) for c, ls in (s.get("out") or {}).items() for l in ls if re.match(r"^:\S+ MODE %s " % re.escape(chn), l)]
                # "shown by later MODE queries": the 324 answer to a query reads back as the channel's flags, key and limit -
                # the n-th parameter belongs to the n-th parametrised letter of the mode string
                if m.group(2) is None and chp is not None:
                    for l in (s.get("out") or {}).get(str(ev[1]), []):
                        mm = re.match(r"^:\S+ 324 \S+ %s (\+\S*)((?: .*)?)$" % re.escape(chn), l)
                        if not mm:
                            continue
                        letters = mm.group(1)[1:]
                        rest = mm.group(2)
                        # the list / rank entries follow as " +x value" groups; key and limit come first
                        head = re.split(r" \+[beIqaohv] ", rest, 1)[0]
                        params = head.split(" ")[1:] if head else []
                        shown = {"flags": "".join(sorted(x for x in letters if x not in "kl")), "key": None, "limit": None}
                        pi = 0
                        ok_shape = True
                        for x in letters:
                            if x in "kl":
                                if pi >= len(params):
                                    ok_shape = False
                                    break
                                shown["key" if x == "k" else "limit"] = params[pi]
                                pi += 1
                        actual = {"flags": "".join(sorted(chp["flags"])), "key": chp["key"], "limit": None if chp["limit"] is None else str(chp["limit"])}
                        if ok_shape and " " not in (chp["key"] or "") and shown != actual:
                            fails.append(("MODE %s query answers %r, which reads back as %r; the channel has %r" % (chn, l, shown, actual), {"step": s["k"]}))
                # nothing but this channel's mode fields may change
                import copy
                p2, a2 = copy.deepcopy(prev), copy.deepcopy(after)
                if chn in p2["channels"] and chn in a2["channels"]:
                    for f in MODE_FIELDS + ["ban_info"]:
                        p2["channels"][chn].pop(f, None)
                        a2["channels"][chn].pop(f, None)
                d = irc.diff_dump(p2, a2, "state")
                if d:
                    fails.append(("%s by %s changed something outside the channel's modes: %s" % (ev[2], actor, d), {"step": s["k"]}))
                if chp is None or cha is None:
                    prev = s.get("dump")
                    cm.update(s)
                    continue
                changed = [f for f in MODE_FIELDS if chp[f] != cha[f]]
                # "lower ranks are answered with ERR_CHANOPRIVSNEEDED": one 482 for every letter of the command the member's rank does not
                # suffice for (one sign group of flag and rank letters with a parameter for each rank letter; seeded C08-i: a refused
                # +v / -v was met with silence)
                mg = re.match(r"^[+-]([imtnsqaohv]+)((?: [^ :]+)*)$", m.group(2) or "")
                if mg and actor in chp["users"] and len(mg.group(2).split()) >= sum(1 for x in mg.group(1) if x in "qaohv"):
                    f0 = chp["users"][actor]
                    want482 = sum(1 for x in mg.group(1) if not (rank_sufficient(x, f0) if x in "qaohv" else is_half_op(f0)))
                    mine0 = (s.get("out") or {}).get(str(ev[1]), [])
                    got482 = sum(1 for l in mine0 if numeric_of(l) == "482")
                    if got482 != want482 and not (mine0 and numeric_of(mine0[0]) in ("ERROR", "461")):
                        fails.append(("%s by %s (%r): %d letter(s) need a rank the member does not hold, answered with %d ERR_CHANOPRIVSNEEDED" % (
                            ev[2], actor, f0, want482, got482), {"step": s["k"]}))
                if actor not in chp["users"]:
                    if changed or anns:
                        fails.append(("%s by outsider %s changed %r / announced %r" % (ev[2], actor, changed, anns), {"step": s["k"]}))
                else:
                    f = chp["users"][actor]
                    # privilege per changed field
                    for fld in changed:
                        if fld == "users":
                            for n in chp["users"]:
                                for l in "qaohv":
                                    if (l in chp["users"][n]) != (l in cha["users"].get(n, "")) and not rank_sufficient(l, f):
                                        fails.append(("%s by %s (%s) changed rank %s of %s without the needed rank" % (ev[2], actor, f, l, n), {"step": s["k"]}))
                            if set(chp["users"]) != set(cha["users"]):
                                fails.append(("%s changed who is on %s" % (ev[2], chn), {"step": s["k"]}))
                        elif fld in RANKLIST.values():
                            l = [k for k, v in RANKLIST.items() if v == fld][0]
                            if not rank_sufficient(l, f):
                                fails.append(("%s by %s (%s) changed list %s without the needed rank" % (ev[2], actor, f, fld), {"step": s["k"]}))
                        elif not is_half_op(f):
                            fails.append(("%s by %s (%s) changed %s without being half-operator or above" % (ev[2], actor, f, fld), {"step": s["k"]}))
                    # exactly as announced
                    if changed or anns:
                        per_conn = collections.Counter(c for c, _ in anns)
                        texts = set(l for _, l in anns)
                        members = set(chp["users"])
                        want = collections.Counter(str(cm.conn_of(n)) for n in members)
                        if changed and (per_conn != want or len(texts) != 1):
                            fails.append(("%s: change %r announced to %r, expected once to each of %r" % (ev[2], changed, dict(per_conn), dict(want)), {"step": s["k"]}))
                        elif anns and (per_conn != want or len(texts) != 1):
                            fails.append(("%s: announcement went to %r, expected once to each member %r" % (ev[2], dict(per_conn), dict(want)), {"step": s["k"]}))
                        if len(texts) == 1:
                            line = list(texts)[0]
                            toks = line.split(" ")[3:]
                            rep = apply_announcement(chp, toks)
                            if rep is None:
                                fails.append(("%s: announcement %r cannot be parsed" % (ev[2], line), {"step": s["k"]}))
                            else:
                                bad = [fl for fl in MODE_FIELDS if rep[fl] != cha[fl]]
                                if bad:
                                    fails.append(("%s: replaying the announcement %r over the old channel gives different %r: announced %r, actual %r" % (
                                        ev[2], line, bad, {b: rep[b] for b in bad}, {b: cha[b] for b in bad}), {"step": s["k"]}))
        cm.update(s)
        prev = s.get("dump")
    return fails


def c08_sweep(res):
    traces = []
    names = {"q": "founders", "a": "protecteds", "o": "operators", "h": "half_operators", "v": "voices"}
    k = 0
    for a in RANK_SUBSETS:
        k += 1
        if res.tier == "quick" and not pick(res, k, 4):
            continue
        ch = dict(name="#m", founders=["boss"], voices=["peer"])
        for l in a:
            ch[names[l]] = ch.get(names[l], []) + ["actor"]
        cfg = Config(channels=[ch])
        t = Trace("c08-%s" % (a or "none"), cfg)
        for c, n in enumerate(["actor", "boss", "peer", "outsider"]):
            t.register(c, n)
            if n != "outsider":
                t.line(c, "JOIN #m")
        for letter in "imtnsklbeIqaohv":
            for sign in "+-":
                for tgt in ("peer", "boss", "actor", "outsider", "nobody"):
                    if letter in "imtns":
                        if tgt != "peer":
                            continue
                        t.line(0, "MODE #m %s%s" % (sign, letter))
                    elif letter == "k":
                        if tgt != "peer":
                            continue
                        t.line(0, "MODE #m %sk%s" % (sign, " key1" if sign == "+" else ""))
                    elif letter == "l":
                        if tgt != "peer":
                            continue
                        t.line(0, "MODE #m %sl%s" % (sign, " 7" if sign == "+" else ""))
                    elif letter in "beI":
                        if tgt not in ("peer", "nobody"):
                            continue
                        t.line(0, "MODE #m %s%s %s" % (sign, letter, "peer!*@*" if tgt == "peer" else "nick@host"))
                    else:
                        t.line(0, "MODE #m %s%s %s" % (sign, letter, tgt))
        t.line(3, "MODE #m +i")
        t.line(3, "MODE #m")
        t.line(0, "MODE #m -i+i")
        t.line(0, "MODE #m +l 5 -l")
        t.line(0, "MODE #m +l-l 5")
        t.line(0, "MODE #m -lk")
        t.line(0, "MODE #m +k a -k +k b")
        t.line(0, "MODE #m +imi-m+m")
        t.line(1, "MODE #m +lk-lk+o 3 kk peer")
        t.line(1, "MODE #m +l 9 +k zz")
        t.line(1, "MODE #m -lk")
        t.line(1, "MODE #m +l 9 +k zz")
        t.line(1, "MODE #m -kl")
        t.line(1, "MODE #m +l 9")
        t.line(1, "MODE #m -l -k +k newkey")
        t.line(1, "MODE #m +l 4")
        t.line(1, "MODE #m -k+k-l+l k2 6")
        t.line(1, "MODE #m")
        t.meta = {"actor": a}
        traces.append(t)
    return traces


def check_C08(res):
    sweep = c08_sweep(res)
    n = 120 if res.tier == "quick" else 2500
    prof = {"weights": dict(MODE=40, JOIN=10, PART=2, KICK=2, NICK=2, PRIVMSG=2, TOPIC=1, INVITE=1, NAMES=1, MISC=0.2, BAD=1.5),
            "max_conns": 6, "initial_conns": 4}
    # "enforced by JOIN, PRIVMSG, TOPIC, KICK and INVITE from then on": ranks and flags granted by MODE, then used
    rng = random.Random(res.seed + 8)
    for k2 in range(4 if res.tier == "quick" else 40):
        t = Trace("c08-enforced-%d" % k2, Config())
        names = ["alice", "bob", "carol", "dave", "erin", "frank"]
        for c, n2 in enumerate(names):
            t.register(c, n2)
        for c in range(5):
            t.line(c, "JOIN #m")
        t.line(0, "MODE #m +o bob")
        t.line(0, "MODE #m +hh carol dave")
        t.line(0, "MODE #m +v erin")
        t.line(0, rng.choice(["MODE #m +a bob", "MODE #m +oh erin erin", "MODE #m +t", "MODE #m +m", "MODE #m +i", "MODE #m +k key", "MODE #m +l 5"]))
        # "shown by later NAMES / WHO queries": members holding several ranks at once, asked for by a client that negotiated
        # multi-prefix and by one that did not
        t.open(6)
        t.line(6, "CAP LS 302")
        t.line(6, "CAP REQ :multi-prefix")
        t.line(6, "NICK mpx")
        t.line(6, "USER mpx 8 * :Multi Prefix")
        t.line(6, "CAP END")
        t.line(6, "JOIN #m")
        t.line(0, "MODE #m +hv bob bob")
        t.line(0, "MODE #m +h alice")
        t.line(0, "MODE #m +av carol carol")
        for asker in (6, 0, 4):
            t.line(asker, "NAMES #m")
            t.line(asker, "WHO #m")
        # enforcement of the ranks just granted, deterministic part: a mere half-operator (dave) against an operator (bob), a protected
        # member (carol), a founder (alice) and a voiced member (erin); an operator against a half-operator (seeded C08-c)
        for actor, victim in [(3, "bob"), (3, "carol"), (3, "alice"), (1, "dave")]:
            t.line(actor, "KICK #m %s :rank against rank" % victim)
            t.line(0, "NAMES #m")
        t.line(3, "JOIN #m")
        t.line(0, "MODE #m +h dave")
        order = [(2, "bob"), (2, "dave"), (2, "erin"), (3, "carol"), (4, "bob"), (1, "carol"), (2, "alice"), (1, "alice"), (3, "bob")]
        rng.shuffle(order)
        for actor, victim in order[:6]:
            t.line(actor, rng.choice(["KICK #m %s :out" % victim, "TOPIC #m :by %s" % names[actor], "INVITE frank #m", "PRIVMSG #m :hi from %s" % names[actor]]))
            t.line(5, "JOIN #m")
            t.line(0, "NAMES #m")
        sweep.append(t)

    # accepted ban / exception / invite-exception edits are enforced from then on: lists with several masks, lists emptied again
    for k2 in range(3):
        t = Trace("c08-lists-enforced-%d" % k2, Config())
        for c, n2 in enumerate(["alice", "bob", "frank", "zed"]):
            t.register(c, n2)
        t.line(0, "JOIN #m")
        t.line(1, "JOIN #m")
        t.line(2, "JOIN #m")
        t.line(0, "MODE #m +b frank!*@*")
        t.line(0, "MODE #m +b z*!*@*")
        t.line(2, "PRIVMSG #m :banned member speaks")
        t.line(3, "JOIN #m")
        excs = [["f*!*@*", "nobody!*@*"], ["nobody!*@*", "frank!*@127.*", "zed!*@*"], ["*!*@10.*", "q!*@*"]][k2]
        for e in excs:
            t.line(0, "MODE #m +e " + e)
        # refused edits of non-empty lists by a plain member (482): every list stays as it is (seeded C08-f, C10-c)
        t.line(1, "MODE #m +b x!*@*")
        t.line(1, "MODE #m -b frank!*@*")
        t.line(1, "MODE #m +e q!*@*")
        t.line(1, "MODE #m -e " + excs[0])
        t.line(1, "MODE #m b")
        t.line(1, "MODE #m e")
        t.line(2, "PRIVMSG #m :excepted by one of several masks?")
        t.line(3, "JOIN #m")
        t.line(3, "PART #m")
        for e in excs:
            t.line(0, "MODE #m -e " + e)
        t.line(0, "MODE #m e")
        t.line(2, "PRIVMSG #m :exception list emptied, the bans decide")
        t.line(3, "JOIN #m")
        t.line(0, "MODE #m -b frank!*@*")
        t.line(2, "NOTICE #m :ban removed")
        t.line(0, "MODE #m +i")
        t.line(0, "MODE #m +I z?d!*@*")
        t.line(0, "MODE #m +I other!*@*")
        t.line(0, "MODE #m -b z*!*@*")
        t.line(1, "MODE #m +I dave!*@*")
        t.line(1, "MODE #m -I z?d!*@*")
        t.line(1, "MODE #m -I nobody!*@*")
        t.line(1, "MODE #m I")
        t.line(3, "JOIN #m")
        sweep.append(t)

    def orc(t, steps):
        return mode_oracle(t, steps) + rank_oracle(t, steps) + join_oracle(t, steps) + msg_oracle(t, steps) + prefix_oracle(t, steps) + listquery_oracle(t, steps)
    r = l2_campaign(res, "C08", n, 50, prof, traces=sweep, oracle=orc)
    res.coverage.update({
        "evaluations": r["steps"], "distinct_nontrivial": sum(len(t.events) for t in sweep),
        "rule": "sweep: 32 actor rank subsets x 15 mode letters x {+,-} x target in {voiced peer, founder, self, non-member, unregistered} (flag/key/limit letters once per sign) through a preconfigured channel, "
                "followed by sign-switching strings (-i+i, +l 5 -l, +l-l 5, -lk, +k a -k +k b, ...) (quick: a seed-selected quarter of the actor subsets; thorough: all); distinct = single-command cells; plus "
                "%d seeded random histories with multi-letter strings; oracle on the implementation: every changed field needs the rank the property names, nothing outside the channel's mode fields changes, each "
                "change is announced exactly once to every member, and replaying the announced string over the old record reproduces the new record; enforcement afterwards (KICK / TOPIC / INVITE by the rank rule, JOIN by the admission rule, PRIVMSG by the speaking rule) on histories that first grant ranks and flags by MODE" % n,
        "exhaustive": res.tier == "thorough",
        "traces_validated_against_impl": r["traces"],
        "samples": [sweep[1].describe()["events"][10:16], sweep[1].meta],
        "l2": r["summary"]})
    res.coverage["rule"] += "; the MODE oracle also counts one ERR_CHANOPRIVSNEEDED per letter the member's rank does not suffice for, and a member who asks for a mask list is shown exactly the masks in force"


# ====================================================================== generic state oracles
def state_inv_fails(d, step_k):
    """the global consistency conditions, read off the implementation's own dump"""
    f = []
    users, chans = d["users"], d["channels"]
    for n, u in users.items():
        for c in u["channels"]:
            if c not in chans or n not in chans[c]["users"]:
                f.append("user %s lists channel %s which does not list the user" % (n, c))
        if u.get("sender_closed"):
            f.append("user %s is registered but its connection task is gone (ghost)" % n)
        # the source every relayed line is prefixed with, and every mask is matched against, is the CURRENT nick!~user@host
        if "source" in u and "name" in u and "host" in u and u["source"] != "%s!~%s@%s" % (n, u["name"], u["host"]):
            f.append("user %s has source %r, its nick, user name and host give %r" % (n, u["source"], "%s!~%s@%s" % (n, u["name"], u["host"])))
    for c, ch in chans.items():
        for n in ch["users"]:
            if n not in users or c not in users[n]["channels"]:
                f.append("channel %s lists %s who is not a user on it" % (c, n))
        for l, fld in RANKLIST.items():
            flagged = sorted(n for n, fl in ch["users"].items() if l in fl)
            if flagged != sorted(ch[fld]):
                f.append("channel %s: rank list %s = %r but members flagged %s = %r" % (c, fld, ch[fld], l, flagged))
        if not ch["users"] and not ch["preconfigured"]:
            f.append("channel %s has no members and is not preconfigured" % c)
    w = sorted(n for n, u in users.items() if "w" in u["modes"])
    if w != sorted(d["wallops"]):
        f.append("wallops audience %r but users with +w are %r" % (d["wallops"], w))
    inv = sum(1 for u in users.values() if "i" in u["modes"])
    if inv != d["invisible_count"]:
        f.append("invisible_count = %d but %d users are +i" % (d["invisible_count"], inv))
    ops = sum(1 for u in users.values() if "o" in u["modes"] or "O" in u["modes"])
    if ops != d["operators_count"]:
        f.append("operators_count = %d but %d users are operators" % (d["operators_count"], ops))
    if d["max_users_count"] < len(users):
        f.append("max_users_count = %d below the current %d users" % (d["max_users_count"], len(users)))
    return [("state after step %d: %s" % (step_k, x), {"step": step_k}) for x in f]


def inv_oracle(t, steps):
    fails = []
    hw = 0
    cm = ConnMap(t.cfg.name)
    open_conns = set()
    for s in sorted(steps, key=lambda s: s["k"]):
        ev = t.events[s["k"]]
        d = s.get("dump")
        if s.get("panics"):
            fails.append(("the handler aborted at step %d (%r): %s" % (s["k"], ev, s["panics"]), {"step": s["k"]}))
        if s.get("stall"):
            fails.append(("connections %r stopped answering at step %d (%r)" % (s["stall"], s["k"], ev), {"step": s["k"]}))
        if ev[0] == "O" and ev[1] not in (s.get("eof") or []):
            open_conns.add(ev[1])
        for c in s.get("eof") or []:
            open_conns.discard(c)
        cm.update(s)
        if d:
            fails += state_inv_fails(d, s["k"])
            hw = max(hw, len(d["users"]))
            if d["max_users_count"] != hw:
                fails.append(("max_users_count = %d but the high-water mark of this history is %d (step %d)" % (d["max_users_count"], hw, s["k"]), {"step": s["k"]}))
            if d["conns_count"] != len(open_conns):
                fails.append(("conns_count = %d but %d connections are open (step %d)" % (d["conns_count"], len(open_conns), s["k"]), {"step": s["k"]}))
            if sorted(cm.nick.values()) != sorted(d["users"]):
                fails.append(("registered connections hold %r but the user table has %r (step %d)" % (sorted(cm.nick.values()), sorted(d["users"]), s["k"]), {"step": s["k"]}))
            mc = t.cfg.max_connections
            if mc is not None and d["conns_count"] > mc:
                fails.append(("more connections served (%d) than max_connections=%d" % (d["conns_count"], mc), {"step": s["k"]}))
    return fails[:6]


def expected_eof(t, ev, prev, actor_nick):
    """connections the protocol itself may close at this step"""
    return None


# ====================================================================== C02
def own_oracle(t, steps):
    """a connection only acts as itself: other users' records move only in the ways the protocol allows"""
    fails = []
    cm = ConnMap(t.cfg.name)
    prev = None
    for s in sorted(steps, key=lambda s: s["k"]):
        ev = t.events[s["k"]]
        d = s.get("dump")
        if prev is not None and d is not None and not s.get("panics"):
            cid = ev[1] if len(ev) > 1 else None
            actor = cm.nick.get(cid)
            line = ev[2] if ev[0] == "L" and isinstance(ev[2], str) else ""
            verb = first_verb(line) if line else None
            actor_oper = actor in prev["users"] and "o" in prev["users"][actor]["modes"]
            for n, u in prev["users"].items():
                if n == actor:
                    continue
                u2 = d["users"].get(n)
                if u2 is None:
                    if not (verb in ("KILL", "DIE", "SQUIT") and actor_oper):
                        fails.append(("%r by connection %d (%s) removed the user %s owned by another connection" % (ev, cid, actor, n), {"step": s["k"]}))
                    continue
                for fld in ("name", "realname", "host", "source", "modes", "away", "hist"):
                    if u[fld] != u2[fld]:
                        fails.append(("%r by connection %d (%s) changed %s of user %s" % (ev, cid, actor, fld, n), {"step": s["k"]}))
                if u["channels"] != u2["channels"] and verb != "KICK":
                    fails.append(("%r by connection %d (%s) changed the memberships of %s" % (ev, cid, actor, n), {"step": s["k"]}))
                if u["invited"] != u2["invited"] and verb != "INVITE":
                    fails.append(("%r by connection %d (%s) changed the invitations of %s" % (ev, cid, actor, n), {"step": s["k"]}))
            for n in d["users"]:
                if n not in prev["users"] and actor is not None and n != actor and verb != "NICK":
                    fails.append(("%r by connection %d (%s) created user %s" % (ev, cid, actor, n), {"step": s["k"]}))
            # every relayed line carries the source of the acting connection's own user
            if actor in prev["users"]:
                srcs = {prev["users"][actor]["source"]}
                for n, u in d["users"].items():
                    if u["hist"] == prev["users"][actor]["hist"] and n not in prev["users"]:
                        srcs.add(u["source"])
                if actor in d["users"]:
                    srcs.add(d["users"][actor]["source"])
                for c, ls in (s.get("out") or {}).items():
                    for l in ls:
                        m = re.match(r"^:(\S+![^ ]*) ", l)
                        if m and m.group(1) not in srcs:
                            fails.append(("%r by %s produced a line attributed to %s: %r" % (ev, actor, m.group(1), l), {"step": s["k"]}))
            elif actor is None and ev[0] in ("L", "X", "B"):
                # unregistered (or refused) connection: nothing about registered users may move, unless it registers now
                newreg = [n for n in d["users"] if n not in prev["users"]]
                if not newreg:
                    dd = irc.diff_dump({k: v for k, v in prev.items() if k != "conns_count"}, {k: v for k, v in d.items() if k != "conns_count"}, "state")
                    if dd:
                        fails.append(("%r by unregistered connection %d changed the state: %s" % (ev, cid, dd), {"step": s["k"]}))
        cm.update(s)
        prev = d
    return fails


def c02_sweep(res):
    """contention for one nickname: every sequential order of two connections' {NICK x, USER, close} and a third user's moves"""
    traces = []
    acts_a = ["NICK zed", "USER a 8 * :A", "X"]
    acts_b = ["NICK zed", "USER b 8 * :B", "X"]
    import itertools as it
    k = 0
    orders = set()
    for perm in it.permutations([("a", 0), ("a", 1), ("a", 2), ("b", 0), ("b", 1), ("b", 2)]):
        # keep each connection's own order NICK/USER free but close last
        ia = [x[1] for x in perm if x[0] == "a"]
        ib = [x[1] for x in perm if x[0] == "b"]
        if ia.index(2) != 2 and res.tier == "quick":
            continue
        orders.add(perm)
    for perm in sorted(orders):
        k += 1
        if res.tier == "quick" and not pick(res, k, 3):
            continue
        for cfgname, cfg in (("plain", Config()), ("pw", Config(password="secret1")), ("twin", Config()), ("twinquit", Config())):
            # "twin": both connections present the SAME user name (hence the same nick!user@host once both ask for zed)
            # and the loser just goes away, still holding the nick it asked for
            twin = cfgname.startswith("twin")
            t = Trace("c02-%d-%s" % (k, cfgname), cfg)
            t.register(2, "carol", password=cfg.password)
            t.line(2, "JOIN #c")
            t.open(0)
            t.open(1)
            if cfg.password:
                t.line(0, "PASS secret1")
                t.line(1, "PASS secret1")
            closed = set()
            for who, idx in perm:
                cid = 0 if who == "a" else 1
                act = (acts_a if who == "a" or twin else acts_b)[idx]
                if cid in closed:
                    continue
                if act == "X":
                    if twin:
                        t.line(cid, "PRIVMSG #c :I am " + who)
                        if cfgname == "twinquit":
                            t.line(cid, "QUIT :bye")
                        else:
                            t.close(cid)
                    else:
                        t.line(cid, "JOIN #c")
                        t.line(cid, "NICK evil")
                        t.line(cid, "PRIVMSG #c :I am " + who)
                        t.close(cid)
                    closed.add(cid)
                else:
                    t.line(cid, act)
                t.line(2, "ISON zed evil")
            t.line(2, "NAMES #c")
            t.line(2, "WHOIS zed")
            t.meta = {"order": [list(x) for x in perm], "cfg": cfgname}
            traces.append(t)
    # a connection that asked for a nickname but never completed registration (NICK only, or an open CAP negotiation, or a refused
    # password) and whose nickname has meanwhile been registered by SOMEBODY ELSE sends the commands that act on "the sender's
    # nick": whatever they are answered, the owner's user is untouched (seeded C02-h: OPER let through the gate)
    for k2, hold in enumerate(["nick-only", "cap-open", "user-first-cap-open"]):
        cfg = Config(operators=[dict(name="admin", password="operpass")])
        t = Trace("c02-stranded-%d" % k2, cfg)
        t.register(2, "carol")
        t.line(2, "JOIN #c")
        t.open(0)
        if hold == "cap-open":
            t.line(0, "CAP LS 302")
            t.line(0, "NICK zed")
            t.line(0, "USER g 8 * :G")
        elif hold == "user-first-cap-open":
            t.line(0, "CAP REQ :multi-prefix")
            t.line(0, "USER g 8 * :G")
            t.line(0, "NICK zed")
        else:
            t.line(0, "NICK zed")
        t.open(1)
        t.line(1, "NICK zed")
        t.line(1, "USER owner 8 * :Owner")
        t.line(1, "JOIN #c")
        for l in ["OPER admin operpass", "MODE zed +iw", "AWAY :not me", "JOIN #x", "PART #c", "TOPIC #c :by the stranded one", "PRIVMSG #c :I am not zed",
                  "KICK #c carol", "INVITE carol #c", "WALLOPS :hi", "KILL carol :x", "WHOIS zed", "NAMES #c", "LIST", "MODE zed", "OPER admin wrongpw",
                  "NICK evil", "OPER admin operpass", "DIE"]:
            t.line(0, l)
            t.line(1, "MODE zed")
        t.line(2, "WHOIS zed")
        t.line(2, "LUSERS")
        t.close(0)
        t.line(2, "ISON zed evil")
        t.meta = {"order": ["stranded", hold], "cfg": "oper"}
        traces.append(t)
    # nicks that differ only in letter case, by one trailing character or by a prefix are different users: a rename onto the
    # other's exact nick is refused, each keeps acting as itself, and the end of one leaves the other alone (seeded C02-b, C11-c)
    for k2, (a, b) in enumerate([("alice", "Alice"), ("Alice", "alice"), ("bob", "BOB"), ("carol", "carol_"), ("dave", "dav"),
                                 ("v" * 200, "w" * 199), ("n" * 64, "n" * 63)]):
        t = Trace("c02-near-%d" % k2, Config())
        t.register(0, a)
        t.register(1, b)
        t.register(2, "watcher")
        for c in (0, 1, 2):
            t.line(c, "JOIN #n")
        t.line(1, "NICK " + a)               # taken: 433
        t.line(0, "NICK " + b)               # taken: 433
        t.line(1, "AWAY :I am " + b)
        t.line(0, "PRIVMSG #n :I am " + a)
        t.line(1, "PRIVMSG %s :to the other one" % a)
        t.line(2, "WHOIS %s,%s" % (a, b))
        t.line(1, "NICK " + a.upper() + "x")  # free: accepted
        t.line(1, "NICK " + a)               # still taken
        t.line(1, "NICK " + a + "xy")         # free (the other's nick is a proper prefix of it): accepted, and it is its own nick
        t.line(1, "AWAY :as myself")
        t.line(1, "PRIVMSG #n :who am I")
        t.line(2, "WHOIS %s,%sxy" % (a, a))
        t.line(2, "ISON %s %s %sx" % (a, b, a.upper()))
        t.line(1, "QUIT")
        t.line(2, "ISON %s %s" % (a, b))
        t.line(0, "PRIVMSG #n :still here")
        t.close(0)
        t.line(2, "NAMES #n")
        t.meta = {"order": ["near", a, b], "cfg": "plain"}
        traces.append(t)
    return traces


def c02_hung_victim():
    """schedule / fault part of C02 on the real server: a registered connection that stops reading its socket (its task is stuck
    writing its own replies) is KILLed by an operator; a newcomer claims the nick while the dead connection still exists; then the
    dead connection goes away.  Whatever the server decides at each point, a connection that was welcomed under a nick and was
    not told ERROR must still own that nick afterwards - the end of another connection may not remove it.  Returns (problems, stats)."""
    import fcntl, termios, struct
    probs, stats = [], {}
    okb, outb = build_server_binary()
    if not okb:
        return ["the server binary does not build"], stats
    sv = Server(dict(name="irc.irc", admin_info="A", info="I", motd="M", network="N",
                     operators=[dict(name="admin", password=irc.pw_hash("operpass"))]), tag="c02")
    if not sv.listening:
        sv.stop()
        return ["the server does not start"], stats
    try:
        op = BConn(sv.port)
        op.send("NICK boss\r\nUSER b 8 * :b\r\nOPER admin operpass\r\n")
        if not op.wait_for(lambda l: " 381 " in l, tmo=10):
            return ["operator cannot log in"], stats
        op.send("".join("JOIN #pub%d\r\n" % k for k in range(60)))
        pump_all([op], quiet=0.3, tmo=5.0)
        v = socket.socket()
        v.setsockopt(socket.SOL_SOCKET, socket.SO_RCVBUF, 4096)
        v.connect(("127.0.0.1", sv.port))
        v.sendall(b"NICK vera\r\nUSER v 8 * :v\r\n")
        _time.sleep(0.4)
        blob = ("LIST\r\nNAMES\r\nWHO *\r\n" * 6000).encode()
        v.setblocking(False)
        sent, t0 = 0, _time.time()
        while sent < len(blob) and _time.time() - t0 < 3.0:
            try:
                sent += v.send(blob[sent:sent + 65536])
            except (BlockingIOError, OSError):
                _time.sleep(0.01)

        def queued():
            try:
                return struct.unpack("i", fcntl.ioctl(v.fileno(), termios.FIONREAD, b"\0\0\0\0"))[0]
            except OSError:
                return -1
        last, since, t0 = -2, _time.time(), _time.time()
        while _time.time() - t0 < 8.0:
            q = queued()
            if q != last:
                last, since = q, _time.time()
            elif _time.time() - since > 0.8 and q > 0:
                break
            _time.sleep(0.05)
        stats["victim_unread_bytes"] = max(last, 0)
        mark = len(op.lines)
        op.send("ISON vera\r\n")
        l = op.wait_for(lambda x: " 303 " in x, tmo=5, start=mark)
        stats["victim_registered_before_kill"] = bool(l and "vera" in l.split(":", 2)[-1])
        op.send("KILL vera :gone\r\nPING k1\r\n")
        op.wait_for(lambda x: x.endswith(":k1"), tmo=5, start=mark)
        # the newcomer claims the nick while the killed connection still exists
        n = BConn(sv.port)
        n.send("NICK vera\r\nUSER n 8 * :newcomer\r\n")
        first = n.wait_for(lambda x: " 001 " in x or " 433 " in x or x.startswith("ERROR"), tmo=6)
        welcomed = bool(first and " 001 " in first)
        stats["newcomer_welcomed_while_killed_connection_exists"] = welcomed
        # now the killed connection really goes away
        try:
            v.close()
        except OSError:
            pass
        _time.sleep(0.8)
        if not welcomed:
            # the nick must become free once the old connection is gone
            n.send("NICK vera\r\n")
            first = n.wait_for(lambda x: " 001 " in x or x.startswith("ERROR"), tmo=6)
            welcomed = bool(first and " 001 " in first)
            if not welcomed:
                probs.append("after the killed connection closed, its nick cannot be registered by a new connection (answer %r)" % (first,))
        if welcomed and not n.eof:
            mark = len(op.lines)
            op.send("ISON vera\r\n")
            l = op.wait_for(lambda x: " 303 " in x, tmo=5, start=mark)
            m2 = len(n.lines)
            n.send("PRIVMSG vera :to myself\r\nPING self\r\n")
            n.wait_for(lambda x: x.endswith(":self") or " 451 " in x, tmo=5, start=m2)
            mine = n.lines[m2:]
            if not (l and "vera" in l.split(":", 2)[-1]) or any(" 401 " in x for x in mine) or n.eof:
                probs.append("connection welcomed (001) as 'vera' and never told ERROR no longer owns the nick after ANOTHER connection (the killed, "
                             "non-reading former owner) ended: ISON answers %r, its own PRIVMSG vera gives %r" % (l, [x for x in mine if " 401 " in x or "PRIVMSG" in x][:2]))
        for c in (op, n):
            c.close()
    finally:
        sv.stop()
    return probs, stats


def c02_nick_race(rounds=5):
    """schedule part of C02 on the real server: two REGISTERED connections ask for the same free nickname at the same moment, while a
    third keeps the state lock busy with an OPER password check (so both requests are released together); the nickname belongs to
    exactly one of them - exactly one rename is announced, the other is told 433 -, and when the winner's connection later ends the
    loser's own user is untouched (seeded C02-g: the in-use test and the rename under different lock acquisitions).
    Returns (problems, stats)."""
    probs, stats = [], collections.Counter()
    okb, outb = build_server_binary()
    if not okb:
        return ["the server binary does not build"], stats
    sv = Server(dict(name="irc.irc", admin_info="A", info="I", motd="M", network="N",
                     operators=[dict(name="admin", password=irc.pw_hash("operpass"))]), tag="c02r")
    if not sv.listening:
        sv.stop()
        return ["the server does not start"], stats
    try:
        h = BConn(sv.port)
        h.send("NICK holder\r\nUSER h 8 * :h\r\n")
        w = BConn(sv.port)
        w.send("NICK watch\r\nUSER w 8 * :w\r\n")
        for c in (h, w):
            c.wait_for(lambda l: " 221 " in l, tmo=8)
        for rd in range(rounds):
            a, b = BConn(sv.port), BConn(sv.port)
            a.send("NICK ra%d\r\nUSER alice 8 * :a\r\n" % rd)
            b.send("NICK rb%d\r\nUSER bob 8 * :b\r\n" % rd)
            for c in (a, b):
                c.wait_for(lambda l: " 221 " in l, tmo=8)
            ma, mb = len(a.lines), len(b.lines)
            h.send("OPER admin wrongpw%d\r\n" % rd)      # holds the write lock for the duration of the password check
            _time.sleep(0.02)
            a.send("NICK zed%d\r\n" % rd)
            b.send("NICK zed%d\r\n" % rd)
            pat = re.compile(r"^:(ra|rb)%d!\S+ NICK :?zed%d$" % (rd, rd))
            for c, mk in ((a, ma), (b, mb)):
                c.wait_for(lambda l: " 433 " in l or pat.match(l), tmo=8, start=mk)
            pump_all([a, b, w], quiet=0.25, tmo=3.0)
            won = [c for c, mk, own in ((a, ma, "ra"), (b, mb, "rb")) if any(re.match(r"^:%s%d!\S+ NICK :?zed%d$" % (own, rd, rd), l) for l in c.lines[mk:])]
            refused = [c for c, mk in ((a, ma), (b, mb)) if any(" 433 " in l for l in c.lines[mk:])]
            stats["rounds"] += 1
            stats["both_granted"] += int(len(won) == 2)
            if len(won) != 1 or len(refused) != 1:
                probs.append("two registered connections asked for the free nickname zed%d at the same moment: %d were granted it and %d were told 433 (exactly one of each expected)" % (rd, len(won), len(refused)))
                break
            # the winner leaves; the loser still owns its own nick and is served
            winner, loser = won[0], (b if won[0] is a else a)
            lnick = ("rb%d" if loser is b else "ra%d") % rd
            winner.send("QUIT\r\n")
            winner.close()
            _time.sleep(0.2)
            mk = len(w.lines)
            w.send("ISON %s zed%d\r\n" % (lnick, rd))
            l = w.wait_for(lambda x: " 303 " in x, tmo=5, start=mk)
            listed = (l or "").split(":", 2)[-1].split()
            if listed != [lnick]:
                probs.append("after the connection that won zed%d quit, ISON lists %r (only the other connection's own nick %r is registered)" % (rd, listed, lnick))
                break
            loser.send("QUIT\r\n")
            loser.close()
        for c in (h, w):
            c.close()
    finally:
        sv.stop()
    return probs, dict(stats)


def check_C02(res):
    sweep = c02_sweep(res)
    n = 100 if res.tier == "quick" else 2000
    prof = {"weights": dict(REG=10, NICK=14, QUIT=3, JOIN=6, PRIVMSG=5, KILL=1, OPER=1.5, MODE=3, UMODE=3, AWAY=2, KICK=2, INVITE=2, BAD=2),
            "p_close": 0.1, "max_conns": 6, "initial_conns": 2, "p_server_password": 0.3}
    def orc(t, steps):
        return own_oracle(t, steps) + inv_oracle(t, steps)
    r = l2_campaign(res, "C02", n, 45, prof, traces=sweep, oracle=orc)
    res.coverage.update({
        "evaluations": r["steps"], "distinct_nontrivial": len(sweep),
        "rule": "contention sweep: sequential orders of two connections' {NICK zed, USER, (JOIN, NICK evil, PRIVMSG, close)} around a registered bystander, with and without a server password "
                "(quick: closes last and a seed-selected third of the orders; thorough: all 720 orders); distinct = orders run; plus %d seeded random histories weighted to registration commands, NICK, "
                "QUIT and abrupt closes; oracle on the implementation: the user table and the registered connections are in bijection after every step, no step by connection i changes or removes a "
                "user of another connection (except memberships by KICK, invitations by INVITE, removal by an operator's KILL/DIE), an unregistered connection changes nothing, every relayed line "
                "carries the actor's own source" % n,
        "exhaustive": res.tier == "thorough",
        "traces_validated_against_impl": r["traces"],
        "samples": [sweep[0].describe()["events"][6:]],
        "l2": r["summary"]})
    # fault schedule on the real binary (re-run once before believing an objection: wall-clock dependent)
    probs, stats = c02_hung_victim()
    if probs:
        probs2, stats2 = c02_hung_victim()
        probs = [p_ for p_ in probs if any(p_[:60] == q_[:60] for q_ in probs2)]
    for p_ in probs[:2]:
        res.violation(p_, {"kind": "binary", "scenario": "operator KILLs a connection that does not read its socket; a newcomer claims the nick; the dead connection closes", "stats": stats}, found=True)
    res.coverage["hung_victim_scenario"] = stats
    probs, stats = c02_nick_race(5 if res.tier == "quick" else 30)
    if probs:
        probs2, stats2 = c02_nick_race(5 if res.tier == "quick" else 30)
        probs = [p_ for p_ in probs if any(re.sub(r"\d+", "#", p_)[:60] == re.sub(r"\d+", "#", q_)[:60] for q_ in probs2)]
    for p_ in probs[:2]:
        res.violation(p_, {"kind": "binary", "scenario": "two registered connections send NICK for one free nickname while a third connection's OPER password check holds the state lock", "stats": stats}, found=True)
    res.coverage["nick_race_scenario"] = stats
    res.coverage["rule"] += ("; plus, on the real binary, the fault schedule 'KILL of a connection stuck writing to a client that does not read, newcomer claims the nick, dead connection "
                             "closes': a connection welcomed under a nick and never told ERROR still owns it afterwards; and the schedule 'two registered connections ask for one free nickname at the same moment behind a busy state lock': exactly one is granted it, the other told 433, and the winner's later QUIT leaves the other's user alone")


# ====================================================================== C04
def strip_rank(tok, known):
    """removes the rank prefix of a 353/319 entry, using the names that exist to resolve '&' / '+' ambiguities"""
    for j in range(len(tok) + 1):
        if all(c in "~&@%+" for c in tok[:j]) and tok[j:] in known:
            return tok[j:]
    return tok.lstrip("~&@%+")


def prefix_oracle(t, steps):
    """ "shown by later NAMES / WHO queries": every name in a 353 line and every 352 flag field carries the member's rank
    prefixes as the channel holds them after the step - all of them (~&@%+ order) for a client that negotiated multi-prefix,
    the highest one otherwise (seeded C08-g)"""
    fails = []
    multi = set()
    for s in sorted(steps, key=lambda s: s["k"]):
        ev = t.events[s["k"]]
        out = s.get("out") or {}
        if ev[0] == "L" and isinstance(ev[2], str) and re.match(r"^\s*CAP\s+REQ\b", ev[2], re.I):
            if any(re.search(r" CAP \S+ ACK :?.*multi-prefix", l) for l in out.get(str(ev[1]), [])):
                multi.add(str(ev[1]))
        if ev[0] in ("X",) or str(ev[1]) in [str(c) for c in (s.get("eof") or [])]:
            multi.discard(str(ev[1]))
        d = s.get("dump")
        if not d or s.get("panics"):
            continue
        for c, ls in out.items():
            for l in ls:
                m = re.match(r"^:\S+ 353 \S+ [=@*] (\S+) :(.*)$", l)
                if m and m.group(1) in d["channels"]:
                    mem = d["channels"][m.group(1)]["users"]
                    for tok in m.group(2).split(" "):
                        if not tok:
                            continue
                        n = strip_rank(tok, mem)
                        if n not in mem:
                            continue
                        allp = "".join(p for p, f in zip("~&@%+", "qaohv") if f in mem[n])
                        want = allp if c in multi else allp[:1]
                        if tok[:len(tok) - len(n)] != want:
                            fails.append(("NAMES %s shows %r to connection %s (%s multi-prefix); the member holds ranks %r, so the prefix is %r" % (
                                m.group(1), tok, c, "with" if c in multi else "without", mem[n], want), {"step": s["k"]}))
                            return fails
                m = re.match(r"^:\S+ 352 \S+ (\S+) \S+ \S+ \S+ (\S+) ([HG])(\*?)(\S*) :", l)
                if m and m.group(1) in d["channels"] and m.group(2) in d["channels"][m.group(1)]["users"]:
                    fl = d["channels"][m.group(1)]["users"][m.group(2)]
                    allp = "".join(p for p, f in zip("~&@%+", "qaohv") if f in fl)
                    want = allp if c in multi else allp[:1]
                    if m.group(5) != want:
                        fails.append(("WHO %s shows the flags %r for %s to connection %s (%s multi-prefix); the member holds ranks %r, so the prefixes are %r" % (
                            m.group(1), m.group(3) + m.group(4) + m.group(5), m.group(2), c, "with" if c in multi else "without", fl, want), {"step": s["k"]}))
                        return fails
    return fails


def views_oracle(t, steps):
    """NAMES / WHO / WHOIS answers agree with the membership relation; PART and NICK are announced"""
    fails = []
    cm = ConnMap(t.cfg.name)
    prev = None
    srv = t.cfg.name
    for s in sorted(steps, key=lambda s: s["k"]):
        ev = t.events[s["k"]]
        d = s.get("dump")
        if ev[0] == "L" and isinstance(ev[2], str) and prev is not None and d is not None and not s.get("panics"):
            actor = cm.nick.get(ev[1])
            mine = (s.get("out") or {}).get(str(ev[1]), [])
            if actor in prev["users"] and mine and numeric_of(mine[0]) == "ERROR":
                # the view of a channel that exists is never refused as a malformed command (seeded C04-h: WHO &local)
                m = re.match(r"^(WHO|NAMES) ([#&][^ ,*?]*)$", ev[2])
                if m and m.group(2) in prev["channels"]:
                    fails.append(("%s %s (an existing channel) asked by %s is refused: %r" % (m.group(1), m.group(2), actor, mine[0]), {"step": s["k"]}))
            if actor in prev["users"] and not (mine and numeric_of(mine[0]) == "ERROR"):
                me = prev["users"][actor]
                m = re.match(r"^NAMES ([#&][^ ,]*)$", ev[2])
                if m:
                    chn = m.group(1)
                    ch = prev["channels"].get(chn)
                    got = set()
                    for l in mine:
                        mm = re.match(r"^:\S+ 353 \S+ [=@] (\S+) :(.*)$", l)
                        if mm and mm.group(1) == chn:
                            got |= set(strip_rank(x, prev["users"]) for x in mm.group(2).split(" ") if x)
                    if ch is not None:
                        member = actor in ch["users"]
                        if member:
                            exp = set(ch["users"])
                        elif "s" in ch["flags"]:
                            exp = set()
                        else:
                            exp = set(n for n in ch["users"] if "i" not in prev["users"][n]["modes"])
                        if got != exp:
                            fails.append(("NAMES %s seen by %s lists %r, the members entitled to be seen are %r" % (chn, actor, sorted(got), sorted(exp)), {"step": s["k"]}))
                m = re.match(r"^WHO ([#&][^ ,*?]*)$", ev[2])
                if m:
                    chn = m.group(1)
                    ch = prev["channels"].get(chn)
                    got = set(l.split(" ")[7] for l in mine if numeric_of(l) == "352")
                    if ch is not None:
                        member = actor in ch["users"]
                        if "s" in ch["flags"] and not member:
                            exp = set()
                        else:
                            exp = set(n for n in ch["users"] if "i" not in prev["users"][n]["modes"]
                                      or set(prev["users"][n]["channels"]) & set(me["channels"]))
                        if got != exp:
                            fails.append(("WHO %s seen by %s lists %r, expected %r" % (chn, actor, sorted(got), sorted(exp)), {"step": s["k"]}))
                m = re.match(r"^WHOIS (\S+)$", ev[2])
                if m:
                    # one nick, a comma list or wildcard masks: every answered user's 319 lines must carry exactly its own
                    # non-secret channels (nothing for an invisible user sharing no channel with the asker)
                    per = collections.defaultdict(set)
                    answered = set()
                    for l in mine:
                        mm = re.match(r"^:\S+ 311 \S+ (\S+) ", l)
                        if mm:
                            answered.add(mm.group(1))
                        mm = re.match(r"^:\S+ 319 \S+ (\S+) :(.*)$", l)
                        if mm:
                            per[mm.group(1)] |= set(strip_rank(x, prev["channels"]) for x in mm.group(2).split(" ") if x)
                            answered.add(mm.group(1))
                    for n in sorted(answered):
                        u = prev["users"].get(n)
                        if u is None:
                            continue
                        hidden = "i" in u["modes"] and not (set(u["channels"]) & set(me["channels"]))
                        exp = set() if hidden else set(c for c in u["channels"] if "s" not in prev["channels"][c]["flags"])
                        if per.get(n, set()) != exp:
                            fails.append(("WHOIS %s seen by %s lists channels %r, expected %r" % (n, actor, sorted(per.get(n, set())), sorted(exp)), {"step": s["k"]}))
                m = re.match(r"^PART ([#&][^ ,]*)(?: :(.*))?$", ev[2])
                if m:
                    chn = m.group(1)
                    ch = prev["channels"].get(chn)
                    if ch is not None and actor in ch["users"]:
                        if chn in d["channels"] and actor in d["channels"][chn]["users"]:
                            fails.append(("PART %s by %s did not end the membership" % (chn, actor), {"step": s["k"]}))
                        for mem in ch["users"]:
                            cid = cm.conn_of(mem)
                            cnt = sum(1 for l in (s.get("out") or {}).get(str(cid), []) if re.match(r"^:\S+ PART %s( |$)" % re.escape(chn), l))
                            if cnt != 1:
                                fails.append(("PART %s by %s: member %s saw the announcement %d times" % (chn, actor, mem, cnt), {"step": s["k"]}))
                # "under their current nicknames": the nickname a NICK announcement tells the members is the one the three views list
                # from then on (seeded C04-i: the announcement carried the nick as sent, the state a shortened one)
                for c2, ls2 in (s.get("out") or {}).items():
                    for l2 in ls2:
                        mm = re.match(r"^:%s!\S* NICK :?(\S+)$" % re.escape(actor), l2)
                        if mm and mm.group(1) not in d["users"]:
                            fails.append(("connection %s was told that %s is now %r (%d characters); no user of that name exists afterwards (users: %r)" % (
                                c2, actor, mm.group(1)[:40], len(mm.group(1)), sorted(x[:40] for x in d["users"])), {"step": s["k"]}))
                            break
                m = re.match(r"^NICK (\S+)$", ev[2])
                if m and m.group(1) not in prev["users"] and m.group(1) in d["users"] and actor not in d["users"]:
                    new = m.group(1)
                    sharing = set(n for n, u in prev["users"].items() if n == actor or set(u["channels"]) & set(me["channels"]))
                    for mem in sharing:
                        cid = cm.conn_of(mem)
                        cnt = sum(1 for l in (s.get("out") or {}).get(str(cid), []) if re.match(r"^:%s!\S* NICK :?%s$" % (re.escape(actor), re.escape(new)), l))
                        if cnt != 1:
                            fails.append(("NICK %s -> %s: %s (sharing a channel) saw the announcement %d times" % (actor, new, mem, cnt), {"step": s["k"]}))
        cm.update(s)
        prev = d
    return fails


class ProbingGen(gen.Gen):
    """after every membership-changing command, asks NAMES / WHO / WHOIS from a member and from an outsider"""

    def step(self):
        before = len(self.t.events)
        super().step()
        ev = self.t.events[-1] if len(self.t.events) > before else None
        if ev and ev[0] in ("L", "X") and (ev[0] == "X" or re.match(r"^(JOIN|PART|KICK|NICK|QUIT|KILL|MODE)", str(ev[2]))):
            regs = self.registered()
            if regs:
                ch = self.rng.choice(gen.CHANS[:5])
                for _ in range(2):
                    c = self.rng.choice(regs)
                    self.t.line(c, self.rng.choice(["NAMES " + ch, "WHO " + ch, "WHOIS " + self.some_nick(),
                                                    "WHOIS %s,%s" % (self.some_nick(), self.some_nick()), "WHOIS *"]))


def probing_traces(rng, prefix, n, length, profile):
    out = []
    for i in range(n):
        cfg = gen.rand_config(rng, profile)
        t = Trace("%s-p%d" % (prefix, i), cfg)
        g = ProbingGen(rng, t, profile)
        for _ in range(profile.get("initial_conns", 3)):
            g.new_conn()
        while len(t.events) < length:
            g.step()
        out.append(t)
    return out


def kick_announce_oracle(t, steps):
    """every removal by KICK is announced once to every member of the channel, the removed users included"""
    fails = []
    cm = ConnMap(t.cfg.name)
    prev = None
    for s in sorted(steps, key=lambda s: s["k"]):
        ev = t.events[s["k"]]
        d = s.get("dump")
        if ev[0] == "L" and isinstance(ev[2], str) and prev is not None and d is not None and not s.get("panics"):
            m = re.match(r"^KICK ([#&][^ ,:]*) (\S+)", ev[2])
            actor = cm.nick.get(ev[1])
            if m and actor in prev["users"] and m.group(1) in prev["channels"]:
                chn = m.group(1)
                before = set(prev["channels"][chn]["users"])
                after = set(d["channels"][chn]["users"]) if chn in d["channels"] else set()
                removed = before - after
                if removed and actor in before:
                    for member in before:
                        c = cm.conn_of(member)
                        got = (s.get("out") or {}).get(str(c), []) if c is not None else []
                        for v in removed:
                            if member in removed and member != v:
                                continue   # somebody removed by the same command needs (and gets) only its own KICK
                            n = sum(1 for l in got if re.match(r"^:%s!\S+ KICK %s %s( |$)" % (re.escape(actor), re.escape(chn), re.escape(v)), l))
                            if n != 1:
                                fails.append(("KICK of %s from %s by %s: member %s saw the announcement %d times" % (v, chn, actor, member, n), {"step": s["k"]}))
        cm.update(s)
        if d is not None:
            prev = d
    return fails


def c04_kick_traces(res):
    """KICK lists that empty the channel, include the kicker, repeat names - on ordinary and preconfigured channels"""
    traces = []
    k = 0
    for chan, pre in (("#room", False), ("#pre", True)):
        for victims in ("carol,bob", "bob", "carol", "carol,bob,carol", "bob,carol,erin", "erin,carol,bob"):
            for founder_stays in (False, True):
                k += 1
                cfg = Config(channels=[dict(name="#pre", topic=None, flags="")] if pre else [])
                t = Trace("C04-kick-%d" % k, cfg)
                for c, nk in enumerate(["alice", "bob", "carol", "erin", "dave"]):
                    t.register(c, nk)
                for c in range(4):
                    t.line(c, "JOIN " + chan)
                if pre:
                    t.line(4, "OPER admin operpass")
                t.line(0, "MODE %s +o bob" % chan)
                if not founder_stays:
                    t.line(0, "PART " + chan)
                t.line(3, "PART %s :bye" % chan) if "erin" not in victims else None
                t.line(1, "KICK %s %s :out" % (chan, victims))
                t.line(4, "NAMES " + chan)
                t.line(2, "WHOIS bob")
                t.line(1, "JOIN " + chan)
                t.line(1, "NAMES " + chan)
                t.meta = {"victims": victims, "preconfigured": pre, "founder_stays": founder_stays}
                traces.append(t)
    # members that negotiate capabilities in mid-session (CAP LS / REQ / END after joining) and then leave in every way:
    # they must disappear from all three views like anybody else (seeded C04-d / C06-a)
    for k2, (caps, how) in enumerate(itertools.product((["CAP END"], ["CAP LS 302", "CAP REQ :multi-prefix", "CAP END"], ["CAP REQ :multi-prefix", "CAP END", "CAP END"]),
                                                        ("QUIT", "CLOSE", "PART", "KICKED", "NICK"))):
        t = Trace("C04-cap-%d" % k2, Config(channels=[dict(name="#pre", topic=None, flags="")]))
        for c, nk in enumerate(["alice", "bob", "carol", "dave", "erin"]):
            t.register(c, nk)
        for c in range(4):
            t.line(c, "JOIN #room,#pre")
        for l in caps:
            t.line(1, l)
            t.line(3, l)
        t.line(0, "NAMES #room")
        if how == "QUIT":
            t.line(1, "QUIT :bye")
            t.close(3)
        elif how == "CLOSE":
            t.close(1)
            t.line(3, "QUIT")
        elif how == "PART":
            t.line(1, "PART #room,#pre")
            t.line(3, "PART #room")
            t.line(3, "QUIT")
        elif how == "KICKED":
            t.line(0, "KICK #room bob,dave")
            t.close(1)
        else:
            t.line(1, "NICK bobby")
            t.line(1, "QUIT")
            t.line(3, "NICK dave2")
        for viewer in (0, 4):
            for q in ("NAMES #room", "WHO #room", "NAMES #pre", "WHO #pre", "WHOIS bob,dave,bobby,dave2", "WHO *"):
                t.line(viewer, q)
        t.line(2, "PART #room :after")
        t.line(0, "NAMES #room")
        t.meta = {"victims": "", "preconfigured": True, "cap": caps, "leaves": how}
        traces.append(t)
    return traces


def check_C04(res):
    n = 150 if res.tier == "quick" else 2500
    prof = {"weights": dict(JOIN=22, PART=10, KICK=8, NICK=8, QUIT=3, MODE=6, UMODE=4, NAMES=3, WHO=3, WHOIS=3, PRIVMSG=1, KILL=1, OPER=1, BAD=0.5, MISC=0.1),
            "p_close": 0.07, "max_conns": 6, "initial_conns": 3}
    rng = random.Random(res.seed + 4)
    probing = probing_traces(rng, "C04", n, 60, prof) + c04_kick_traces(res)
    for k2, part in enumerate(["PART #left,#left", "PART &loc,#left,&loc :twice", "PART #left,#none,#left,&loc"]):
        t = Trace("C04-local-repeat-%d" % k2, Config())
        for c, nk in enumerate(["alice", "bob", "carol", "dave"]):
            t.register(c, nk)
        for c in range(3):
            t.line(c, "JOIN #left,&loc,#other")
        for viewer in (0, 3):
            for q in ("WHO &loc", "NAMES &loc", "WHO #left", "WHOIS bob"):
                t.line(viewer, q)
        t.line(1, part)
        t.line(1, "PING after")
        for viewer in (0, 1, 3):
            for q in ("WHO &loc", "NAMES &loc", "NAMES #left", "WHO #left", "WHO #other", "WHOIS bob"):
                t.line(viewer, q)
        t.line(1, "PRIVMSG #other :still here")
        t.meta = {"victims": "", "preconfigured": False, "part": part}
        probing.append(t)
    for k2, (cnt, ln) in enumerate([(12, 180), (21, 120)]):
        t = Trace("C04-long-names-%d" % k2, Config())
        t.register(0, "observer")
        t.line(0, "JOIN #big")
        for c in range(1, cnt + 1):
            t.register(c, ("N%02d" % c) + "x" * (ln - 3))
            t.line(c, "JOIN #big")
        for q in ("NAMES #big", "WHO #big", "NAMES"):
            t.line(0, q)
        t.line(cnt, "PART #big")
        t.line(0, "NAMES #big")
        t.meta = {"victims": "", "preconfigured": False, "long_names": (cnt, ln)}
        probing.append(t)
    for k2, ln in enumerate([200, 201, 243]):
        t = Trace("C04-long-nick-%d" % ln, Config())
        for c, nk in enumerate(["alice", "bob", "carol"]):
            t.register(c, nk)
        t.line(0, "JOIN #room")
        t.line(1, "JOIN #room")
        newn = "Rob" + "x" * (ln - 3)
        t.line(1, "NICK " + newn)
        for viewer in (0, 2):
            for q in ("NAMES #room", "WHO #room", "WHOIS " + newn, "WHOIS " + newn[:200]):
                t.line(viewer, q)
        t.line(1, "PART #room :bye")
        t.line(0, "NAMES #room")
        t.meta = {"victims": "", "preconfigured": False, "nick_length": ln}
        probing.append(t)
    def orc(t, steps):
        return views_oracle(t, steps) + inv_oracle(t, steps) + join_oracle(t, steps) + kick_announce_oracle(t, steps) + eof_oracle(t, steps)
    r = l2_campaign(res, "C04", 0, 0, prof, traces=probing, oracle=orc)
    res.coverage.update({
        "evaluations": r["steps"], "distinct_nontrivial": r["summary"]["reply_codes"].get("353", 0) + r["summary"]["reply_codes"].get("352", 0) + r["summary"]["reply_codes"].get("319", 0),
        "rule": "%d seeded random histories of joins (single and comma lists), parts, kicks, nick changes, quits, kills and abrupt closes over 5 channels and up to 6 users; after every membership-changing "
                "command two randomly chosen users (members and outsiders) ask NAMES/WHO/WHOIS; oracle on the implementation after EVERY step: user.channels and channel.users are one relation, rank lists "
                "equal the member flags; each NAMES/WHO/WHOIS answer equals the membership relation restricted to what that viewer may see; JOIN/PART/NICK/KICK announcements reach every member exactly once (the departing users included; 24 extra "
                "KICK histories whose victim list empties the channel, includes the kicker or repeats names, on ordinary and preconfigured channels; 15 histories in which members negotiate "
                "capabilities in mid-session and then leave by QUIT / close / PART / KICK / after a nick change); "
                "distinct_nontrivial = number of 353/352/319 view lines checked" % n,
        "traces_validated_against_impl": r["traces"],
        "samples": [probing[0].describe()["events"][8:24]],
        "l2": r["summary"]})
    res.coverage["rule"] += "; plus local ('&') channels in all three views, PART lists that name a channel twice or more (with the closed-only-by-protocol oracle), nick changes to 200 / 201 / 243 characters with the clause 'the nick an announcement tells is the one the views list', and 'the view of an existing channel is never refused as malformed'"


# ====================================================================== C05
def eof_oracle(t, steps):
    """a connection is closed only when the protocol ends it; nobody else is closed, stalled or aborted"""
    fails = []
    cm = ConnMap(t.cfg.name)
    prev = None
    for s in sorted(steps, key=lambda s: s["k"]):
        ev = t.events[s["k"]]
        cid = ev[1] if len(ev) > 1 else None
        if s.get("panics"):
            fails.append(("session handler aborted on %r: %s" % (ev, s["panics"]), {"step": s["k"]}))
        if s.get("stall"):
            fails.append(("connections %r no longer answer after %r" % (s["stall"], ev), {"step": s["k"]}))
        eof = set(s.get("eof") or [])
        allowed = set()
        if ev[0] == "X":
            allowed.add(cid)
        if ev[0] == "O":
            mc = t.cfg.max_connections
            if (mc is not None and prev is not None and prev["conns_count"] >= mc) or (prev is not None and prev.get("server_quit")):
                allowed.add(cid)
        if ev[0] in ("L", "B"):
            data = ev[2] if isinstance(ev[2], bytes) else ev[2].encode("utf-8")
            v = first_verb(ev[2])
            mine = (s.get("out") or {}).get(str(cid), [])
            nums = [numeric_of(l) for l in mine]
            if v == "QUIT" or "464" in nums or "417" in nums or len(data) > 1998:
                allowed.add(cid)
            try:
                data.decode("utf-8")
            except Exception:
                allowed.add(cid)
            actor = cm.nick.get(cid)
            if v in ("KILL", "DIE", "SQUIT") and prev is not None and actor in prev["users"] and "o" in prev["users"][actor]["modes"]:
                allowed |= set(cm.nick.keys())
        bad = eof - allowed
        if bad:
            fails.append(("%r closed connections %r which the protocol does not end" % (ev, sorted(bad)), {"step": s["k"]}))
        cm.update(s)
        prev = s.get("dump") or prev
    return fails


def torture_lines(rng):
    verbs = ["CAP", "AUTHENTICATE", "PASS", "NICK", "USER", "PING", "PONG", "OPER", "QUIT", "JOIN", "PART", "TOPIC", "NAMES", "LIST", "INVITE",
             "KICK", "MOTD", "VERSION", "ADMIN", "CONNECT", "LUSERS", "TIME", "STATS", "LINKS", "HELP", "INFO", "MODE", "PRIVMSG", "NOTICE",
             "WHO", "WHOIS", "WHOWAS", "KILL", "REHASH", "RESTART", "SQUIT", "AWAY", "USERHOST", "WALLOPS", "ISON", "DIE"]
    shapes = ["#a", "#b", "#none", "alice", "bob", "nobody", "", "*", "?", "*a*", "a" * 300, "é" * 40, "#a,#a", "alice,alice", "#a,#none,&loc",
              "+o", "-o", "+l", "-l+l", "+k-k+k", "+b", "+bbbb", "+ovhqa", "18446744073709551615", "18446744073709551616", "99999999999999999999999",
              "-1", "0", "+5", "x!y@z", "*!*@*", "a*bcd", "*aaaaaaaaaaaaaaaaaaaa", "?é", ":", "::", "a:b", "~&@%+#a", "&&&", "@", "+", "#", "&",
              "irc.irc", "*.irc", "\x01ACTION\x01", "tab\tsep", "302", "301", "LS", "REQ", "END", "multi-prefix", "u", "m", "x"]
    # wildcard-heavy masks whose literal runs overlap, exceed what is left of the text, or only just fit (seeded C05-d)
    for n in gen.NICKS[:4]:
        shapes += [n[:2] + "*" + n[1:], n[:1] + "*" + n, n + "*" + n[-1:], "*" + n + "?", n[:-1] + "*" + n[-2:] + "*", "?" * len(n), "?" * (len(n) + 1),
                   "%s!~%s@127.0.0*0.0.1" % (n, n), "%s!*@*7.0.0.1*1" % n, "*!~%s@*.0.0.1?" % n]
    v = rng.choice(verbs)
    if rng.random() < 0.5:
        v = "".join(ch.lower() if rng.random() < 0.5 else ch for ch in v)
    n = rng.randint(0, 5)
    ps = [rng.choice(shapes) for _ in range(n)]
    line = v + "".join(" " + p for p in ps)
    if rng.random() < 0.4:
        line += " :" + rng.choice(shapes + ["trailing text with spaces", ""])
    return line


class TortureGen(gen.Gen):
    def command(self, cid):
        if self.rng.random() < 0.55:
            return torture_lines(self.rng)
        return super().command(cid)


def retry_after_refusal_traces(res):
    """registration refused half-way (late nick collision, mask mismatch, CAP pending), then retried in every way"""
    traces = []
    k = 0
    retries = [["NICK free1"], ["NICK free1", "USER again 8 * :Again"], ["USER again 8 * :Again", "NICK free1"], ["CAP END"],
               ["PASS secret1", "NICK free1"], ["NICK zed"], ["CAP LS 302", "NICK free1", "CAP END"], ["NICK free1", "NICK free2", "JOIN #a"]]
    for cfgname, cfg in (("plain", Config()), ("pw", Config(password="secret1")),
                         ("mask", Config(users=[dict(name="a", nick="a", password=None, mask="nomatch!*@*")]))):
        for order in range(3):
            for ri, retry in enumerate(retries):
                k += 1
                t = Trace("retry-%s-%d-%d" % (cfgname, order, ri), cfg)
                t.open(0)
                if cfg.password:
                    t.line(0, "PASS secret1")
                if order == 0:
                    t.line(0, "NICK zed")
                elif order == 1:
                    t.line(0, "CAP LS 302")
                    t.line(0, "NICK zed")
                    t.line(0, "USER a 8 * :A")
                else:
                    t.line(0, "USER a 8 * :A")
                t.register(1, "zed", "b", password=cfg.password)
                t.line(1, "JOIN #a")
                t.line(0, {0: "USER a 8 * :A", 1: "CAP END", 2: "NICK zed"}[order])
                for l in retry:
                    t.line(0, l)
                t.line(0, "JOIN #a")
                t.line(0, "PRIVMSG #a :hello")
                t.line(1, "PRIVMSG #a :still here")
                t.line(1, "WHOIS free1")
                t.line(0, "QUIT")
                t.line(1, "NAMES #a")
                t.meta = {"cfg": cfgname, "order": order, "retry": retry}
                traces.append(t)
    return traces


def long_relay_traces(res):
    """texts close to the input limit made of multi-byte characters: relayed with the sender's prefix they pass 2000 bytes, with
    byte 2000 inside a character for some alignments (seeded C05-f) - every relay, announcement and later answer must still work"""
    out = []
    for k, body in enumerate(["é" * 985, "😀" * 492, "é" * 900 + "😀" * 40]):
        t = Trace("c05-long-relay-%d" % k, Config())
        t.register(0, "alice")
        t.register(1, "bob")
        t.register(2, "carol")
        for c in (0, 1, 2):
            t.line(c, "JOIN #a")
        for pad in ("", "x", "xx", "xxx"):
            t.line(0, "PRIVMSG bob :" + pad + body)
            t.line(0, "NOTICE #a :" + pad + body)
            t.line(0, "TOPIC #a :" + pad + body)
            t.line(2, "TOPIC #a")
            t.line(0, "AWAY :" + pad + body)
            t.line(1, "PRIVMSG alice :are you there")
            t.line(2, "PART #a :" + pad + body)
            t.line(2, "JOIN #a")
            t.line(0, "KICK #a carol :" + pad + body)
            t.line(2, "JOIN #a")
        for c in (0, 1, 2):
            t.line(c, "PING alive")
            t.line(c, "PRIVMSG #a :still here")
        out.append(t)
    return out


def check_C05(res):
    n = 200 if res.tier == "quick" else 3000
    rng = random.Random(res.seed + 5)
    prof = {"weights": dict(BAD=8, MODE=10, KICK=6, JOIN=8, PART=4, NICK=4, OPER=3, KILL=1.5, UMODE=4, WHO=3, WHOIS=3, PRIVMSG=4, QUIT=1.5, DIE=0.1),
            "p_close": 0.06, "max_conns": 6, "initial_conns": 3, "p_default_mode": 0.15}
    traces = []
    for i in range(n):
        cfg = gen.rand_config(rng, prof)
        t = Trace("C05-t%d" % i, cfg)
        g = TortureGen(rng, t, prof)
        for _ in range(3):
            g.new_conn()
        while len(t.events) < 55:
            g.step()
        # raw byte torture on one connection, then bystanders must still be served
        c = g.new_conn(register=rng.random() < 0.7)
        kind = rng.choice(["badutf8", "long1999", "long2001", "nul", "many", "partial"])
        if kind == "badutf8":
            t.raw(c, b"PRIVMSG #a :\xff\xfe\r\n")
        elif kind == "long1999":
            t.raw(c, b"PRIVMSG #a :" + b"x" * (1998 - 12) + b"\r\n")
        elif kind == "long2001":
            t.raw(c, b"PRIVMSG #a :" + b"x" * (2001 - 12) + b"\r\n")
        elif kind == "nul":
            t.raw(c, b"PRIVMSG #a :a\x00b\r\nJOIN #\x00\r\n")
        elif kind == "many":
            t.raw(c, b"JOIN #a\r\nJOIN #b\nPART #a\r\n\r\n  \r\nLUSERS\r\n", [3, 9, 20])
        else:
            t.raw(c, b"JOIN #")
            t.raw(c, b"zz\r\nPI")
            t.raw(c, b"NG q\r\n")
        regs = g.registered()
        for c2 in regs[:3]:
            t.line(c2, "PING alive")
            t.line(c2, "PRIVMSG #a :still here")
        traces.append(t)
    traces += retry_after_refusal_traces(res) + long_relay_traces(res)
    # numeric extremes against real history: WHOWAS counts below, at and above the number of stored entries (after peers
    # left or renamed), limits at the edges of the integer range
    tn = Trace("C05-numeric", Config())
    tn.register(0, "alice")
    tn.register(1, "bob")
    tn.line(1, "NICK bobby")
    tn.line(1, "QUIT :gone")
    tn.register(2, "bob")
    tn.close(2)
    tn.register(3, "bob")
    tn.line(3, "NICK robert")
    tn.line(0, "JOIN #a")
    for nk in ("bob", "bobby", "robert", "nobody", "alice"):
        for cnt in ("", " 0", " 1", " 2", " 3", " 4", " 99", " -1", " x", " 18446744073709551615", " 18446744073709551616", " 1 irc.irc"):
            tn.line(0, "WHOWAS %s%s" % (nk, cnt))
    for lim in ("0", "1", "4294967295", "4294967296", "18446744073709551615", "18446744073709551616", "-1", "+3", "07"):
        tn.line(0, "MODE #a +l " + lim)
        tn.line(0, "MODE #a")
        tn.line(3, "JOIN #a")
        tn.line(3, "PART #a")
    traces.append(tn)
    # mode strings whose letters take parameters, sent by members of every rank: a letter the sender's rank does not suffice for must
    # not shift the parameters of the letters behind it (seeded C05-i: a skipped +k left its key to be parsed as the limit of +l)
    for k2, ranks in enumerate(["h", "v", "", "o", "hv"]):
        tm = Trace("C05-mode-args-%d" % k2, Config(channels=[dict(name="#m", flags="", founders=["boss"], half_operators=["actor"] if "h" in ranks else [],
                                                                   voices=["actor"] if "v" in ranks else [], operators=["actor"] if "o" in ranks else [])]))
        for c, nk in enumerate(["boss", "actor", "peer"]):
            tm.register(c, nk)
            tm.line(c, "JOIN #m")
        for ml in ("+kl sesame 10", "+lk 10 sesame", "+kl 10 sesame", "-k+l sesame 7", "+klb a 5 m!*@*", "+bkl m!*@* key 3", "+ok peer key", "+kov key peer peer",
                   "+lo 4 peer", "+kI key i!*@*", "+lv x peer", "+l notanumber", "+hl peer 12", "+qk peer key", "+ak peer key", "-l+k key", "+kkl a b 3", "+eIl e!*@* i!*@* 2"):
            tm.line(1, "MODE #m " + ml)
            tm.line(1, "PING alive")
        tm.line(0, "MODE #m")
        tm.line(2, "PRIVMSG #m :still served")
        traces.append(tm)
    # operator status held by default (default_user_modes local_oper / oper, no OPER command): dropped with -O / -o, the user leaves,
    # is killed - the counters move with the status, no handler aborts (seeded C05-j: counted by one predicate, uncounted by another)
    for k2, dm in enumerate(["O", "o", "Oo", "Oi", "Ow"]):
        c5 = Config(operators=[dict(name="admin", password="operpass")])
        c5.default_modes = dm
        td = Trace("C05-default-oper-%d" % k2, c5)
        for c, nk in enumerate(["alice", "bob", "carol", "dave"]):
            td.register(c, nk)
            td.line(c, "JOIN #room")
        td.line(0, "MODE alice -O")
        td.line(0, "PING alive")
        td.line(1, "MODE bob -o")
        td.line(1, "MODE bob -O")
        td.line(1, "PING alive")
        td.line(2, "QUIT :leaving with the status")
        td.line(3, "LUSERS")
        td.line(3, "PRIVMSG #room :still served")
        td.line(0, "PRIVMSG #room :me too")
        td.close(3)
        td.line(0, "LUSERS")
        td.line(1, "PRIVMSG #room :and me")
        traces.append(td)
    def orc(t, steps):
        return eof_oracle(t, steps) + inv_oracle(t, steps)
    r = l2_campaign(res, "C05", 0, 0, prof, traces=traces, oracle=orc)
    # the extraction itself: some of the torture histories are run by Coq's own evaluator and compared with the extracted program
    kernel_crosscheck(res, "C05", r["trace_objs"], r["model"], 8 if res.tier == "quick" else 64)
    # pure functions: no abort on any input (debug, and release in the thorough tier)
    pl = []
    for _ in range(4000 if res.tier == "quick" else 60000):
        pl.append("P " + hx(torture_lines(rng)))
    for _ in range(2000 if res.tier == "quick" else 20000):
        pl.append("N " + hx("".join(rng.choice("ab!@*é.") for _ in range(rng.randint(0, 8)))))
        pl.append("G " + hx("".join(rng.choice("~&@%+#ab é") for _ in range(rng.randint(0, 6)))))
    # the matcher: every pattern over {a,b,*,?} up to length 4 against every text over {a,b} up to length 4, plus patterns
    # derived from the text (literal runs after a '*' that are longer than what is left of the text)
    alpha_p = [""] + ["".join(x) for k in range(1, 5) for x in itertools.product("ab*?", repeat=k)]
    alpha_t = [""] + ["".join(x) for k in range(1, 5) for x in itertools.product("ab", repeat=k)]
    for p_ in alpha_p:
        for t_ in alpha_t:
            pl.append("W %s %s" % (hx(p_), hx(t_)))
    for _ in range(3000 if res.tier == "quick" else 40000):
        t_ = "".join(rng.choice("abé.!@~1") for _ in range(rng.randint(0, 12)))
        cut = rng.randint(0, len(t_))
        p_ = t_[:cut] + "*" + t_[max(0, cut - rng.randint(0, 3)):] + rng.choice(["", "*", "?", "a"])
        pl.append("W %s %s" % (hx(p_), hx(t_)))
    outs = run_pure(pl)
    if res.tier == "thorough":
        outs += run_pure(pl, binary=irc.RSH_REL)
    aborted = [(l, o) for l, o in zip(pl + pl, outs) if o.startswith("PANIC")]
    for l, o in aborted[:3]:
        res.violation("a pure parsing function aborts: %s -> %s" % (l, o), {"kind": "pure", "case": l, "impl": o}, found=True)
    inv = panic_inventory()
    if inv["new"]:
        res.violation("abort sites in /repo/src that the model does not cover: %s" % "; ".join(inv["new"][:5]),
                      {"kind": "inventory", "new_sites": inv["new"], "note": "C05_no_panic covers exactly the sites of inventory/panic_sites.json"}, found=False)
    res.coverage.update({
        "evaluations": r["steps"] + len(pl), "distinct_nontrivial": len(set(pl)) + r["traces"],
        "rule": "%d torture histories: 55%% of the commands are random verb x arity 0..6 x parameter shapes (existing/absent/duplicated names, empty, 300-character and multi-byte parameters, wildcard-heavy "
                "masks, numeric extremes, sign-switching mode strings, comma lists with repeats) in every session state, followed by raw-byte torture (invalid UTF-8, 1999/2001-byte lines, NUL, several "
                "lines per segment, lines split across segments) and liveness probes of bystanders; oracle: no handler abort (panic hook), no stalled connection, no connection closed except by "
                "QUIT / 464 / 417 / invalid UTF-8 / operator KILL or DIE / the client itself, state invariants after every step; plus %d pure-function cases (parse, normalise, target type, wildcard matcher: all patterns over {a,b,*,?} x texts over {a,b} up to length 4 and text-derived overlapping patterns) under catch_unwind; "
                "plus the abort-site inventory of /repo/src compared with inventory/panic_sites.json; distinct = distinct pure cases + histories" % (n, len(pl)),
        "traces_validated_against_impl": r["traces"], "abort_sites_in_source": inv["count"], "abort_sites_new": inv["new"],
        "samples": [traces[0].describe()["events"][20:30]],
        "l2": r["summary"]})
    res.coverage["rule"] += '; plus MODE strings whose letters take parameters (+kl, +lk, +klb, +ok ...) sent by members of every rank: a letter the sender may not use must not shift the parameters of the letters behind it'


def panic_inventory():
    """every explicit abort site of the non-test code, keyed by file+function+snippet, vs the committed table"""
    import hashlib
    sites = []
    for rel in ["src/utils.rs", "src/command.rs", "src/config.rs", "src/reply.rs", "src/state/mod.rs", "src/state/structs.rs",
                "src/state/conn_cmds.rs", "src/state/channel_cmds.rs", "src/state/rest_cmds.rs", "src/state/srv_query_cmds.rs"]:
        path = os.path.join("/repo", rel)
        try:
            text = open(path).read()
        except Exception:
            continue
        cut = text.find("#[cfg(test)]")
        if cut >= 0:
            text = text[:cut]
        fn = "?"
        for ln in text.split("\n"):
            m = re.match(r"\s*(?:pub(?:\([a-z]+\))?\s+)?(?:async\s+)?fn\s+(\w+)", ln)
            if m:
                fn = m.group(1)
            code = ln.split("//")[0]
            for pat in (r"\.unwrap\(\)", r"\.expect\(", r"panic!\(", r"unreachable!\(", r"\[[^\]\[]*\.\.[^\]\[]*\]", r"\w\[[a-z_][a-z_0-9]*(?: [-+] \d+)?\]",
                        r"-= 1", r"\.len\(\) - "):
                for mm in re.finditer(pat, code):
                    snippet = re.sub(r"\s+", " ", code.strip())
                    sites.append("%s::%s::%s" % (rel, fn, snippet))
    sites = sorted(set(sites))
    table_path = os.path.join(irc.VERIF, "inventory", "panic_sites.json")
    try:
        table = json.load(open(table_path))
    except Exception:
        table = {"sites": {}}
    known = set(table["sites"])
    return {"count": len(sites), "new": [s for s in sites if s not in known], "gone": [s for s in known if s not in sites], "sites": sites}


# ====================================================================== C06
def end_oracle(t, steps):
    """every way a session ends leaves no trace; nothing else changes"""
    fails = []
    cm = ConnMap(t.cfg.name)
    prev = None
    for s in sorted(steps, key=lambda s: s["k"]):
        ev = t.events[s["k"]]
        d = s.get("dump")
        if prev is not None and d is not None and not s.get("panics"):
            ended = [(c, cm.nick[c]) for c in (s.get("eof") or []) if c in cm.nick]
            line = ev[2] if ev[0] == "L" and isinstance(ev[2], str) else ""
            only_end = ev[0] in ("X", "B") or first_verb(line) in ("QUIT", "KILL", "DIE", "SQUIT")
            for c, n in ended:
                if n not in prev["users"]:
                    # the connection was registered (it was welcomed) yet the user table did not hold its nick: ownership is already broken
                    fails.append(("connection %d ended as %s, which the user table did not hold before the step" % (c, n), {"step": s["k"]}))
                    continue
                if n in d["users"]:
                    fails.append(("connection %d (%s) ended at step %d but the user is still registered" % (c, n, s["k"]), {"step": s["k"]}))
                for chn, ch in d["channels"].items():
                    if n in ch["users"] or any(n in ch[f] for f in RANKLIST.values()):
                        fails.append(("%s ended but is still on the roster / a rank list of %s" % (n, chn), {"step": s["k"]}))
                if n in d["wallops"]:
                    fails.append(("%s ended but is still in the WALLOPS audience" % n, {"step": s["k"]}))
                hp, ha = prev["histories"].get(n, []), d["histories"].get(n, [])
                if len(ha) != len(hp) + 1 or ha[:-1] != hp or ha[-1] != prev["users"][n]["hist"]:
                    fails.append(("%s ended but WHOWAS history went from %r to %r" % (n, hp, ha), {"step": s["k"]}))
                for chn in prev["users"][n]["channels"]:
                    chp = prev["channels"].get(chn)
                    if chp is None:
                        continue
                    if set(chp["users"]) - set(x[1] for x in ended) == set() and not chp["preconfigured"] and chn in d["channels"]:
                        fails.append(("%s left %s empty but the channel still exists" % (n, chn), {"step": s["k"]}))
            if ended and only_end:
                gone = set(n for _, n in ended)
                for n, u in prev["users"].items():
                    if n in gone:
                        continue
                    u2 = d["users"].get(n)
                    if u2 is None:
                        fails.append(("the end of %r removed the unrelated user %s" % (sorted(gone), n), {"step": s["k"]}))
                    elif {k: v for k, v in u.items() if k != "kill_pending"} != {k: v for k, v in u2.items() if k != "kill_pending"}:
                        fails.append(("the end of %r changed the unrelated user %s: %s" % (sorted(gone), n, irc.diff_dump(u, u2, n)), {"step": s["k"]}))
                for chn, ch in prev["channels"].items():
                    ch2 = d["channels"].get(chn)
                    if ch2 is None:
                        continue
                    for fld in ("topic", "flags", "key", "limit", "ban", "exception", "invex", "default", "ban_info", "preconfigured"):
                        if ch[fld] != ch2[fld]:
                            fails.append(("the end of %r changed %s of channel %s" % (sorted(gone), fld, chn), {"step": s["k"]}))
                    for m2, fl in ch["users"].items():
                        if m2 not in gone and ch2["users"].get(m2) != fl:
                            fails.append(("the end of %r changed the rank of %s on %s" % (sorted(gone), m2, chn), {"step": s["k"]}))
                if d["conns_count"] != prev["conns_count"] - len(set(s.get("eof") or [])):
                    fails.append(("connection slots: %d before, %d after %d endings" % (prev["conns_count"], d["conns_count"], len(set(s.get("eof") or []))), {"step": s["k"]}))
        cm.update(s)
        prev = d
    return fails


def c06_sweep(res):
    traces = []
    ways = ["QUIT", "CLOSE", "MIDLINE", "KILL", "BADUTF8", "TOOLONG", "CAPEND_QUIT", "CAPEND_CLOSE", "DIE"]
    k = 0
    for way in ways:
        for variant in range(6):
            cfg = Config(operators=[dict(name="admin", password="operpass")], default_modes="w" if variant == 1 else "O" if variant >= 4 else "",
                         channels=[dict(name="#pre", topic="P", operators=["victim"])])
            t = Trace("c06-%s-%d" % (way, variant), cfg)
            t.register(0, "victim")
            t.register(1, "friend")
            t.register(2, "admin")
            t.line(2, "OPER admin operpass")
            t.line(0, "JOIN #solo,#shared,#pre")
            t.line(1, "JOIN #shared")
            t.line(0, "MODE #shared +o friend")
            # the leaver holds several ranks at once (founder and operator as creator, plus half-operator and voice)
            t.line(0, "MODE #shared +hv victim victim")
            t.line(0, "MODE #pre +hv victim victim")
            if variant == 1:
                t.line(0, "MODE #shared +a victim")
            t.line(0, "MODE victim +iw")
            t.line(1, "MODE friend +w")
            t.line(0, "AWAY :brb")
            t.line(1, "JOIN #inv")
            t.line(1, "MODE #inv +i")
            t.line(1, "INVITE victim #inv")
            t.line(0, "INVITE friend #solo")
            if variant == 2:
                t.line(0, "OPER admin operpass")
            if variant >= 4:
                # local operator by default, global operator by OPER, then one of the two flags is dropped again
                t.line(0, "OPER admin operpass")
                t.line(0, "MODE victim -o" if variant == 4 else "MODE victim -O")
                t.line(1, "LUSERS")
            if variant == 3:
                t.line(0, "NICK victim2")
                t.line(0, "NICK victim")
            if variant in (0, 3):
                # left a configured channel as its last occupant earlier in the session (seeded C06-e: a stale membership entry
                # that only the teardown trips over)
                t.line(0, "PART #pre")
            if way == "QUIT":
                t.line(0, "QUIT :bye")
            elif way == "CLOSE":
                t.close(0)
            elif way == "MIDLINE":
                # the unterminated bytes are a command that would change OTHERS if it were executed at the close (seeded C06-g)
                t.raw(0, [b"PRIVMSG #shared :unfinished", b"KICK #shared friend :bye", b"MODE #shared -o friend", b"TOPIC #shared :half a topic",
                          b"INVITE friend #pre", b"MODE #shared +b friend!*@*"][variant])
                t.close(0)
            elif way == "KILL":
                t.line(2, "KILL victim :out")
            elif way == "BADUTF8":
                t.raw(0, b"PRIVMSG #shared :\xc3\x28\r\n")
            elif way == "TOOLONG":
                t.raw(0, b"PRIVMSG #shared :" + b"y" * 2100 + b"\r\n")
            elif way == "CAPEND_QUIT":
                t.line(0, "CAP END")
                t.line(0, "QUIT")
            elif way == "CAPEND_CLOSE":
                t.line(0, "CAP LS 302")
                t.line(0, "CAP END")
                t.close(0)
            elif way == "DIE":
                t.line(2, "DIE :stop")
            t.line(1, "NAMES #shared")
            t.line(1, "WHOWAS victim")
            t.line(1, "ISON victim")
            t.line(1, "LIST")
            t.open(3)
            t.line(3, "NICK victim")
            t.line(3, "USER v 8 * :again")
            t.meta = {"way": way, "variant": variant}
            traces.append(t)
    return traces


def check_C06(res):
    sweep = c06_sweep(res)
    n = 120 if res.tier == "quick" else 2500
    prof = {"weights": dict(QUIT=6, KILL=3, OPER=3, JOIN=12, MODE=8, UMODE=6, INVITE=4, AWAY=2, NICK=4, PRIVMSG=3, PART=3, KICK=3, REG=3, DIE=0.2),
            "p_close": 0.14, "max_conns": 6, "initial_conns": 3, "p_default_mode": 0.15}
    def orc(t, steps):
        return end_oracle(t, steps) + inv_oracle(t, steps)
    r = l2_campaign(res, "C06", n, 50, prof, traces=sweep, oracle=orc)
    res.coverage.update({
        "evaluations": r["steps"], "distinct_nontrivial": len(sweep),
        "rule": "sweep: 9 ways of ending (QUIT, socket close, close mid-line, KILL, invalid UTF-8, over-long line, CAP END then QUIT, CAP LS/END then close, DIE) x 4 user states (plain; default +w; IRC "
                "operator; nick changed there and back) of a user that is founder of a solo channel, operator of a shared and of a preconfigured channel, +i +w, away, invited and inviting; followed by "
                "NAMES/WHOWAS/ISON/LIST probes and re-registration under the freed nick; plus %d seeded random histories with frequent QUIT/close/KILL; oracle on the implementation at every ending: the "
                "user is gone from the user table, every roster, rank list and the WALLOPS audience, WHOWAS grew by exactly its entry, channels left empty vanished unless preconfigured, every other user "
                "and every other channel field is unchanged, the connection count dropped by the number of endings; distinct = sweep cells" % n,
        "traces_validated_against_impl": r["traces"],
        "samples": [sweep[2].describe()["events"][18:]],
        "l2": r["summary"]})
    res.assumptions = ["RST, unread output pending and ping timeout endings reach the same remove_user path; ping timeout is exercised in real time by C17"]


# ====================================================================== C11
def oper_oracle(t, steps):
    """operator status only from OPER (or default modes); operator commands need it"""
    fails = []
    cm = ConnMap(t.cfg.name)
    prev = None
    cfg = t.cfg
    for s in sorted(steps, key=lambda s: s["k"]):
        ev = t.events[s["k"]]
        d = s.get("dump")
        if prev is not None and d is not None and not s.get("panics"):
            cid = ev[1] if len(ev) > 1 else None
            actor = cm.nick.get(cid)
            line = ev[2] if ev[0] == "L" and isinstance(ev[2], str) else ""
            verb = first_verb(line) if line else None
            for n, u in d["users"].items():
                for flag in "oO":
                    if flag in u["modes"]:
                        before = None
                        # the same person before this step (same nick, or renamed this step)
                        if n in prev["users"]:
                            before = prev["users"][n]
                        elif verb == "NICK" and actor in prev["users"] and actor not in d["users"]:
                            before = prev["users"][actor]
                        if before is not None and flag in before["modes"]:
                            continue
                        if before is None:
                            if flag in cfg.default_modes:
                                continue
                            fails.append(("%s registered with mode +%s although the default user modes are %r" % (n, flag, cfg.default_modes), {"step": s["k"]}))
                            continue
                        ok = False
                        m = re.match(r"^OPER (\S+) (\S+)", line)
                        if flag == "o" and m and n == actor:
                            oc = [o for o in cfg.operators if o["name"] == m.group(1)]
                            if oc and oc[-1]["password"] == m.group(2) and (oc[-1].get("mask") is None or py_glob(oc[-1]["mask"], before["source"])):
                                ok = True
                        if not ok:
                            fails.append(("%s gained mode +%s by %r (actor %s) - not an OPER with a configured name, its password and a matching mask" % (n, flag, ev, actor), {"step": s["k"]}))
            if actor in prev["users"]:
                am = prev["users"][actor]["modes"]
                if verb in ("KILL", "DIE", "SQUIT") and "o" not in am:
                    dd = irc.diff_dump(prev, d, "state")
                    if dd or s.get("eof"):
                        fails.append(("%r by %s without operator status had an effect: %s eof=%r" % (ev, actor, dd, s.get("eof")), {"step": s["k"]}))
                if verb == "KILL" and "o" in am:
                    m = re.match(r"^KILL (\S+) :?(.*)$", line)
                    if m and m.group(1) in prev["users"]:
                        victim = m.group(1)
                        vc = cm.conn_of(victim)
                        if (s.get("eof") or []) != [vc]:
                            fails.append(("KILL %s by operator %s closed %r, expected exactly connection %r" % (victim, actor, s.get("eof"), vc), {"step": s["k"]}))
                        errs = [l for l in (s.get("out") or {}).get(str(vc), []) if "ERROR :User killed by %s" % actor in l]
                        if len(errs) != 1:
                            fails.append(("KILL %s: the victim was not told who did it: %r" % (victim, (s.get("out") or {}).get(str(vc))), {"step": s["k"]}))
                if verb == "WALLOPS" and re.match(r"^WALLOPS :?\S", line):
                    got = sorted(c for c, ls in (s.get("out") or {}).items() for l in ls if re.match(r"^:\S+ WALLOPS ", l))
                    if "o" in am or "O" in am:
                        exp = sorted(str(cm.conn_of(n)) for n, u in prev["users"].items() if "w" in u["modes"])
                    else:
                        exp = []
                    if got != exp:
                        fails.append(("WALLOPS by %s (%s) reached connections %r, expected %r" % (actor, am, got, exp), {"step": s["k"]}))
                # STATS only for (local) operators: whatever letter is asked for, everyone else gets the privilege error and nothing else
                m = re.match(r"^STATS ([a-zA-Z])$", line)
                if m and "o" not in am and "O" not in am:
                    mine = (s.get("out") or {}).get(str(cid), [])
                    nums = [numeric_of(l) for l in mine]
                    if nums != ["481"] and not any(x == "ERROR" for x in nums):
                        fails.append(("%r by %s, who is no operator (modes %r), is answered %r instead of the privilege error 481" % (line, actor, am, nums), {"step": s["k"]}))
                m = re.match(r"^MODE (\S+) ([-+][-+iwoOr]*)$", line)
                if m and m.group(1) == actor and actor in d["users"]:
                    sign = None
                    last = {}
                    for ch in m.group(2):
                        if ch in "+-":
                            sign = ch
                        else:
                            last[ch] = sign
                    after_modes = d["users"][actor]["modes"]
                    if last.get("o") == "-" and "o" in after_modes:
                        fails.append(("%r by %s: operator status was given up with -o but the user still has modes %s" % (ev, actor, after_modes), {"step": s["k"]}))
                    if last.get("O") == "-" and ("O" in after_modes or ("o" in after_modes and last.get("o") != "+")):
                        fails.append(("%r by %s: operator status was given up with -O but the user still has modes %s" % (ev, actor, after_modes), {"step": s["k"]}))
                m = re.match(r"^MODE ([^#& ]\S*) (\S+)", line)
                if m and m.group(1) != actor and m.group(1) in prev["users"]:
                    if prev["users"][m.group(1)] != d["users"].get(m.group(1)):
                        fails.append(("%r by %s changed another user's modes" % (ev, actor), {"step": s["k"]}))
        cm.update(s)
        prev = d
    return fails


def c11_sweep(res):
    traces = []
    for dm in ("", "O", "o", "w"):
        # masks given without all three parts are compared AS WRITTEN (only list masks are completed): 'admin@127.0.0.1', 'admin'
        # and 'admin!~admin' match no nick!user@host at all (seeded C11-f)
        for mask in (None, "*!*@127.0.0.1", "other!*@*", "admin@127.0.0.1", "admin", "admin!~admin"):
            if dm and mask in ("admin@127.0.0.1", "admin", "admin!~admin"):
                continue
            cfg = Config(default_modes=dm, operators=[dict(name="admin", password="operpass", mask=mask), dict(name="alice", password="topsecret")])
            for nickcase in ("alice", "admin", "zoe"):
                t = Trace("c11-%s-%s-%s" % (dm or "none", "m%s" % (0 if mask is None else hx(mask)), nickcase), cfg)
                t.register(0, nickcase)
                t.register(1, "bob")
                t.register(2, "carol")
                t.line(2, "MODE carol +w")
                for l in ["MODE %s +o" % nickcase, "MODE %s +O" % nickcase, "MODE %s +oO-i+w" % nickcase, "KILL bob :no", "DIE", "WALLOPS :hi",
                          "STATS u", "STATS m", "STATS c", "STATS o", "STATS l", "STATS y", "OPER admin wrongpw", "OPER nobody operpass", "OPER admin operpass", "OPER admin operpass", "MODE %s" % nickcase,
                          "LUSERS", "WALLOPS :ops only", "STATS u", "MODE bob +i", "MODE %s -o" % nickcase, "KILL bob :after -o", "MODE %s -O" % nickcase,
                          "KILL bob :after -O", "STATS c", "STATS k", "STATS u", "OPER admin operpass", "STATS h", "STATS i", "NICK admin2", "MODE admin2 -o+o", "OPER alice topsecret", "KILL bob :now", "SQUIT other.irc :x",
                          "NICK alice", "MODE alice +o"]:
                    t.line(0, l)
                t.line(1, "PING x")
                t.meta = {"default": dm, "mask": mask, "nick": nickcase}
                traces.append(t)
    # "no user can change another user's modes": nicks that differ only in case, in padding or by one character are
    # different users; every MODE form on the twin's nick is refused and the twin keeps +o +w +i
    for twin in ("Alice", "ALICE", "alice_", "alic"):
        cfg = Config(operators=[dict(name="alice", password="topsecret")])
        t = Trace("c11-twin-%s" % twin, cfg)
        t.register(0, "alice")
        t.register(2, twin)
        t.register(3, "carol")
        t.line(0, "OPER alice topsecret")
        t.line(0, "MODE alice +wi")
        for l in ["MODE alice", "MODE alice -o", "MODE alice -ow", "MODE alice -i", "MODE alice +O", "MODE alice -w+i", "MODE %s +w" % twin, "OPER alice wrongpw",
                  "MODE alice -O", "MODE alice +o", "KILL alice :twin", "WALLOPS :from the twin"]:
            t.line(2, l)
            t.line(0, "MODE alice")
        t.line(0, "WALLOPS :still operator")
        t.line(0, "STATS u")
        t.line(0, "MODE %s -w" % twin)
        t.line(0, "LUSERS")
        t.meta = {"default": "", "mask": None, "nick": "twin " + twin}
        traces.append(t)
    return traces


def check_C11(res):
    sweep = c11_sweep(res)
    n = 100 if res.tier == "quick" else 2000
    prof = {"weights": dict(OPER=14, UMODE=16, KILL=5, WALLOPS=5, NICK=6, DIE=0.4, MISC=3, JOIN=4, PRIVMSG=2, QUIT=1.5),
            "p_operators": 1.0, "p_default_mode": 0.2, "max_conns": 5, "initial_conns": 3}
    def orc(t, steps):
        return oper_oracle(t, steps) + inv_oracle(t, steps)
    r = l2_campaign(res, "C11", n, 45, prof, traces=sweep, oracle=orc)
    res.coverage.update({
        "evaluations": r["steps"], "distinct_nontrivial": len(sweep),
        "rule": "sweep: default user modes {none, O, o, w} x operator mask {none, matching, non-matching} x acting nick {equal to a configured operator name (two kinds), other}, each running MODE +o/+O "
                "on itself, privileged commands before OPER, OPER with wrong password / unknown name / right credentials (twice), privileged commands after, -o and -O, nick changes to and from "
                "configured operator names, MODE on a foreign nick; plus %d seeded random histories weighted to OPER/MODE/KILL/WALLOPS/NICK; oracle on the implementation: a user gains +o/+O only by its own "
                "OPER naming a configured operator with that operator's password from a source matching the mask (or by default modes at registration); KILL/DIE/SQUIT without +o change nothing; KILL closes "
                "exactly the victim and tells it who; WALLOPS reaches exactly the +w users and only from (local) operators; counters checked after every step; distinct = sweep cells" % n,
        "traces_validated_against_impl": r["traces"],
        "samples": [sweep[1].describe()["events"][8:20]],
        "l2": r["summary"]})


# ====================================================================== C15
def nick_oracle(t, steps):
    """an accepted NICK change moves the whole identity and nothing else; a refused one changes nothing"""
    fails = []
    cm = ConnMap(t.cfg.name)
    prev = None
    for s in sorted(steps, key=lambda s: s["k"]):
        ev = t.events[s["k"]]
        d = s.get("dump")
        if ev[0] == "L" and isinstance(ev[2], str) and prev is not None and d is not None and not s.get("panics"):
            actor = cm.nick.get(ev[1])
            tok = py_tokenize(ev[2])
            m = tok[0] == "OK" and tok[2].upper() == "NICK" and len(tok[3]) >= 1
            if m and actor in prev["users"]:
                new = tok[3][0]     # as parsed: a trailing parameter may carry blanks
                mine = (s.get("out") or {}).get(str(ev[1]), [])
                valid = py_valid_username(new)
                if not valid or new == actor or new in prev["users"]:
                    dd = irc.diff_dump(prev, d, "state")
                    if dd:
                        fails.append(("refused/no-op %r by %s changed the state: %s" % (ev[2], actor, dd), {"step": s["k"]}))
                    if new in prev["users"] and new != actor and not any(numeric_of(l) == "433" for l in mine):
                        fails.append(("%r to a nickname in use was not answered with 433: %r" % (ev[2], mine), {"step": s["k"]}))
                else:
                    # expected state: rename everywhere
                    import copy
                    e = copy.deepcopy(prev)
                    u = e["users"].pop(actor)
                    u["source"] = new + u["source"][len(actor):]
                    e["users"][new] = u
                    for chn in u["channels"]:
                        ch = e["channels"][chn]
                        ch["users"][new] = ch["users"].pop(actor)
                        for fld in RANKLIST.values():
                            ch[fld] = sorted(new if x == actor else x for x in ch[fld])
                    e["wallops"] = sorted(new if x == actor else x for x in e["wallops"])
                    e["histories"].setdefault(actor, [])
                    e["histories"][actor] = e["histories"][actor] + [u["hist"]]
                    dd = irc.diff_dump(e, d, "state")
                    if dd:
                        fails.append(("%r by %s: the state is not 'everything of %s moved to %s and nothing else' (expected vs actual): %s" % (ev[2], actor, actor, new, dd), {"step": s["k"]}))
                    sharing = set(n for n, uu in prev["users"].items() if n == actor or set(uu["channels"]) & set(prev["users"][actor]["channels"]))
                    for mem in sharing:
                        c2 = cm.conn_of(mem)
                        cnt = sum(1 for l in (s.get("out") or {}).get(str(c2), []) if re.match(r"^:%s!\S* (?i:NICK) :?%s$" % (re.escape(actor), re.escape(new)), l))
                        if cnt != 1:
                            fails.append(("NICK %s -> %s: %s saw the announcement %d times" % (actor, new, mem, cnt), {"step": s["k"]}))
        cm.update(s)
        prev = d
    return fails


def c15_sweep(res):
    traces = []
    for variant in range(6):
        cfg = Config(operators=[dict(name="admin", password="operpass")], default_modes="w" if variant == 5 else "",
                     channels=[dict(name="#pre", voices=["mover"], protecteds=["mover2"])])
        t = Trace("c15-%d" % variant, cfg)
        t.register(0, "mover")
        t.register(1, "friend")
        t.register(2, "other")
        t.open(3)
        t.line(3, "NICK claimed")
        t.line(0, "JOIN #own,#shared,#pre")
        t.line(1, "JOIN #shared,#v")
        t.line(1, "MODE #v +v friend")
        t.line(0, "MODE #shared +h friend")
        t.line(1, "INVITE mover #v")
        t.line(0, "MODE mover +iw")
        t.line(0, "AWAY :gone")
        if variant >= 1:
            t.line(0, "OPER admin operpass")
        if variant >= 2:
            t.line(0, "MODE #shared +vaq mover mover mover")
        if variant == 3:
            t.line(0, "MODE #shared -oq mover mover")
        if variant == 4:
            t.line(0, "PART #own")
            t.line(0, "MODE #shared -qo+v mover mover mover")
        for new in ["mover2", "mover", "friend", "claimed", "bad.nick", "#chan", "Mover2", "mover2", "mover", ":padded ", ": padded", ":pad\tded", ":two words",
                    ":", "x", "mover"]:
            t.line(0, "NICK " + new)
            t.line(1, "PRIVMSG +#shared,@#shared,#shared :ping")
            t.line(2, "WHOWAS mover")
        t.line(1, "NICK mover")
        t.line(1, "WALLOPS :x")
        t.line(0, "JOIN #v")
        t.line(1, "NAMES #shared")
        t.meta = {"variant": variant}
        traces.append(t)
    # a nick held by another user is refused also when it differs from the own nick only in letter case or by one character
    for k2, (a, b) in enumerate([("mover", "Mover"), ("Mover", "mover"), ("mover", "MOVER"), ("mover", "mover_")]):
        t = Trace("c15-near-%d" % k2, Config(operators=[dict(name="admin", password="operpass")]))
        t.register(0, a)
        t.register(1, b)
        t.register(2, "peer")
        for c in (0, 1, 2):
            t.line(c, "JOIN #n")
        t.line(0, "OPER admin operpass")
        t.line(0, "MODE %s +wi" % a)
        t.line(0, "AWAY :gone")
        t.line(0, "NICK " + b)               # held by the other user: 433, nothing changes
        t.line(1, "NICK " + a)               # likewise
        t.line(2, "WHOIS %s,%s" % (a, b))
        t.line(2, "NAMES #n")
        t.line(0, "NICK " + a + "2")          # free: the whole identity moves
        t.line(1, "NICK " + a)               # now free
        t.line(2, "WHOIS %s,%s,%s2" % (a, b, a))
        t.line(0, "WALLOPS :after the renames")
        t.line(2, "NAMES #n")
        t.meta = {"variant": "near-%d" % k2}
        traces.append(t)
    return traces


def check_C15(res):
    sweep = c15_sweep(res)
    n = 120 if res.tier == "quick" else 2500
    prof = {"weights": dict(NICK=24, JOIN=10, MODE=10, UMODE=6, AWAY=3, INVITE=4, OPER=3, PRIVMSG=6, WALLOPS=2, KICK=2, PART=2, QUIT=1, WHOWAS=2),
            "max_conns": 6, "initial_conns": 4, "p_close": 0.04, "p_default_mode": 0.15}
    def orc(t, steps):
        return nick_oracle(t, steps) + inv_oracle(t, steps) + msg_oracle(t, steps)
    r = l2_campaign(res, "C15", n, 50, prof, traces=sweep, oracle=orc)
    res.coverage.update({
        "evaluations": r["steps"], "distinct_nontrivial": sum(1 for t in r["trace_objs"] for e in t.events if e[0] == "L" and str(e[2]).upper().startswith("NICK ")),
        "rule": "sweep: a user that is founder of an own channel, member of a shared and of a preconfigured channel (configured voice), +i +w, away, invited; variants add IRC operator status, every rank on "
                "the shared channel, voice only, default +w; then NICK to {free, own current, taken by a registered user, claimed by an unregistered connection, invalid (dot, channel prefix), case variant, "
                "previously used, there and back} each followed by status-addressed messages and WHOWAS; plus %d seeded random histories weighted to NICK; oracle on the implementation: after an accepted "
                "change the whole state equals the old state with the nickname replaced in the user table, every roster, every rank list, the WALLOPS audience, plus one WHOWAS entry - nothing else; a refused "
                "change leaves the state identical; the change is announced once to everyone sharing a channel; status-addressed deliveries after the change follow the audience rule; distinct = NICK commands run" % n,
        "traces_validated_against_impl": r["traces"],
        "samples": [sweep[2].describe()["events"][16:26]],
        "l2": r["summary"]})
    # "a NICK naming a nickname held by another user is refused and changes nothing" also when the other user takes the name at the
    # same moment: the schedule of C02 on the real binary (seeded C15-i: in-use test and rename under different lock acquisitions)
    probs, stats = c02_nick_race(4 if res.tier == "quick" else 30)
    if probs:
        probs2, stats2 = c02_nick_race(4 if res.tier == "quick" else 30)
        probs = [p_ for p_ in probs if any(re.sub(r"\d+", "#", p_)[:60] == re.sub(r"\d+", "#", q_)[:60] for q_ in probs2)]
    for p_ in probs[:2]:
        res.violation(p_, {"kind": "binary", "scenario": "two registered connections send NICK for one free nickname while a third connection's OPER password check holds the state lock", "stats": stats}, found=True)
    res.coverage["nick_race_scenario"] = stats
    res.coverage["rule"] += "; plus, on the real binary, 'two registered users ask for one free nickname at the same moment behind a busy state lock': exactly one change is carried out and announced, the other is told 433 and keeps its own nick"


# ====================================================================== C19
def true_channels(d):
    """the actual number of channels: those somebody is on (read off the USERS' own records) and the configured ones -
    not the size of the server's channel table, which is what the figure is computed from (seeded C19-e: a table entry
    nobody is on any more)"""
    on = set(c for u in d["users"].values() for c in u["channels"])
    return len(on | set(c for c, ch in d["channels"].items() if ch["preconfigured"]))


def c19_channel_traces(res):
    """channels coming and going by every exit (C16's life-cycle histories), an observer asking LUSERS around each exit"""
    out = []
    for k, t in enumerate(c16_traces(res)):
        if "exits" not in t.meta:
            continue
        if res.tier == "quick" and not t.meta["founder_leaves_first"] and not pick(res, k, 3):
            continue
        t2 = Trace("c19-" + t.id, t.cfg)
        for e in t.events:
            t2.events.append(e)
            if e[0] == "L" and e[1] == 2 and e[2] == "LIST":
                t2.line(2, "LUSERS")
        t2.line(2, "LUSERS")
        t2.meta = dict(t.meta)
        out.append(t2)
    return out


def stats_oracle(t, steps):
    fails = []
    cm = ConnMap(t.cfg.name)
    prev = None
    srv = t.cfg.name
    for s in sorted(steps, key=lambda s: s["k"]):
        ev = t.events[s["k"]]
        d = s.get("dump")
        if ev[0] == "L" and isinstance(ev[2], str) and prev is not None and d is not None and not s.get("panics"):
            actor = cm.nick.get(ev[1])
            mine = (s.get("out") or {}).get(str(ev[1]), [])
            if actor in prev["users"]:
                users = prev["users"]
                if ev[2].strip().upper() == "LUSERS":
                    inv = sum(1 for u in users.values() if "i" in u["modes"])
                    ops = sum(1 for u in users.values() if "o" in u["modes"] or "O" in u["modes"])
                    exp = {"251": ":There are %d users and %d invisible on 1 servers" % (len(users) - inv, inv),
                           "252": "%d :operator(s) online" % ops, "254": "%d :channels formed" % true_channels(prev),
                           "255": ":I have %d clients and 1 servers" % len(users)}
                    for code, text in exp.items():
                        ls = [l for l in mine if numeric_of(l) == code]
                        if len(ls) != 1 or not ls[0].endswith(" " + text):
                            fails.append(("LUSERS %s says %r, the true figures give %r" % (code, ls, text), {"step": s["k"]}))
                    ls = [l for l in mine if numeric_of(l) == "265"]
                    if len(ls) != 1 or not re.search(r" %d (\d+) :Current local users %d, max \1$" % (len(users), len(users)), ls[0]):
                        fails.append(("LUSERS 265 says %r with %d users" % (ls, len(users)), {"step": s["k"]}))
                m = re.match(r"^ISON (.+)$", ev[2])
                if m and ":" not in ev[2]:
                    q = m.group(1).split()
                    exp = [n for n in q if n in users]
                    got = []
                    for l in mine:
                        mm = re.match(r"^:\S+ 303 \S+ :(.*)$", l)
                        if mm:
                            got += [x for x in mm.group(1).split(" ") if x]
                    if got != exp:
                        fails.append(("ISON %r answered %r, registered among them are %r" % (q, got, exp), {"step": s["k"]}))
                # presence: what AWAY acknowledges (306 away / 305 back) is what USERHOST and the 301 replies will say afterwards
                if re.match(r"^AWAY\b", ev[2]) and actor in d["users"]:
                    nums = [numeric_of(l) for l in mine]
                    st = d["users"][actor]["away"]
                    if ("306" in nums and st is None) or ("305" in nums and st is not None):
                        fails.append(("%r by %s is acknowledged with %r but the server now holds the user as %s - USERHOST will flag it %s" % (
                            ev[2], actor, nums, "away" if st is not None else "not away", "-" if st is not None else "+"), {"step": s["k"]}))
                m = re.match(r"^USERHOST (.+)$", ev[2])
                if m and ":" not in ev[2] and not (mine and numeric_of(mine[0]) == "ERROR"):
                    q = m.group(1).split()
                    exp = []
                    for n in q:
                        if n in users:
                            u = users[n]
                            exp.append("%s%s=%s~%s@%s" % (n, "*" if ("o" in u["modes"] or "O" in u["modes"]) else "", "-" if u["away"] is not None else "+", u["name"], u["host"]))
                    got = []
                    for l in mine:
                        mm = re.match(r"^:\S+ 302 \S+ :(.*)$", l)
                        if mm:
                            got += [x for x in mm.group(1).split(" ") if x]
                    if got != exp:
                        fails.append(("USERHOST %r answered %r, expected %r" % (q, got, exp), {"step": s["k"]}))
        cm.update(s)
        prev = d
    return fails


def c19_slot_traces(res):
    traces = []
    rng = random.Random(res.seed + 19)
    for mc in (1, 2, 3):
        for rep in range(4 if res.tier == "quick" else 12):
            cfg = Config(max_connections=mc, password="secret1" if rep % 4 == 3 else None)
            t = Trace("c19-slots-%d-%d" % (mc, rep), cfg)
            opened = []
            nxt = 0
            for _ in range(30):
                r = rng.random()
                if r < 0.45 or not opened:
                    cid = nxt
                    nxt += 1
                    t.open(cid)
                    opened.append(cid)
                    how = rng.choice(["none", "nick", "full", "badpw", "garbage"])
                    if how in ("nick", "full", "badpw"):
                        if cfg.password:
                            t.line(cid, "PASS " + ("wrongpw" if how == "badpw" else "secret1"))
                        t.line(cid, "NICK n%d" % cid)
                    if how in ("full", "badpw"):
                        t.line(cid, "USER u 8 * :U")
                    if how == "garbage":
                        t.raw(cid, b"\xff\xfe\r\n")
                else:
                    cid = rng.choice(opened)
                    opened.remove(cid)
                    if rng.random() < 0.5:
                        t.close(cid)
                    else:
                        t.line(cid, "QUIT")
                        t.close(cid)
            t.meta = {"max_connections": mc}
            traces.append(t)
    return traces


def check_C19(res):
    slots = c19_slot_traces(res) + c19_channel_traces(res)
    n = 120 if res.tier == "quick" else 2500
    prof = {"weights": dict(LUSERS=10, ISON=8, USERHOST=8, UMODE=14, OPER=8, NICK=5, JOIN=8, PART=4, KICK=2, QUIT=3, AWAY=4, KILL=1.5, REG=2),
            "p_close": 0.1, "max_conns": 6, "initial_conns": 3, "p_default_mode": 0.2, "p_operators": 1.0}
    def orc(t, steps):
        return stats_oracle(t, steps) + inv_oracle(t, steps)
    r = l2_campaign(res, "C19", n, 70 if res.tier == "quick" else 200, prof, traces=slots, oracle=orc)
    res.coverage.update({
        "evaluations": r["steps"], "distinct_nontrivial": r["summary"]["reply_codes"].get("251", 0) + r["summary"]["reply_codes"].get("303", 0) + r["summary"]["reply_codes"].get("302", 0),
        "rule": "%d seeded random histories of %d events weighted to registrations, +i/-i, +o/-o, +O/-O, repeated OPER, nick changes, channel creation/destruction, every kind of session ending, with LUSERS / "
                "ISON / USERHOST queries interleaved; plus slot histories for max_connections in {1,2,3}: random opening (nothing sent / NICK only / full registration / wrong password / invalid bytes), "
                "refusing and closing; plus the channel life-cycle histories (ordinary / configured channel x exit of the first x exit of the last member over PART, self-KICK, QUIT, close, KILL, KICK by the other) with LUSERS around every exit; oracle on the implementation: every LUSERS figure equals the count over the user table of the same state, the maximum equals the high-water mark of the history, "
                "ISON/USERHOST list exactly the registered queried nicks with * for operators and - for away, the invisible/operator counters equal the flag counts after every step, conns_count equals the "
                "number of open connections and never exceeds max_connections; distinct_nontrivial = LUSERS/ISON/USERHOST answers checked" % (n, 70 if res.tier == "quick" else 200),
        "traces_validated_against_impl": r["traces"],
        "samples": [slots[0].describe()["events"][:14]],
        "l2": r["summary"]})


# ====================================================================== C12
QUERIES = ["LIST", "LIST #sec", "LIST #sec,#pub", "NAMES", "NAMES #pub", "NAMES #sec,#pub", "WHO #sec", "WHO #pub", "WHO *", "WHO ghost", "WHO gh*", "WHO *o*",
           "WHO *!*@127.*", "WHO Real*", "WHO ?????", "WHOIS ghost", "WHOIS gh*", "WHOIS *", "WHOIS ghost,alice", "WHOIS member", "WHOIS member,ghost,*e*", "WHO member",
           "WHO *webchat*", "PRIVMSG #sec :psst", "NOTICE #sec :psst", "LUSERS_SKIP"]


def c12_pairs(res):
    """pairs of histories that differ only in the hidden part; outsiders ask the same queries in both"""
    pairs = []
    k = 0
    for secret_flags in ("s", "sn", "si", "sm"):
        for ghost_mode in ("plain", "invisible", "invisible_registered"):
            for sharing in (False, True):
                for topic, oper_view in ((None, False), ("secret topic", False), ("secret topic", True)):
                    k += 1
                    if res.tier == "quick" and not pick(res, k, 3):
                        continue
                    def build(hidden_present, tid, oper_view=oper_view, topic=topic):
                        # the hidden user may be a configured one (it then carries +r, which WHOIS reports first: seeded C12-f)
                        cfg = Config(operators=[dict(name="admin", password="operpass")], users=[dict(name="ghostacct", nick="ghost", password=None, mask=None)])
                        t = Trace(tid, cfg)
                        t.register(0, "alice", "webchat")
                        t.register(1, "member", "m")
                        t.register(2, "outsider", "webchat")
                        t.register(3, "outsider2", "o2")
                        t.line(3, "MODE outsider2 +i")
                        if oper_view:
                            # the asking outsider is an IRC operator: operator status opens no secret channel (seeded C12-g)
                            t.line(2, "OPER admin operpass")
                        t.line(0, "JOIN #pub")
                        t.line(1, "JOIN #pub")
                        t.line(2, "JOIN #pub")
                        if hidden_present:
                            t.register(4, "ghost", "ghostacct" if ghost_mode == "invisible_registered" else "webchat", real="Real Ghost")
                            if ghost_mode != "plain":
                                t.line(4, "MODE ghost +i")
                            t.line(4, "JOIN #sec")
                            t.line(4, "MODE #sec +" + secret_flags)
                            if topic:
                                t.line(4, "TOPIC #sec :" + topic)
                            if sharing:
                                t.line(4, "INVITE member #sec")
                                t.line(1, "JOIN #sec")
                                t.line(4, "MODE #sec +v member")
                        qs = []
                        for q in QUERIES:
                            if q == "LUSERS_SKIP":
                                continue
                            for cid in (2, 3):
                                qs.append(len(t.events))
                                t.line(cid, q)
                        t.meta = {"flags": secret_flags, "ghost": ghost_mode, "sharing": sharing, "topic": topic, "hidden": hidden_present, "queries": qs, "oper_view": oper_view}
                        return t
                    pairs.append((build(True, "c12-%d-B" % k), build(False, "c12-%d-A" % k)))
    return pairs


def check_C12(res):
    pairs = c12_pairs(res)
    traces = [t for p in pairs for t in p]
    # a former member is an outsider: the last member of a configured channel (which stays) or of an ordinary one (which goes and
    # is created anew) leaves by PART / KICK / is the only one left after the others went, an invisible user joins, the former
    # member asks (seeded C12-d: the leaver's own channel set kept the name)
    # an invisible user stays invisible through every user-mode change that does not name 'i': OPER, -o, -O, +w / -w (seeded C12-j:
    # dropping operator status with -O rebuilt the mode record without the invisible flag)
    for k2, drops in enumerate([["MODE ghost -O"], ["MODE ghost -o"], ["MODE ghost +w", "MODE ghost -w"], ["MODE ghost -oO+w"]]):
        t = Trace("c12-mode-keeps-invisible-%d" % k2, Config(operators=[dict(name="admin", password="operpass")]))
        t.register(0, "alice")
        t.register(1, "ghost")
        t.register(2, "carol")
        t.line(1, "MODE ghost +i")
        t.line(1, "JOIN #room")
        t.line(2, "JOIN #room")
        t.line(1, "OPER admin operpass")
        for l in drops:
            t.line(1, l)
        t.line(1, "MODE ghost")
        for q in ("WHO ghost", "WHO *", "WHO g*", "WHO #room", "WHOIS ghost", "WHOIS gh*", "NAMES #room", "NAMES", "LUSERS"):
            t.line(0, q)
        traces.append(t)
    for k2, how in enumerate(["PART", "KICKSELF", "KICKED"]):
        for chn in ("#pre", "#ord"):
            t = Trace("c12-ex-member-%s-%s" % (how, chn[1:]), Config(channels=[dict(name="#pre", topic="Pre", flags="nt")]))
            t.register(0, "alice")
            t.register(1, "ghost")
            t.register(2, "carol")
            t.line(1, "MODE ghost +i")
            t.line(0, "JOIN " + chn)
            if how == "KICKED":
                t.line(2, "JOIN " + chn)
                t.line(0, "MODE %s +o carol" % chn)
                t.line(2, "PART " + chn) if chn == "#ord" else t.line(2, "KICK %s alice" % chn)
                t.line(0, "PART " + chn) if chn == "#ord" else t.line(2, "PART " + chn)
            elif how == "KICKSELF":
                t.line(0, "KICK %s alice" % chn)
                t.line(0, "PART " + chn)
            else:
                t.line(0, "PART " + chn)
            t.line(1, "JOIN " + chn)
            for q in ("WHO ghost", "WHO *", "WHO g*", "WHO " + chn, "WHOIS ghost", "WHOIS gh*", "WHOIS carol,ghost", "NAMES " + chn, "NAMES"):
                t.line(0, q)
                t.line(2, q)
            traces.append(t)
    n = 60 if res.tier == "quick" else 1000
    prof = {"weights": dict(LIST=8, NAMES=10, WHO=14, WHOIS=12, JOIN=10, MODE=10, UMODE=8, PRIVMSG=4, PART=2, NICK=2), "max_conns": 6, "initial_conns": 4,
            "p_channels": 1.0}
    r = l2_campaign(res, "C12", n, 45, prof, traces=traces, oracle=lambda t, st: views_oracle(t, st) + inv_oracle(t, st))
    impl = r["impl"]
    known = load_known("C12")
    differing = 0
    compared = 0
    for tb, ta in pairs:
        sb, sa = impl.get(tb.id), impl.get(ta.id)
        if not sb or not sa:
            continue
        if not tb.meta["ghost"].startswith("invisible"):
            # a visible user may of course be seen; only the secret channel must stay hidden
            hide_user = False
        else:
            hide_user = True
        byk_b = {s["k"]: s for s in sb}
        byk_a = {s["k"]: s for s in sa}
        for kb, ka in zip(tb.meta["queries"], ta.meta["queries"]):
            q = tb.events[kb][2]
            cid = tb.events[kb][1]
            if not hide_user and not tb.meta["sharing"] and re.search(r"ghost|gh\*|\*o\*|\*$|Real|\?\?\?\?\?|webchat|127", q):
                continue   # the query may legitimately show the (visible) user
            if not hide_user:
                # only channel-hiding queries are comparable when the user itself is visible
                if not re.match(r"^(LIST|NAMES|WHO #|PRIVMSG|NOTICE)", q):
                    continue
            ob = irc.canon_lines((byk_b[kb].get("out") or {}).get(str(cid), []), tb.cfg.name)
            oa = irc.canon_lines((byk_a[ka].get("out") or {}).get(str(cid), []), ta.cfg.name)
            others_b = {c: l for c, l in (byk_b[kb].get("out") or {}).items() if c != str(cid) and l}
            compared += 1
            if q.startswith(("PRIVMSG", "NOTICE")):
                if others_b:
                    res.violation("an outsider spoke into the secret channel: %r reached %r" % (q, others_b), {"kind": "trace", "trace": tb.describe(), "step": kb}, found=True)
                continue
            # LUSERS-like counters are not in the statement; user counts inside 322 belong to public channels only
            if ob != oa:
                sig = None
                extra = [l for l in oa if l not in ob]
                missing = [l for l in ob if l not in oa]
                if q.startswith("NAMES ") and "#sec" in q and not missing and all(" 366 " in l and " #sec " in l for l in extra):
                    sig = "names-explicit-secret-silence"
                if sig and any(f.get("signature") == sig for f in known):
                    if sig not in [k2.split(" ")[0] for k2 in res.known]:
                        res.known.append("%s NAMES naming a secret channel the asker is not on is answered with silence, an absent channel with 366 (query %r)" % (sig, q))
                    continue
                differing += 1
                if differing <= 3:
                    res.violation("outsider query %r is answered differently when the hidden part exists: with %r / without %r" % (q, ob, oa),
                                  {"kind": "trace-pair", "with_hidden": tb.describe(), "without_hidden": ta.describe(), "query": q, "step": kb,
                                   "trace_file": tb.render()}, found=True)
    res.coverage.update({
        "evaluations": r["steps"], "distinct_nontrivial": compared,
        "rule": "two-world runs ON THE IMPLEMENTATION: %d pairs of histories (secret channel flags {s,sn,si,sm} x hidden user {visible, +i, +i and configured (+r)} x a bystander shares the secret channel or not x topic x the asking outsider is an IRC operator or not) that differ only "
                "in the hidden part; in both worlds two outsiders (one itself +i, one with the same user name as the hidden user) ask %d query forms of LIST/NAMES/WHO/WHOIS (explicit names, comma lists, wildcard "
                "masks over nick, source and real name, no argument) and try to speak into the channel; the canonicalised answers must be equal; plus %d seeded random histories compared impl vs model with "
                "the view oracle; distinct_nontrivial = query answers compared between the two worlds" % (len(pairs), len(QUERIES) - 1, n),
        "traces_validated_against_impl": r["traces"],
        "samples": [pairs[0][0].describe()["events"][18:30]],
        "l2": r["summary"]})
    res.coverage["rule"] += '; plus former members as outsiders: the last member of a configured or ordinary channel leaves by PART / KICK, an invisible user joins, the former member asks'
    res.assumptions = ["403 vs 404/442 on PRIVMSG/MODE/TOPIC and LUSERS' channel count do reveal existence; the property restricts itself to LIST/NAMES/WHO/WHOIS and speaking"]


# ====================================================================== C13
UNI_WS = set([0x9, 0xA, 0xB, 0xC, 0xD, 0x20, 0x85, 0xA0, 0x1680, 0x2028, 0x2029, 0x202F, 0x205F, 0x3000] + list(range(0x2000, 0x200B)))
ASCII_WS = set(" \t\n\x0c\r")
VERB_MIN = dict(CAP=1, AUTHENTICATE=0, PASS=1, NICK=1, USER=4, PING=1, PONG=1, OPER=2, QUIT=0, JOIN=1, PART=1, TOPIC=1, NAMES=0, LIST=0,
                INVITE=2, KICK=2, MOTD=0, VERSION=0, ADMIN=0, CONNECT=1, LUSERS=0, TIME=0, STATS=1, LINKS=0, HELP=0, INFO=0, MODE=1,
                PRIVMSG=2, NOTICE=2, WHO=1, WHOIS=1, WHOWAS=1, KILL=2, REHASH=0, RESTART=0, SQUIT=2, AWAY=0, USERHOST=1, WALLOPS=1,
                ISON=1, DIE=0)


def py_validate_source(s):
    if ":" in s:
        return False
    if "!" in s and "@" in s:
        return s.index("!") < s.index("@")
    return True


def py_tokenize(line):
    """the grammar of the property statement: optional ':'source, command, blank-separated middle parameters, and a
    final parameter introduced by a ':' that follows a blank and runs to the end of the line"""
    i = 0
    while i < len(line) and ord(line[i]) in UNI_WS:
        i += 1
    s = line[i:]
    if s == "":
        return ("ERR", "Empty")
    k = None
    for j in range(1, len(s)):
        if s[j] == ":" and s[j - 1] in ASCII_WS:
            k = j
            break
    rest, trailing = (s, None) if k is None else (s[:k], s[k + 1:])
    words = [w for w in re.split("[ \t\n\x0c\r]+", rest) if w != ""]
    source = None
    if s[0] == ":":
        source = words[0][1:]
        words = words[1:]
        if not py_validate_source(source):
            return ("ERR", "WrongSource")
    if not words:
        return ("ERR", "NoCommand")
    return ("OK", source, words[0], words[1:] + ([trailing] if trailing is not None else []))


def rust_debug_str(s):
    import unicodedata
    o = ['"']
    for ch in s:
        if ch == '"':
            o.append('\\"')
        elif ch == "\\":
            o.append("\\\\")
        elif ch == "\t":
            o.append("\\t")
        elif ch == "\r":
            o.append("\\r")
        elif ch == "\n":
            o.append("\\n")
        elif ch == "\0":
            o.append("\\0")
        elif ch != " " and unicodedata.category(ch) in ("Cc", "Cf", "Cs", "Co", "Cn", "Zl", "Zp", "Zs", "Mn", "Me"):
            o.append("\\u{%x}" % ord(ch))
        else:
            o.append(ch)
    o.append('"')
    return "".join(o)


def rust_debug_message(tok):
    _, src, cmd, params = tok
    return "Message { source: %s, command: %s, params: [%s] }" % (
        "None" if src is None else "Some(%s)" % rust_debug_str(src), rust_debug_str(cmd), ", ".join(rust_debug_str(p) for p in params))


C13_VERBS = list(VERB_MIN)
C13_MID = ["#a", "#b", "&loc", "alice", "bob", "a:b", "x:", "#a:b", "#a,#b", "+o-v", "+k", "*", "?", "é", "漢字", "😀", "1", "0", "302", "LS", "END",
           "~@#a", "a!b@c", "irc.irc", "a" * 60, "\x01ACTION", "=", "-", "q\"uo", "back\\slash"]
C13_TRAIL = ["", " ", ":", "::", "hello world", " leading blank", "trailing blank ", "a:b :c", ": x", "tab\tinside", "cr\rinside", "ff\x0cinside",
             "é 漢字 😀", "x" * 400, ":)", "#a", "nbsp x", "　wide"]
C13_SEPS = [" ", " ", " ", "  ", "\t", " \t ", "\x0c", "\r", "   "]


def c13_line(rng):
    r = rng.random()
    if r < 0.04:
        return rng.choice(["", " ", "\t", " ", "　 ", ":", ": ", ":src", ":src ", " :x", ":a:b CMD", ":a@b!c CMD x", "::", ":é!ü@漢 privmsg"])
    v = rng.choice(C13_VERBS) if rng.random() < 0.9 else rng.choice(["FOO", "PRIVMSGX", "1459", "é", "JOI", "join#a", "P:Q"])
    if rng.random() < 0.5:
        v = "".join(ch.lower() if rng.random() < 0.5 else ch for ch in v)
    n = rng.choice([0, 0, 1, 1, 2, 2, 3, 4, 5, 7, 16])
    parts = [v] + [rng.choice(C13_MID) for _ in range(n)]
    line = parts[0]
    for p in parts[1:]:
        line += rng.choice(C13_SEPS) + p
    if rng.random() < 0.55:
        line += rng.choice(C13_SEPS) + ":" + rng.choice(C13_TRAIL)
    elif rng.random() < 0.15:
        line += rng.choice(C13_SEPS)
    if rng.random() < 0.2:
        line = ":" + rng.choice(["n!u@h", "srv.x", "é", "n@h", "a!b", "bad:src", "a@b!c"]) + rng.choice(C13_SEPS) + line
    if rng.random() < 0.15:
        line = rng.choice([" ", "  ", "\t", " ", "　", "\r"]) + line
    return line


def aupper(x):
    return "".join(ch.upper() if "a" <= ch <= "z" else ch for ch in x)


def c13_classify(tok):
    """what the property prescribes for a tokenised line: ('unknown', name) | ('needmore',) | None (executed or parameter-specific answer)"""
    verb = aupper(tok[2])
    if verb not in VERB_MIN:
        return "UnknownCommand(%s)" % rust_debug_str(aupper(tok[2]))
    if len(tok[3]) < VERB_MIN[verb]:
        return "NeedMoreParams"
    return None


RELAY_VERBS = ("PRIVMSG", "NOTICE", "TOPIC", "PART", "KICK", "NICK", "INVITE", "WALLOPS")


def py_command_debug(tok):
    """the command a well-formed line stands for, rendered like Rust's Debug, for the verbs whose parameters are taken by position"""
    verb, ps = aupper(tok[2]), tok[3]
    q = rust_debug_str
    def opt(i):
        return "Some(%s)" % q(ps[i]) if len(ps) > i else "None"
    def lst(x):
        return "[%s]" % ", ".join(q(y) for y in x)
    try:
        if verb == "TOPIC":
            return "TOPIC { channel: %s, topic: %s }" % (q(ps[0]), opt(1))
        if verb in ("PRIVMSG", "NOTICE"):
            return "%s { targets: %s, text: %s }" % (verb, lst(ps[0].split(",")), q(ps[1]))
        if verb == "KICK":
            return "KICK { channel: %s, users: %s, comment: %s }" % (q(ps[0]), lst(ps[1].split(",")), opt(2))
        if verb == "PART":
            return "PART { channels: %s, reason: %s }" % (lst(ps[0].split(",")), opt(1))
        if verb == "INVITE":
            return "INVITE { nickname: %s, channel: %s }" % (q(ps[0]), q(ps[1]))
        if verb == "NICK":
            return "NICK { nickname: %s }" % q(ps[0])
        if verb == "AWAY":
            return "AWAY { text: %s }" % opt(0)
        if verb == "KILL":
            return "KILL { nickname: %s, comment: %s }" % (q(ps[0]), q(ps[1]))
        if verb == "WHO":
            return "WHO { mask: %s }" % q(ps[0])
        if verb in ("ISON", "USERHOST"):
            return "%s { nicknames: %s }" % (verb, lst(ps))
        if verb == "WALLOPS":
            return "WALLOPS { text: %s }" % q(ps[0])
        if verb == "JOIN":
            return "JOIN { channels: %s, keys: %s }" % (lst(ps[0].split(",")), "Some(%s)" % lst(ps[1].split(",")) if len(ps) > 1 else "None")
    except IndexError:
        return None
    return None


def relay_oracle(t, steps):
    """every emitted line is CRLF-terminated; a relayed command re-parsed by its receiver yields what the originator sent"""
    fails = []
    cm = ConnMap(t.cfg.name)
    prev = None
    away_sent = {}
    for s in sorted(steps, key=lambda s: s["k"]):
        ev = t.events[s["k"]]
        for c, ls in (s.get("out") or {}).items():
            for l in ls:
                if "<NOCR>" in l:
                    fails.append(("a line emitted to connection %s is not CRLF-terminated: %r" % (c, l[:120]), {"step": s["k"]}))
        if ev[0] == "L" and isinstance(ev[2], str) and prev is not None and not s.get("panics"):
            actor = cm.nick.get(ev[1])
            tok = py_tokenize(ev[2])
            if tok[0] == "OK" and actor in prev["users"] and aupper(tok[2]) in RELAY_VERBS and c13_classify(tok) is None:
                verb, ps = aupper(tok[2]), tok[3]
                src = prev["users"][actor]["source"]
                for c, ls in (s.get("out") or {}).items():
                    for l in ls:
                        l = l.replace("<NOCR>", "")
                        if not l.startswith(":" + src + " "):
                            continue
                        rt = py_tokenize(l)
                        if rt[0] != "OK" or rt[1] != src or rt[2].upper() != verb:
                            fails.append(("relay of %r re-parses as %r" % (ev[2], rt), {"step": s["k"], "relayed": l}))
                            continue
                        rp = rt[3]
                        exp = None
                        if verb in ("PRIVMSG", "NOTICE"):
                            exp_text = ps[1]
                            if len(rp) < 2 or rp[1] != exp_text or rp[0] not in ps[0].split(","):
                                exp = "target in %r and text %r" % (ps[0], exp_text)
                        elif verb == "TOPIC" and len(ps) >= 2:
                            if rp[:2] != [ps[0], ps[1]]:
                                exp = repr([ps[0], ps[1]])
                            # ... and what was relayed is what the server did: the topic it stores (and reports from then on) is the
                            # one the receivers of the relay read (seeded C13-h)
                            chd = (s.get("dump") or {}).get("channels", {}).get(ps[0])
                            wantt = [ps[1], actor] if ps[1] != "" else None
                            if exp is None and chd is not None and chd["topic"] != wantt:
                                fails.append(("%r was relayed to the members as a change of the topic to %r, the server stores %r" % (ev[2], ps[1], chd["topic"]), {"step": s["k"]}))
                        elif verb == "PART":
                            if len(rp) < 1 or rp[0] not in ps[0].split(",") or (len(ps) >= 2 and rp[1:] != [ps[1]]) or (len(ps) < 2 and len(rp) > 1):
                                exp = "channel in %r and reason %r" % (ps[0], ps[1:2])
                        elif verb == "KICK":
                            if len(rp) < 2 or rp[0] != ps[0] or rp[1] not in ps[1].split(",") or (len(ps) >= 3 and rp[2:] != [ps[2]]):
                                exp = "channel %r, a victim of %r, comment %r" % (ps[0], ps[1], ps[2:3])
                        elif verb == "NICK":
                            if rp[:1] != [ps[0]]:
                                exp = repr([ps[0]])
                        elif verb == "INVITE":
                            if rp[:2] != [ps[0], ps[1]]:
                                exp = repr(ps[:2])
                        elif verb == "WALLOPS":
                            if rp[:1] != [ps[0]]:
                                exp = repr([ps[0]])
                        if exp:
                            fails.append(("relay of %r to connection %s re-parses with parameters %r, the originator sent %s" % (ev[2], c, rp, exp),
                                          {"step": s["k"], "relayed": l}))
            # the AWAY text through 301: what the away user SENT last (history), not what the server happens to store
            if tok[0] == "OK" and aupper(tok[2]) == "PRIVMSG" and len(tok[3]) >= 2 and actor in prev["users"]:
                for tg in tok[3][0].split(","):
                    u = prev["users"].get(tg)
                    if u and u.get("away") is not None:
                        sent_text = away_sent.get(cm.conn_of(tg), u["away"])
                        for l in (s.get("out") or {}).get(str(ev[1]), []):
                            rt = py_tokenize(l.replace("<NOCR>", ""))
                            if rt[0] == "OK" and rt[2] == "301" and len(rt[3]) >= 2 and rt[3][1] == tg and rt[3][-1] != sent_text:
                                fails.append(("301 for %s carries %r, the AWAY text it sent last was %r" % (tg, rt[3][-1], sent_text), {"step": s["k"]}))
            if tok[0] == "OK" and aupper(tok[2]) == "AWAY" and actor in prev["users"]:
                mine_num = [numeric_of(l.replace("<NOCR>", "")) for l in (s.get("out") or {}).get(str(ev[1]), [])]
                if "306" in mine_num and tok[3]:
                    away_sent[ev[1]] = tok[3][0]
                elif "305" in mine_num:
                    away_sent.pop(ev[1], None)
        if ev[0] in ("X", "O"):
            away_sent.pop(ev[1], None)
        cm.update(s)
        if s.get("dump"):
            prev = s["dump"]
    return fails


def c13_relay_traces(res):
    rng = random.Random(res.seed + 13)
    texts = ["plain", "two words", ":leading colon", "a:b", "trailing colon:", " leading blank", "", ":", "x :y :z", "é 漢字 😀", "tab\there", "a" * 300,
             "1", "#a", "semi;colon", "\x01ACTION waves\x01"]
    traces = []
    n = 12 if res.tier == "quick" else 120
    for i in range(n):
        cfg = Config(operators=[dict(name="admin", password="operpass", mask=None)])
        t = Trace("C13-relay-%d" % i, cfg)
        for c, nk in enumerate(["alice", "bob", "carol"]):
            t.register(c, nk)
            t.line(c, "JOIN #a")
        t.line(0, "OPER admin operpass")
        t.line(1, "MODE bob +w")
        t.line(2, "AWAY :" + rng.choice(texts[:-1] + ["gone fishing"]))
        t.line(0, "MODE #a +o bob")
        for _ in range(26):
            c = rng.choice([0, 0, 1, 2])
            me = ["alice", "bob", "carol"][c]
            tx = rng.choice(texts)
            k = rng.randint(0, 9)
            colon = " :" if (" " in tx or tx == "" or tx.startswith(":") or rng.random() < 0.6) else " "
            if k == 0:
                t.line(c, "PRIVMSG #a" + colon + tx)
            elif k == 1:
                t.line(c, "NOTICE bob,#a" + colon + tx)
            elif k == 2:
                t.line(c, "TOPIC #a" + colon + tx)
            elif k == 3:
                t.line(c, "PART #a" + colon + tx)
                t.line(c, "JOIN #a")
            elif k == 4:
                t.line(0, "KICK #a carol" + colon + tx)
                t.line(2, "JOIN #a")
            elif k == 5:
                t.line(0, "WALLOPS" + colon + tx)
            elif k == 6:
                t.line(c, "PRIVMSG carol" + colon + tx)
            elif k == 7:
                t.line(c, "INVITE dave #a")
            elif k == 8:
                t.line(2, "AWAY" + colon + tx)
            else:
                t.line(c, "PRIVMSG #a,alice,carol" + colon + tx)
        t.line(1, "NICK robert")
        t.line(1, "PRIVMSG #a :renamed")
        traces.append(t)
    return traces


def c13_framing_pairs(res):
    """the same byte stream of one client under two segmentations; plus lines at, under and over the limit"""
    rng = random.Random(res.seed + 131)
    pairs = []
    n = 10 if res.tier == "quick" else 100
    cmds = [b"JOIN #a", b"PRIVMSG #a :hello there", b"TOPIC #a :new topic: x", b"MODE #a +tn", b"NAMES #a", b"PART #a :bye now", b"JOIN #a,#b", b"LUSERS",
            b"  ", b"", b"WHO #a", b"privmsg bob :\xc3\xa9\xe6\xbc\xa2", b"FOO bar", b"USER", b"MODE #a +l", b"PING tok", b"KICK #a bob :out"]
    for i in range(n):
        seq = [rng.choice(cmds) for _ in range(rng.randint(4, 10))]
        kind = rng.random()
        if kind < 0.3:
            L = rng.choice([1998, 1999, 2000])
            seq.insert(rng.randint(0, len(seq)), b"PRIVMSG bob :" + b"y" * (L - 13))
        stream = b"".join(x + (b"\r\n" if rng.random() < 0.8 else b"\n") for x in seq)
        cuts = sorted(set(rng.randint(1, len(stream) - 1) for _ in range(rng.randint(1, 8))))
        ts = []
        for variant in ("whole", "split"):
            t = Trace("C13-frame-%d-%s" % (i, variant), Config())
            t.register(0, "alice")
            t.register(1, "bob")
            t.line(1, "JOIN #a")
            if variant == "whole":
                t.raw(0, stream)
            else:
                t.raw(0, stream, cuts)
            t.line(0, "PING end")
            t.line(1, "PING end")
            t.line(1, "NAMES #a")
            t.meta = {"stream": stream.decode("utf-8", "replace")[:400], "cuts": cuts}
            ts.append(t)
        pairs.append(tuple(ts))
    # over-long line: 417, nothing of it executed, the connection may be closed
    longs = []
    for i, L in enumerate([2001, 2500, 5000] if res.tier == "quick" else [2001, 2002, 2048, 2500, 5000, 20000]):
        t = Trace("C13-long-%d" % i, Config())
        t.register(0, "alice")
        t.register(1, "bob")
        t.line(1, "JOIN #a")
        t.raw(0, b"JOIN #a " + b"k" * (L - 8) + b"\r\nJOIN #b\r\n")
        t.line(1, "NAMES #a")
        t.line(1, "WHOIS alice")
        longs.append(t)
    return pairs, longs


def check_C13(res):
    rng = random.Random(res.seed + 1300)
    n = 40000 if res.tier == "quick" else 400000
    lines = list(dict.fromkeys(c13_line(rng) for _ in range(n)))
    # A. tokenizer: implementation vs the grammar of the statement (python) and vs the model
    ml = ["M " + hx(l) for l in lines]
    mi, mm = run_pure(ml), run_pure(ml, model=True)
    tie_fail = 0
    spec_fail = 0
    toks = []
    for l, a, b in zip(lines, mi, mm):
        tok = py_tokenize(l)
        toks.append(tok)
        exp = ("ERR " + tok[1]) if tok[0] == "ERR" else "OK " + json.dumps(rust_debug_message(tok), ensure_ascii=False)
        got = a
        if a.startswith("OK "):
            got = "OK " + json.dumps(json.loads(a[3:]), ensure_ascii=False)
        if got != exp:
            spec_fail += 1
            if spec_fail <= 3:
                res.violation("the line %r is tokenised as %s; the IRC grammar gives %s" % (l, got, exp),
                              {"kind": "pure", "case": "M " + hx(l), "line": l, "impl": a, "grammar": exp, "model": b}, found=True)
        elif a != b:
            tie_fail += 1
    # A2. the extraction itself: a sample of lines is tokenised by Coq's own evaluator on the compiled theories (vm_compute) and
    # compared with what the extracted program printed
    ks = sorted(random.Random(res.seed + 1301).sample(range(len(lines)), min(len(lines), 250 if res.tier == "quick" else 2000)))
    kv = coq_eval("C13t", "Str Parse", "option (option str * str * list str)",
                  ["match tokenize %s with inl m => Some (m_source m, m_command m, m_params m) | inr _ => None end" % coq_lit(lines[k]) for k in ks])
    kernel_tok = 0
    if kv is None:
        res.violation("the tokenizer could not be evaluated inside Coq (cases file does not compile)", {"kind": "tie"}, found=False)
    else:
        for k, v in zip(ks, kv):
            kernel_tok += 1
            if v is None:
                same = mm[k].startswith("ERR ")
            else:
                src, cmd, params = v
                tup = ("OK", None if src is None else "".join(map(chr, src)), "".join(map(chr, cmd)), ["".join(map(chr, x)) for x in params])
                same = mm[k].startswith("OK ") and json.loads(mm[k][3:]) == rust_debug_message(tup)
            if not same:
                res.violation("the extracted program and Coq's own evaluation of the tokenizer disagree on %r: extracted %s" % (lines[k], mm[k][:200]), {"kind": "tie", "line": lines[k]}, found=False)
                break
    res.coverage["evaluated_inside_coq"] = {"lines_tokenised": kernel_tok}
    # B. command parser: classification (421 / 461 / executed-or-specific) and the tie
    pl = ["P " + hx(l) for l in lines]
    pi, pm = run_pure(pl), run_pure(pl, model=True)
    classes = collections.Counter()
    for l, tok, a, b in zip(lines, toks, pi, pm):
        if tok[0] != "OK":
            classes["tokenizer-" + tok[1]] += 1
            continue
        want = c13_classify(tok)
        body = json.loads(a[a.index(" ") + 1:]) if (a.startswith("OK ") or a.startswith("CERR ")) else a
        bad = None
        if a.startswith("PANIC"):
            bad = "aborts"
        elif want and want.startswith("UnknownCommand"):
            classes["421"] += 1
            if not (a.startswith("CERR ") and body == want):
                bad = "is answered %s, the verb is not an IRC command of this server (421 expected)" % a
        elif want == "NeedMoreParams":
            classes["461"] += 1
            if not (a.startswith("CERR ") and body.startswith("NeedMoreParams(%sId)" % aupper(tok[2]))):
                bad = "is answered %s with %d parameter(s), %s needs %d (461 expected)" % (a, len(tok[3]), aupper(tok[2]), VERB_MIN[aupper(tok[2])])
        else:
            if a.startswith("OK "):
                classes["executed"] += 1
                if not body.startswith(aupper(tok[2]) + (" " if "{" in body else "")) and body != aupper(tok[2]):
                    bad = "is parsed as %s, the verb is %s" % (body, aupper(tok[2]))
                else:
                    # ... executed as named WITH ITS OWN PARAMETERS: for the verbs whose parameters are positional the command carries the
                    # first parameters of the line in order, surplus ones are ignored (seeded C13-h: TOPIC took the last parameter)
                    wantc = py_command_debug(tok)
                    if wantc is not None and body != wantc:
                        bad = "is parsed as %s, its parameters in order give %s" % (body, wantc)
                    elif wantc is not None:
                        classes["parameters-checked"] += 1
            elif a.startswith("CERR "):
                kind = body.split("(")[0].split(" ")[0]
                classes["invalid-" + kind] += 1
                if kind in ("UnknownCommand", "NeedMoreParams"):
                    bad = "is answered %s although the verb is known and has its %d parameter(s)" % (body, VERB_MIN[aupper(tok[2])])
            else:
                bad = "is answered %s" % a
        if bad:
            spec_fail += 1
            if spec_fail <= 5:
                res.violation("the line %r %s" % (l, bad), {"kind": "pure", "case": "P " + hx(l), "line": l, "impl": a, "model": b}, found=True)
        elif a != b:
            tie_fail += 1
    # B2. the parameter validators behind "invalid parameter": names and channel names against the rules as stated
    #     (a name is non-empty, has no ASCII blank of any kind anywhere, no '.', ',', ':' and does not start with '#' or '&';
    #      a channel name is non-empty, starts with '#' or '&' and has no blank, ',' or ':')
    blanks = [" ", "\t", "\n", "\x0c", "\r"]
    names = ["", "a", "bob", "é", "a.b", "a,b", "a:b", "#a", "&a", "a#b", "a!b@c", "*", "[x]"]
    for w in blanks:
        names += ["a" + w + "b", w + "bob", "bob" + w, w, "a" + w, w + w + "x", "#a" + w + "b", "#a" + w, w + "#a"]
    names += ["#", "&", "##", "#a,b", "#a:b", "#é", "#a.b"]
    for _ in range(300 if res.tier == "quick" else 5000):
        names.append("".join(rng.choice("ab#&.,: \t\r\x0cé*") for _ in range(rng.randint(0, 5))))
    names = list(dict.fromkeys(names))
    for kind, rule in (("username", py_valid_username), ("channel", py_valid_channel)):
        vl = ["V %s %s" % (kind, hx(x)) for x in names]
        vi, vm = run_pure(vl), run_pure(vl, model=True)
        for x, a, b in zip(names, vi, vm):
            if (a == "true") != rule(x):
                spec_fail += 1
                if spec_fail <= 6:
                    res.violation("validate_%s(%r) = %s; by the naming rules it is %s" % (kind, x, a, "valid" if rule(x) else "invalid"),
                                  {"kind": "pure", "case": "V %s %s" % (kind, hx(x)), "name": x, "impl": a, "model": b}, found=True)
            elif a != b:
                tie_fail += 1
    # C. serialise with a source and re-parse with the real functions: same command and parameters
    srcs = ["n!u@h", "é!ü@漢", "srv.irc"]
    okl = [(l, tok) for l, tok in zip(lines, toks) if tok[0] == "OK"]
    sl = ["S %s %s" % (hx(srcs[i % 3]), hx(l)) for i, (l, tok) in enumerate(okl)]
    si, sm = run_pure(sl), run_pure(sl, model=True)
    rl = []
    for a in si:
        try:
            rl.append(json.loads(a))
        except Exception:
            rl.append(None)
    back = run_pure(["M " + hx(x if x is not None else "") for x in rl])
    rt_fail = 0
    for i, ((l, tok), ser, a, b, bk) in enumerate(zip(okl, rl, si, sm, back)):
        want = ("OK", srcs[i % 3], tok[2], tok[3])
        exp = "OK " + json.dumps(rust_debug_message(want), ensure_ascii=False)
        got = ("OK " + json.dumps(json.loads(bk[3:]), ensure_ascii=False)) if bk.startswith("OK ") else bk
        if ser is None or got != exp:
            rt_fail += 1
            if rt_fail <= 3:
                res.violation("the message of %r, serialised for relay as %r, re-parses as %s instead of %s" % (l, ser, got, exp),
                              {"kind": "pure", "case": sl[i], "line": l, "serialised": ser, "reparsed": bk}, found=True)
        elif a != b:
            tie_fail += 1
    if tie_fail and not (spec_fail or rt_fail):
        res.violation("correspondence Parse.v vs command.rs differs on %d pure inputs" % tie_fail,
                      {"kind": "tie", "note": "the implementation agrees with the grammar oracle on every explored input"}, found=False)
    # C2. the encoder: every emitted line is one CRLF-terminated message, and the codec's own decoder gives the lines back
    rng_e = random.Random(res.seed + 1313)
    enc_cases = []
    for _ in range(200 if res.tier == "quick" else 3000):
        ls = []
        for _ in range(rng_e.randint(1, 5)):
            kind = rng_e.random()
            body = "".join(rng_e.choice("abc :#é\r\t😀!@") for _ in range(rng_e.randint(0, 40)))
            if kind < 0.1:
                body += "\r"
            elif kind < 0.15:
                body = "x" * rng_e.choice([1996, 1997, 1998])
            elif kind < 0.25:
                # longer than the input limit (the server may emit such lines: prefix + a text close to the limit), multi-byte
                # characters across byte 2000 (seeded C05-f)
                body = "x" * rng_e.randint(0, 3) + "é" * rng_e.randint(990, 1010) + "😀" * rng_e.randint(0, 3)
            ls.append(body)
        enc_cases.append(ls)
    enc_lines = ["E " + " ".join(hx(l) if l else "" for l in ls) for ls in enc_cases if all(ls)]
    enc_cases = [ls for ls in enc_cases if all(ls)]
    ei = run_pure(enc_lines)
    em = run_pure(enc_lines, model=True)
    enc_fail = 0
    for ls, a, b in zip(enc_cases, ei, em):
        want_bytes = "".join((l.encode("utf-8") + b"\r\n").hex() for l in ls)
        want = "%s | %s | 0" % (want_bytes, " ".join(l.encode("utf-8").hex() for l in ls))
        if any(len(l.encode("utf-8")) > 1998 for l in ls):
            # beyond the decoder's own limit only what is written is judged
            a, b, want = a.split(" | ")[0], b.split(" | ")[0], want_bytes
        if a != want:
            enc_fail += 1
            if enc_fail <= 2:
                res.violation("the encoder does not write each line as one CRLF-terminated message that its own decoder gives back: lines %r -> %s" % (ls, a[:300]),
                              {"kind": "pure", "case": "E " + " ".join(hx(l) for l in ls), "impl": a[:2000], "expected": want[:2000]}, found=True)
        elif a != b:
            res.violation("correspondence Frame.encode / Frame.feed vs IRCLinesCodec differs", {"kind": "tie", "lines": ls, "impl": a[:500], "model": b[:500]}, found=False)
    # D. on the wire
    relay = c13_relay_traces(res)
    pairs, longs = c13_framing_pairs(res)
    flat = [t for p in pairs for t in p]
    prof = {"weights": dict(BAD=6, PRIVMSG=8, TOPIC=4, PART=3, KICK=3, NICK=2, JOIN=6, MODE=4, MISC=1), "max_conns": 4, "initial_conns": 3}
    ntr = 30 if res.tier == "quick" else 400
    r = l2_campaign(res, "C13", ntr, 45, prof, traces=relay + flat + longs, oracle=relay_oracle)
    impl = r["impl"]
    meta_fail = 0
    for a, b in pairs:
        sa, sb = impl.get(a.id), impl.get(b.id)
        if not sa or not sb:
            continue

        def view(steps):
            outs = collections.defaultdict(list)
            last = None
            closed = set(str(c) for s in steps for c in (s.get("eof") or []))
            for s in sorted(steps, key=lambda s: s["k"]):
                for c, ls in (s.get("out") or {}).items():
                    if c in closed:
                        # relays still queued for a connection that closes itself are dropped with it
                        ls = [l for l in ls if l.startswith(":" + a.cfg.name + " ") or l.startswith("ERROR")]
                    outs[c] += ls
                if s.get("dump"):
                    last = s["dump"]
            # hash-map order (353 / 352) is not part of the property: merged, sorted, as a multiset per connection
            return {c: collections.Counter(irc.canon_lines(ls, a.cfg.name)) for c, ls in outs.items()}, last
        va, vb = view(sa), view(sb)
        if va != vb:
            meta_fail += 1
            if meta_fail <= 2:
                res.violation("the same bytes give a different outcome when split across TCP segments at %r" % (b.meta["cuts"],),
                              {"kind": "trace", "trace": b.describe(), "whole": a.describe(), "trace_file": b.render()}, found=True)
    for t in longs:
        st = impl.get(t.id) or []
        seen417 = any(numeric_of(l) == "417" for s in st for l in (s.get("out") or {}).get("0", []))
        last = [s["dump"] for s in st if s.get("dump")]
        joined = last and any("alice" in ch["users"] for ch in last[-1]["channels"].values())
        if not seen417 or joined:
            res.violation("an over-long line is %s" % ("not answered with 417" if not seen417 else "partly executed (alice joined a channel)"),
                          {"kind": "trace", "trace": t.describe(), "trace_file": t.render()}, found=True)
    res.coverage.update({
        "evaluations": 3 * len(lines) + r["steps"], "distinct_nontrivial": len(lines) + r["traces"],
        "rule": "grammar-based lines (41 verbs in random letter case plus unknown verbs, 0..16 middle parameters from a pool with colons inside, blanks of every ASCII kind and repeated, optional "
                "trailing parameter incl. empty / leading colon / tabs / CR / FF / NBSP / 400 characters, optional source incl. invalid ones, leading Unicode blanks): each distinct line goes through "
                "(A) the real tokenizer vs a 25-line python statement of the grammar and vs the model, (B) the real Command::from_message vs the 421 / 461 / otherwise rule and vs the model, "
                "(C) real to_string_with_source then the real tokenizer again (same command and parameters); on the wire: relay histories (PRIVMSG, NOTICE, TOPIC, PART, KICK, NICK, INVITE, WALLOPS, AWAY text "
                "through 301) with the receiver-side re-parse oracle and the CRLF oracle, %d segmentation pairs (same bytes whole vs split at random offsets, bare LF and CRLF, lines of 1998..2000 bytes), "
                "over-long lines (417, nothing executed), plus %d random histories; all compared with the model step by step" % (len(pairs), ntr),
        "traces_validated_against_impl": r["traces"], "classes": dict(classes),
        "samples": [{"line": lines[i], "tokens": toks[i], "parsed": pi[i]} for i in range(0, 40, 8)],
        "l2": r["summary"]})
    res.assumptions = ["the python grammar oracle and its Rust-Debug renderer are part of the trusted base of the check (not of the theorems)"]


# ====================================================================== C20
import socket, ssl, subprocess, time as _time

RSBIN_DIR = os.path.join(irc.BUILD, "rsbin")
SERVER_BIN = os.path.join(RSBIN_DIR, "debug", "simple-irc-server")
GOOD_HASH = "VgWezXctjWvsY6V7gzSQPnluUuAwq06m5IxwcIg3OfBIMM+zWCJntk8HEZDgh4ctFei3bqt1r0O1VIyOV7dL+w"


def build_server_binary():
    env = dict(os.environ, CARGO_NET_OFFLINE="true")
    p = subprocess.run(["cargo", "build", "--offline", "--features", "tls_rustls", "--manifest-path", "/repo/Cargo.toml", "--target-dir", RSBIN_DIR],
                       capture_output=True, text=True, env=env)
    return p.returncode == 0, (p.stdout + p.stderr)[-2000:]


def tq(s):
    return json.dumps(s, ensure_ascii=False)


def c20_toml(d):
    o = []
    for k in ("name", "admin_info", "info", "motd", "network"):
        if d.get(k) is not None:
            o.append("%s = %s" % (k, tq(d[k])))
    o.append('listen = "127.0.0.1"')
    o.append("port = %d" % d.get("port", 6667))
    if d.get("password") is not None:
        o.append("password = %s" % tq(d["password"]))
    if d.get("max_joins") is not None:
        o.append("max_joins = %d" % d["max_joins"])
    o += ["ping_timeout = 120", "pong_timeout = 20", "dns_lookup = false", 'log_level = "ERROR"']
    if d.get("tls") is not None:
        o.append("[tls]")
        for k, v in d["tls"].items():
            o.append("%s = %s" % (k, tq(v)))
    o.append("[default_user_modes]")
    for k, ch in (("invisible", "i"), ("oper", "o"), ("local_oper", "O"), ("registered", "r"), ("wallops", "w")):
        o.append("%s = %s" % (k, "true" if ch in d.get("default_modes", "") else "false"))
    for op in d.get("operators", []):
        o += ["[[operators]]", "name = %s" % tq(op["name"]), "password = %s" % tq(op["password"])]
    for u in d.get("users", []):
        o += ["[[users]]", "name = %s" % tq(u["name"]), "nick = %s" % tq(u["nick"])]
        if u.get("password") is not None:
            o.append("password = %s" % tq(u["password"]))
    for c in d.get("channels", []):
        o += ["[[channels]]", "name = %s" % tq(c), "[channels.modes]", "invite_only = false", "moderated = false", "secret = false",
              "protected_topic = false", "no_external_messages = false"]
    return "\n".join(o) + "\n"


def py_valid_username(s):
    return s != "" and not any(ch in ASCII_WS for ch in s) and s[0] not in "#&" and not any(ch in ".,:" for ch in s)


def py_valid_channel(s):
    return s != "" and s[0] in "#&" and not any(ch in ASCII_WS or ch in ":," for ch in s)


def py_valid_hash(s):
    return re.match(r"^[A-Za-z0-9+/]{85}[AQgw]$", s) is not None


def c20_expected(d, cli):
    """the property's statement of start-up validation"""
    if any(d.get(k) is None for k in ("name", "admin_info", "info", "motd", "network")):
        return False, "a mandatory field is absent"
    if d.get("tls") is not None and set(d["tls"]) != {"cert_file", "cert_key_file"}:
        return False, "TLS certificate and key must be given together (file)"
    if ("cert" in cli) != ("key" in cli):
        return False, "TLS certificate and key must be given together (command line)"
    name = cli.get("name", d["name"])
    if "." not in name:
        return False, "server name without a dot"
    if d.get("password") is not None and not py_valid_hash(d["password"]):
        return False, "malformed server password hash"
    for op in d.get("operators", []):
        if not py_valid_username(op["name"]) or not py_valid_hash(op["password"]):
            return False, "invalid operator"
    for u in d.get("users", []):
        if not py_valid_username(u["name"]) or not py_valid_username(u["nick"]) or len(u["nick"].encode()) > 200:
            return False, "invalid user name or nick"
        if u.get("password") is not None and not py_valid_hash(u["password"]):
            return False, "malformed user password hash"
    for c in d.get("channels", []):
        if not py_valid_channel(c):
            return False, "invalid channel name"
    return True, "valid"


def c20_case(rng):
    bad_hashes = ["", "xxxxxxxxx", GOOD_HASH[:-1], GOOD_HASH + "A", GOOD_HASH + "=", GOOD_HASH[:-1] + "x", GOOD_HASH.replace("+", "-"), GOOD_HASH[2:],
                  " " + GOOD_HASH[1:], "/" * 86, "A" * 86 + "=="]
    good_hashes = [GOOD_HASH, "A" * 86, GOOD_HASH[:-1] + "Q", "B" * 85 + "g"]

    def hash_(p_bad):
        return rng.choice(bad_hashes) if rng.random() < p_bad else rng.choice(good_hashes)
    names_ok = ["admin", "oper1", "é", "x" * 30, "a-b_c", "[x]"]
    names_bad = ["", "op er", "#op", "&op", "a.b", "a,b", "a:b", "tab\tname"]
    chans_ok = ["#chan", "&loc", "#é", "##", "#a.b"]
    chans_bad = ["chan", "", "#a,b", "#a b", "#a:b", "+x"]
    p = 0.12
    d = dict(name=rng.choice(["irc.irc", "a.b", "é.x", "irc.example.org"]) if rng.random() > p else rng.choice(["localhost", "", "irc"]),
             admin_info="Admin", info="Info", motd="Motd", network="Net")
    if rng.random() < 0.05:
        d[rng.choice(["admin_info", "info", "motd", "network", "name"])] = None
    if rng.random() < 0.5:
        d["password"] = hash_(p * 2)
    d["operators"] = [dict(name=rng.choice(names_bad) if rng.random() < p else rng.choice(names_ok), password=hash_(p)) for _ in range(rng.choice([0, 0, 1, 2]))]
    d["users"] = []
    for _ in range(rng.choice([0, 0, 1, 2])):
        u = dict(name=rng.choice(names_bad) if rng.random() < p else rng.choice(names_ok),
                 nick=rng.choice(names_bad + ["n" * 201, "é" * 101]) if rng.random() < p else rng.choice(names_ok + ["n" * 200, "é" * 100]))
        if rng.random() < 0.5:
            u["password"] = hash_(p)
        d["users"].append(u)
    d["channels"] = [rng.choice(chans_bad) if rng.random() < p else rng.choice(chans_ok) for _ in range(rng.choice([0, 0, 1, 3]))]
    r = rng.random()
    if r < 0.1:
        d["tls"] = dict(cert_file="/repo/test_data/cert.crt", cert_key_file="/repo/test_data/cert_key.crt")
    elif r < 0.16:
        d["tls"] = dict(cert_file="/repo/test_data/cert.crt") if rng.random() < 0.5 else dict(cert_key_file="/repo/test_data/cert_key.crt")
    cli = {}
    if rng.random() < 0.25:
        cli["name"] = rng.choice(["cli.name", "override.irc", "nodot", ""])
    r = rng.random()
    if r < 0.08:
        cli["cert"] = "/repo/test_data/cert.crt"
        cli["key"] = "/repo/test_data/cert_key.crt"
    elif r < 0.14:
        cli["cert"] = "/repo/test_data/cert.crt"
    elif r < 0.2:
        cli["key"] = "/repo/test_data/cert_key.crt"
    if rng.random() < 0.1:
        cli["network"] = "CliNet"
    return d, cli


def c20_cli_args(cli):
    a = []
    if "name" in cli:
        a += ["-n", cli["name"]]
    if "network" in cli:
        a += ["-N", cli["network"]]
    if "cert" in cli:
        a += ["-C", cli["cert"]]
    if "key" in cli:
        a += ["-K", cli["key"]]
    return a


def c20_model_line(d, cli):
    def oh(x):
        return "-" if x is None else hx(x)
    t = ["FM", "name=" + hx(d["name"]), "pw=" + oh(d.get("password")), "cliname=" + oh(cli.get("name")),
         "cert=%d" % ("cert" in cli), "key=%d" % ("key" in cli)]
    for op in d.get("operators", []):
        t.append("oper:%s:%s" % (hx(op["name"]), hx(op["password"])))
    for u in d.get("users", []):
        t.append("user:%s:%s:%s" % (hx(u["name"]), hx(u["nick"]), oh(u.get("password"))))
    for c in d.get("channels", []):
        t.append("chan:" + hx(c))
    return " ".join(t)


def free_port():
    s = socket.socket()
    s.bind(("127.0.0.1", 0))
    p = s.getsockname()[1]
    s.close()
    return p


class Server:
    def __init__(self, d, cli_args=(), tag="c20"):
        self.port = free_port()
        d = dict(d, port=self.port)
        self.path = os.path.join(irc.BUILD, "scratch", "%s-%d.toml" % (tag, self.port))
        os.makedirs(os.path.dirname(self.path), exist_ok=True)
        open(self.path, "w").write(c20_toml(d))
        self.proc = subprocess.Popen([SERVER_BIN, "-c", self.path] + list(cli_args), stdout=subprocess.PIPE, stderr=subprocess.STDOUT)
        self.listening = False
        t0 = _time.time()
        while _time.time() - t0 < 10:
            if self.proc.poll() is not None:
                break
            try:
                s = socket.create_connection(("127.0.0.1", self.port), timeout=0.2)
                s.close()
                self.listening = True
                break
            except OSError:
                _time.sleep(0.03)

    def stop(self):
        out = b""
        if self.proc.poll() is None:
            self.proc.kill()
        try:
            out = self.proc.communicate(timeout=3)[0]
        except Exception:
            pass
        try:
            os.remove(self.path)
        except OSError:
            pass
        return self.proc.returncode, out.decode("utf-8", "replace")


class Client:
    def __init__(self, port, tls=False):
        s = socket.create_connection(("127.0.0.1", port), timeout=3)
        if tls:
            ctx = ssl.SSLContext(ssl.PROTOCOL_TLS_CLIENT)
            ctx.check_hostname = False
            ctx.verify_mode = ssl.CERT_NONE
            s = ctx.wrap_socket(s)
        self.s = s
        self.buf = b""
        self.lines = []

    def send(self, l):
        self.s.sendall((l + "\r\n").encode())

    def read_until(self, pred, tmo=3.0):
        t0 = _time.time()
        got = []
        while _time.time() - t0 < tmo:
            while b"\n" in self.buf:
                ln, self.buf = self.buf.split(b"\n", 1)
                ln = ln.rstrip(b"\r").decode("utf-8", "replace")
                got.append(ln)
                self.lines.append(ln)
                if pred(ln):
                    return got
            self.s.settimeout(max(0.05, tmo - (_time.time() - t0)))
            try:
                x = self.s.recv(65536)
            except (socket.timeout, ssl.SSLError, OSError):
                x = b""
                if isinstance(self.s, ssl.SSLSocket):
                    continue
            if not x:
                break
            self.buf += x
        return got

    def cmd(self, l, k=[0]):
        k[0] += 1
        tok = "b%d" % k[0]
        self.send(l)
        self.send("PING " + tok)
        return self.read_until(lambda x: x.endswith("PONG %s :%s" % ("SRV", tok)) or (" PONG " in x and x.endswith(":" + tok)))

    def close(self):
        try:
            self.s.close()
        except OSError:
            pass


def c20_script(port, tls, pw=None):
    """one fixed two-client scene; returns the canonical transcript per client"""
    a, b = Client(port, tls), Client(port, tls)
    out = {}
    try:
        for c, nk in ((a, "alice"), (b, "bob")):
            if pw is not None:
                c.send("PASS " + pw)
            c.send("NICK " + nk)
            c.send("USER %s 8 * :Real %s" % (nk, nk))
            c.read_until(lambda x: " 221 " in x or " 464 " in x or x.startswith("ERROR"))
        for c, l in ((a, "JOIN #room"), (b, "JOIN #room"), (a, "PRIVMSG #room :hello bob"), (b, "TOPIC #room :a topic: here"), (a, "MODE #room +m"),
                     (b, "PRIVMSG #room :muted?"), (a, "MODE #room +v bob"), (b, "PRIVMSG #room :voiced"), (a, "NAMES #room"), (b, "WHOIS alice"),
                     (a, "LUSERS"), (b, "LIST"), (a, "KICK #room bob :bye"), (b, "JOIN #room,#other"), (a, "WHO #room"), (b, "PART #room :leaving"),
                     (a, "FOO bar"), (b, "AWAY :gone"), (a, "PRIVMSG bob :are you there"), (a, "VERSION"), (a, "ADMIN"), (b, "QUIT")):
            c.cmd(l)
        a.cmd("NAMES #room")
    finally:
        for nk, c in (("alice", a), ("bob", b)):
            out[nk] = c.lines
            c.close()
    return out


def welcome_oracle(t, steps):
    """the welcome burst is built from the configuration: names, network, MOTD, default user modes"""
    fails = []
    cfg = t.cfg
    for s in steps:
        for c, ls in (s.get("out") or {}).items():
            codes = {numeric_of(l): l for l in ls if l.startswith(":")}
            if "001" in codes:
                for l in ls:
                    if not l.startswith(":" + cfg.name + " "):
                        fails.append(("a line of the welcome burst does not come from the configured server name %r: %r" % (cfg.name, l[:100]), {"step": s["k"]}))
                        break
                if cfg.network not in codes["001"]:
                    fails.append(("001 does not name the configured network %r: %r" % (cfg.network, codes["001"]), {"step": s["k"]}))
                if "372" in codes and not codes["372"].endswith(":" + cfg.motd):
                    fails.append(("372 does not carry the configured MOTD %r: %r" % (cfg.motd, codes["372"]), {"step": s["k"]}))
                if "221" in codes:
                    m = codes["221"].split(" ")[-1].lstrip("+")
                    want = set(cfg.default_modes)
                    if not want <= set(m) or (set(m) - want - set("r")):
                        fails.append(("221 after registration shows modes +%s, the configured defaults are +%s" % (m, cfg.default_modes), {"step": s["k"]}))
    return fails


def registered_oracle(t, steps):
    """predefined users: user mode +r (registered) is held only by a connection whose USER name is a [[users]] entry, or through
    default_user_modes.registered - no command gives it to anybody else (seeded C20-f)"""
    fails = []
    names = set(u["name"] for u in t.cfg.users)
    for s in sorted(steps, key=lambda s: s["k"]):
        d = s.get("dump")
        if not d:
            continue
        for n, u in d["users"].items():
            if "r" in u["modes"] and u["name"] not in names and "r" not in t.cfg.default_modes:
                fails.append(("user %s (user name %r) holds +r after step %d (%r) although it is no configured user and +r is no default mode" % (n, u["name"], s["k"], t.events[s["k"]]), {"step": s["k"]}))
                return fails
    return fails


def check_C20(res):
    rng = random.Random(res.seed + 20)
    n = 1500 if res.tier == "quick" else 15000
    cases = [c20_case(rng) for _ in range(n)]
    fl = ["F %s %s" % (hx(c20_toml(d)), " ".join(hx(x) for x in c20_cli_args(cli))) for d, cli in cases]
    fi = run_pure([x.rstrip() for x in fl])
    modelable = [i for i, (d, cli) in enumerate(cases) if all(d.get(k) is not None for k in ("name", "admin_info", "info", "motd", "network"))
                 and (d.get("tls") is None or len(d["tls"]) == 2)]
    fm = run_pure([c20_model_line(*cases[i]) for i in modelable], model=True)
    mres = dict(zip(modelable, fm))
    reasons = collections.Counter()
    spec_fail = tie_fail = 0
    for i, ((d, cli), a) in enumerate(zip(cases, fi)):
        want, why = c20_expected(d, cli)
        reasons[why] += 1
        got = a.startswith("OK ")
        if got != want:
            spec_fail += 1
            if spec_fail <= 3:
                res.violation("a configuration that is %s (%s) is %s at start-up: %s" % ("valid" if want else "invalid", why, "accepted" if got else "rejected", a[:200]),
                              {"kind": "pure", "case": fl[i].rstrip(), "config": d, "cli": cli, "impl": a[:500]}, found=True)
        elif i in mres and mres[i] != ("true" if got else "false"):
            tie_fail += 1
        if got and want:
            # the command line overrides the file
            dbg = json.loads(a[3:])
            wn = cli.get("name", d["name"])
            wnet = cli.get("network", d["network"])
            if ("name: %s," % rust_debug_str(wn)) not in dbg or ("network: %s," % rust_debug_str(wnet)) not in dbg:
                spec_fail += 1
                res.violation("command-line options do not override the file: expected name %r network %r in %s" % (wn, wnet, dbg[:300]),
                              {"kind": "pure", "case": fl[i].rstrip(), "config": d, "cli": cli}, found=True)
    if tie_fail and not spec_fail:
        res.violation("correspondence Config.config_accept vs MainConfig::new differs on %d configurations" % tie_fail, {"kind": "tie"}, found=False)
    # password hashes: the validator, and generate / verify
    hs_ = [GOOD_HASH] + [GOOD_HASH[:k] + ch + GOOD_HASH[k + 1:] for k in (0, 40, 84, 85) for ch in "AQgwxB/+-= é"] + \
          ["".join(rng.choice("ABCxyz019+/") for _ in range(rng.choice([85, 86, 86, 86, 87, 88]))) for _ in range(300)]
    vi = run_pure(["V pwhash " + hx(h) for h in hs_])
    vm = run_pure(["V pwhash " + hx(h) for h in hs_], model=True)
    for h, a, b in zip(hs_, vi, vm):
        if (a == "true") != py_valid_hash(h):
            res.violation("validate_password_hash(%r) = %s, a well-formed hash is 86 characters of canonical unpadded base64" % (h, a),
                          {"kind": "pure", "case": "V pwhash " + hx(h)}, found=True)
        elif a != b:
            res.violation("correspondence Config.valid_hash vs validate_password_hash differs", {"hash": h, "impl": a, "model": b}, found=False)
    pws = ["secret", "", "p", "päss wörd", "x" * 200, "a:b c", "secret "] + ["".join(rng.choice("abcXYZ09 é:") for _ in range(rng.randint(1, 12))) for _ in range(8 if res.tier == "quick" else 60)]
    hh = [json.loads(x) for x in run_pure(["H " + hx(p) for p in pws])]
    ver = []
    for p, h in zip(pws, hh):
        ver.append("A %s %s" % (hx(p), hx(h)))
        q = rng.choice([p + "x", p[:-1], p.upper() if p.upper() != p else p + " ", "other"])
        if q != p:
            ver.append("A %s %s" % (hx(q), hx(h)))
    va = run_pure(ver)
    for l, a in zip(ver, va):
        f = l.split(" ")
        same = bytes.fromhex(f[1]).decode() == pws[hh.index(bytes.fromhex(f[2]).decode())]
        if (a == "true") != same:
            res.violation("a generated hash %s the password %r" % ("rejects" if same else "accepts", bytes.fromhex(f[1]).decode()),
                          {"kind": "pure", "case": l}, found=True)
    for h in hh:
        if not py_valid_hash(h):
            res.violation("the hash generator printed %r, which the start-up validation would reject" % h, {"kind": "pure"}, found=True)
    # the real binary: exit status at start-up, the welcome burst, -g, plain vs TLS
    okb, outb = build_server_binary()
    started = []
    class _Collect:
        def __init__(self):
            self.violations = []

        def violation(self, what, replay, found=True):
            self.violations.append({"what": what, "replay": replay, "found": found})

    def binary_part(rr, started):
        if not okb:
            rr.violation("the server binary does not build", {"log": outb}, found=False)
        else:
            base = dict(name="cfg.name.irc", admin_info="Admin", info="Info", motd="MOTD-from-config", network="NetFromConfig", channels=["#preset"], max_joins=1,
                        default_modes="iw")
            variants = [("valid", base, [], True), ("no dot", dict(base, name="nodot"), [], False), ("bad hash", dict(base, password="xxxx"), [], False),
                        ("bad oper", dict(base, operators=[dict(name="o p", password=GOOD_HASH)]), [], False),
                        ("bad user nick", dict(base, users=[dict(name="u", nick="#n")]), [], False),
                        ("bad channel", dict(base, channels=["nochan"]), [], False),
                        ("cli cert only", base, ["-C", "/repo/test_data/cert.crt"], False),
                        ("cli key only", base, ["-K", "/repo/test_data/cert_key.crt"], False),
                        ("cli name override", dict(base, name="nodot"), ["-n", "from.cli"], True),
                        ("cli name breaks", base, ["-n", "nodotcli"], False),
                        ("missing motd", dict(base, motd=None), [], False)]
            for label, d, args, want in variants:
                sv = Server(d, args)
                lines = []
                if sv.listening:
                    try:
                        c = Client(sv.port)
                        c.send("NICK alice")
                        c.send("USER alice 8 * :Alice")
                        lines = c.read_until(lambda x: " 221 " in x)
                        c.send("JOIN #preset,#second")
                        lines += c.read_until(lambda x: " 405 " in x or " 366 " in x and "#second" in x, tmo=1.5)
                        c.close()
                    except OSError:
                        pass
                rc, out = sv.stop()
                started.append({"case": label, "listening": sv.listening, "exit": rc, "welcome_lines": len(lines)})
                if sv.listening != want:
                    rr.violation("start-up with configuration %r: the server %s" % (label, "serves although the configuration is invalid" if sv.listening else "does not start: " + out[-200:]),
                                  {"kind": "binary", "case": label, "config": d, "args": args, "output": out[-1500:]}, found=True)
                elif not want and (rc in (0, None, -9)):
                    rr.violation("start-up with invalid configuration %r does not exit with an error status (exit %r)" % (label, rc),
                                  {"kind": "binary", "case": label, "output": out[-1500:]}, found=True)
                elif want:
                    name = "from.cli" if "-n" in args else d["name"]
                    txt = "\n".join(lines)
                    probs = []
                    if not lines or not all(l.startswith(":" + name + " ") or l.startswith(":alice") for l in lines):
                        probs.append("lines not prefixed by the effective server name %r" % name)
                    if "NetFromConfig" not in txt:
                        probs.append("network name absent from the welcome burst")
                    if ":MOTD-from-config" not in txt:
                        probs.append("configured MOTD absent")
                    if not re.search(r" 221 alice \+[iw]{2}$", txt, re.M):
                        probs.append("default user modes +iw not applied")
                    if " 405 " not in txt:
                        probs.append("max_joins = 1 not enforced (no 405 for the second channel)")
                    if probs:
                        rr.violation("a started server does not follow its configuration: " + "; ".join(probs),
                                      {"kind": "binary", "case": label, "config": d, "args": args, "lines": lines[-40:]}, found=True)
            # -g prints a hash that accepts exactly its password
            pw = "pässword 1"
            g = subprocess.run([SERVER_BIN, "-g", "-P", pw], capture_output=True, text=True)
            m = re.search(r"Password Hash: (\S+)", g.stdout + g.stderr)
            if not m:
                rr.violation("-g -P does not print a password hash", {"kind": "binary", "output": (g.stdout + g.stderr)[-500:]}, found=True)
            else:
                sv = Server(dict(base, password=m.group(1)))
                verdict = {}
                for tryp in (pw, pw + "x", None):
                    c = Client(sv.port)
                    if tryp is not None:
                        c.send("PASS :" + tryp)
                    c.send("NICK n%d" % len(verdict))
                    c.send("USER u 8 * :U")
                    ls = c.read_until(lambda x: " 001 " in x or " 464 " in x or x.startswith("ERROR"), tmo=6)
                    verdict[tryp] = any(" 001 " in x for x in ls)
                    c.close()
                sv.stop()
                if verdict != {pw: True, pw + "x": False, None: False}:
                    rr.violation("a server configured with the hash printed by -g for %r accepts %r" % (pw, verdict), {"kind": "binary"}, found=True)
            # "every password string": blanks at either end, a colon, a single character - as operator passwords of one server
            odd = [" open sesame ", "trailing ", " leading", "a:b c", "x", "\tTab"]
            hashes = {}
            for q in odd:
                g = subprocess.run([SERVER_BIN, "-g", "-P", q], capture_output=True, text=True)
                m = re.search(r"Password Hash: (\S+)", g.stdout + g.stderr)
                if m:
                    hashes[q] = m.group(1)
                else:
                    rr.violation("-g -P %r does not print a password hash" % q, {"kind": "binary", "output": (g.stdout + g.stderr)[-500:]}, found=True)
            if len(hashes) == len(odd):
                sv = Server(dict(base, max_joins=None, operators=[dict(name="op%d" % k, password=hashes[q]) for k, q in enumerate(odd)]), tag="c20-g")
                if not sv.listening:
                    rc, out = sv.stop()
                    rr.violation("the server does not start with operator hashes printed by -g: %s" % out[-300:], {"kind": "binary"}, found=True)
                else:
                    c = Client(sv.port)
                    c.send("NICK goper")
                    c.send("USER u 8 * :U")
                    c.read_until(lambda x: " 376 " in x or " 422 " in x, tmo=8)
                    wrong = []
                    for k, q in enumerate(odd):
                        for tryp in [q + "x", q.strip(), q.strip() + " ", q]:
                            c.send("OPER op%d :%s" % (k, tryp))
                            ls = c.read_until(lambda x: " 381 " in x or " 464 " in x or " 491 " in x or x.startswith("ERROR"), tmo=8)
                            ok = any(" 381 " in x for x in ls)
                            if ok != (tryp == q):
                                wrong.append((q, tryp, ok))
                            if ok:
                                c.send("MODE goper -o")
                                c.read_until(lambda x: " MODE goper " in x, tmo=4)
                    c.close()
                    sv.stop()
                    if wrong:
                        rr.violation("hashes printed by -g do not accept exactly their own password: (generated from, tried, accepted) = %r" % wrong[:4],
                                      {"kind": "binary", "passwords": odd, "wrong": wrong}, found=True)
            # ping_timeout and pong_timeout are two settings: PINGs every ping_timeout, a silent client dropped pong_timeout after the
            # PING it failed to answer, an answering client kept (seeded C20-e: one setting read for both)
            for ping, pong in ((1, 2), (2, 1)):
                port = free_port()
                path = os.path.join(irc.BUILD, "scratch", "c20-ka-%d.toml" % port)
                open(path, "w").write(c20_toml(dict(base, max_joins=None, port=port)).replace("ping_timeout = 120", "ping_timeout = %d" % ping).replace("pong_timeout = 20", "pong_timeout = %d" % pong))
                proc = subprocess.Popen([SERVER_BIN, "-c", path], stdout=subprocess.DEVNULL, stderr=subprocess.DEVNULL)
                t0 = _time.time()
                up = False
                while _time.time() - t0 < 10:
                    try:
                        socket.create_connection(("127.0.0.1", port), timeout=0.2).close()
                        up = True
                        break
                    except OSError:
                        _time.sleep(0.03)
                recs = []
                if up:
                    t_end = int((2 * ping + pong + 1.2) * 1000)
                    ths = [threading.Thread(target=ka_client, args=(port, "ka" + pat, pat, ping, pong, t_end, recs)) for pat in ("never", "always")]
                    for th in ths:
                        th.start()
                    for th in ths:
                        th.join()
                proc.kill()
                proc.wait()
                try:
                    os.remove(path)
                except OSError:
                    pass
                started.append({"case": "ping_timeout=%d pong_timeout=%d" % (ping, pong), "listening": up, "clients": len(recs)})
                for r in recs:
                    if r.get("failed") or r["reg"] is None:
                        continue
                    pings = [t for t, k in r["events"] if k == "P" and t >= r["reg"]]
                    if pings and abs(pings[0] - r["reg"] - ping * 1000) > 700:
                        rr.violation("with ping_timeout = %d the first PING comes %d ms after registration" % (ping, pings[0] - r["reg"]), {"kind": "binary", "scenario": r}, found=True)
                    if r["pattern"] == "never":
                        want = (pings[0] if pings else r["reg"] + ping * 1000) + pong * 1000
                        if r["eof"] is None or not (want - 250 <= r["eof"] <= want + 900):
                            rr.violation("with ping_timeout = %d and pong_timeout = %d a silent client is %s; the settings give a drop %d ms after the unanswered PING (t=%d ms)" % (
                                ping, pong, "still connected at the end" if r["eof"] is None else "dropped at t=%d ms" % r["eof"], pong * 1000, want), {"kind": "binary", "scenario": r}, found=True)
                    elif r["eof"] is not None:
                        rr.violation("with ping_timeout = %d and pong_timeout = %d a client that answers every PING is disconnected at t=%d ms" % (ping, pong, r["eof"]), {"kind": "binary", "scenario": r}, found=True)
            # TLS changes the transport only
            tls_d = dict(base, max_joins=None, tls=dict(cert_file="/repo/test_data/cert.crt", cert_key_file="/repo/test_data/cert_key.crt"))
            views = {}
            for mode, d in (("plain", dict(base, max_joins=None)), ("tls", tls_d)):
                sv = Server(d, tag="c20-" + mode)
                try:
                    views[mode] = c20_script(sv.port, mode == "tls") if sv.listening else None
                except Exception as e:
                    views[mode] = "client error: %r" % (e,)
                rc, out = sv.stop()
                if not sv.listening:
                    rr.violation("the server does not start in %s mode: %s" % (mode, out[-300:]), {"kind": "binary", "mode": mode}, found=True)

            def canon(v):
                return {k: [irc.canon_line(x, "cfg.name.irc") for x in ls if " 671 " not in x and not re.match(r"^:\S+ PONG \S+ :b\d+$", x)] for k, ls in v.items()}
            if isinstance(views.get("plain"), dict) and isinstance(views.get("tls"), dict):
                cp, ct = canon(views["plain"]), canon(views["tls"])
                cp = {k: irc.canon_lines(v, "cfg.name.irc") for k, v in cp.items()}
                ct = {k: irc.canon_lines(v, "cfg.name.irc") for k, v in ct.items()}
                if cp != ct:
                    import difflib
                    df = [x for k in cp for x in difflib.unified_diff(cp[k], ct.get(k, []), lineterm="", n=0)][:20]
                    rr.violation("the same client script gives a different transcript over TLS than over plain TCP", {"kind": "binary", "diff": df}, found=True)
                started.append({"case": "plain vs TLS", "lines_compared": sum(len(v) for v in cp.values())})
            elif okb:
                rr.violation("plain / TLS transcripts could not be taken: %r" % ({k: (v if not isinstance(v, dict) else "ok") for k, v in views.items()},),
                              {"kind": "binary"}, found=False)

    # runs of the real binary depend on wall-clock waits (start-up, replies): an objection is believed only if
    # it is raised again when the whole binary part is run a second time
    first = _Collect()
    binary_part(first, started)
    binary_rerun = 0
    if first.violations:
        binary_rerun = len(first.violations)
        sig = lambda v: re.sub(r"\d+", "#", v["what"])[:70]
        second = _Collect()
        started = []
        binary_part(second, started)
        seen = set(sig(v) for v in first.violations)
        for v in second.violations:
            if sig(v) in seen:
                res.violations.append(v)
    # "TLS changes the transport only": the transport flag has ONE reader, WHOIS (theorems C20_transport_fixed_at_accept,
    # C20_whois_secure_adds_only_671); the readers are counted in the model text and in the source on every run
    import glob as _glob
    readers = {}
    for f in sorted(_glob.glob("/repo/src/**/*.rs", recursive=True)):
        src = open(f).read().split("#[cfg(test)]")[0]
        k = len(re.findall(r"\.is_secure\(\)", src))
        if k:
            readers[os.path.relpath(f, "/repo/src")] = k
    model_readers = sum(1 for l in open(os.path.join(irc.VERIF, "coq", "theories", "Handlers.v")) if "c_secure" in l)
    want_readers = {"state/rest_cmds.rs": 1, "state/structs.rs": 1}
    if readers != want_readers or model_readers != 1:
        res.violation("the transport flag (is_secure) is read at %r in the source and %d time(s) in the model's handlers; the theorems cover one reader, WHOIS (expected %r / 1)" % (
            readers, model_readers, want_readers), {"kind": "tie", "note": "C20_whois_secure_adds_only_671 is about the single reader"}, found=False)
    # behaviour under random configurations, against the model
    prof = {"weights": dict(JOIN=14, PART=8, OPER=5, PRIVMSG=4, MODE=4, NICK=2, MISC=2, WHOIS=2, UMODE=2), "p_users": 0.6, "p_operators": 0.7, "p_channels": 0.8,
            "p_default_mode": 0.6, "p_max_joins": 0.7, "p_password": 0.4}
    ntr = 40 if res.tier == "quick" else 500
    def cfg_oracle(t, steps):
        # the settings must govern behaviour: welcome burst, and max_joins / predefined channels through the admission rule and the membership relation
        return welcome_oracle(t, steps) + join_oracle(t, steps) + inv_oracle(t, steps) + registered_oracle(t, steps) + listquery_oracle(t, steps)
    # max_connections governs how many connections are served at once - and keeps doing so after refusals, closes and
    # failed registrations (the slot histories of C19, under this property's oracle)
    slot_traces = c19_slot_traces(res)
    # the mask lists of a configured channel govern JOIN and are shown to a member who asks, next to masks added by MODE
    for k2 in range(2):
        t = Trace("c20-configured-lists-%d" % k2, Config(channels=[dict(name="#cfg", topic="Configured", flags="nt" if k2 == 0 else "int",
                                                                      ban=["bad*!*@*", "*!*@10.*"], exception=["badger!*@*"], invex=["friend*!*@*"])]))
        for c, nk in enumerate(["alice", "baddie", "badger", "friendly"]):
            t.register(c, nk)
        for c in range(4):
            t.line(c, "JOIN #cfg")
        for q in ("+b", "b", "+e", "+I"):
            t.line(0 if k2 == 0 else 3, "MODE #cfg " + q)
        t.line(2, "MODE #cfg +b")
        t.line(2 if k2 == 0 else 3, "MODE #cfg +b extra!*@*")
        t.line(2, "MODE #cfg +b")
        slot_traces.append(t)
    r = l2_campaign(res, "C20", ntr, 40, prof, traces=slot_traces, oracle=cfg_oracle)
    res.coverage.update({
        "evaluations": len(cases) + len(hs_) + len(ver) + len(started) + r["steps"],
        "distinct_nontrivial": len(set(fl)) + len(set(hs_)) + r["traces"],
        "rule": "%d configuration files x command lines (each validated field valid / invalid / absent: server name, password hashes incl. non-canonical base64, operator / user / channel names, 200- "
                "and 201-byte nicks, TLS pair in file and on the command line, --name / --network overrides) through the real MainConfig::new vs the rules of the statement (python) and vs Config.config_accept; "
                "hash validator on mutated hashes; argon2 generate / verify on %d passwords (own password accepted, neighbours rejected); the real binary: %d start-up cases (exit status, listening or not, "
                "welcome burst contents, max_joins, default modes, -n override; ping_timeout / pong_timeout as two settings with a silent and an answering client), -g round trip through a configured server, one 2-client scene of 23 commands over plain TCP and over TLS compared line by line; "
                "%d random-configuration histories against the model with a welcome-burst oracle; %d max_connections histories (opens beyond the limit, closes, failed registrations) with the slot-count oracle" % (len(cases), len(pws), len(started), ntr, len(slot_traces)),
        "traces_validated_against_impl": r["traces"], "validation_outcomes": dict(reasons),
        "samples": [{"config": cases[0][0], "cli": cases[0][1], "impl": fi[0][:160]}, started[:3]],
        "binary_cases": started, "binary_objections_rerun": binary_rerun, "l2": r["summary"]})
    res.coverage["rule"] += '; plus configured mask lists (ban / exception / invite-exception) shown to a member who asks, next to masks added by MODE'
    res.assumptions = ["TOML syntax and field types are serde's: only accepted/rejected is compared for files that do not deserialize",
                       "671 (secure connection) lines are excluded from the plain/TLS comparison: they describe the transport"]


# ====================================================================== C17
import threading

KA_PATTERNS = ["always", "never", "late_ok", "late_bad", "stop_after_2", "odd_token", "chatter_never", "unsolicited_then_never", "stop_after_1_chatter",
               "slow_register_always", "cap_midsession_always", "empty_token_always", "flood_never", "partial_never", "partial_always"]


def ka_client(port, nick, pattern, ping, pong, t_end, out):
    """one real-time scenario; out gets the timeline in ms since connect"""
    t0 = _time.time()

    def now():
        return int((_time.time() - t0) * 1000)
    ev = []          # (ms, 'P'|'O'|'X')
    rec = {"nick": nick, "pattern": pattern, "ping": ping, "pong": pong, "events": ev, "eof": None, "error_line": None, "reg": None, "lines": 0}
    out.append(rec)
    try:
        s = socket.create_connection(("127.0.0.1", port), timeout=3)
    except OSError as e:
        rec["failed"] = repr(e)
        return
    reg_line = ("NICK %s\r\nUSER %s 8 * :%s\r\n" % (nick, nick, pattern)).encode()
    reg_at = 0
    if pattern == "slow_register_always":
        # registration completes only after more than ping_timeout has passed since the connection was opened
        reg_at = ping * 1000 + 300
        t_end += reg_at
    else:
        s.sendall(reg_line)
    buf = b""
    pending = []     # scheduled pong send times (ms)
    answered = 0
    next_chatter = 300
    flood_done = 0
    partial_sent = False
    flooder = None
    flood_stop = []
    if pattern == "unsolicited_then_never":
        pending.append((200, "PONG :early"))
    while True:
        t = now()
        if t >= t_end:
            break
        if reg_at and t >= reg_at:
            reg_at = 0
            try:
                s.sendall(reg_line)
            except OSError:
                pass
        due = [p for p in pending if p[0] <= t]
        for p in due:
            pending.remove(p)
            try:
                s.sendall((p[1] + ("" if pattern == "partial_always" else "\r\n")).encode())
                ev.append((now(), "O"))
            except OSError:
                pass
        if pattern == "cap_midsession_always" and rec["reg"] is not None and next_chatter is not None:
            # a registered client asks for the capability list in mid-session and never sends CAP END (legal): other traffic
            next_chatter = None
            try:
                s.sendall(b"CAP LS 302\r\nCAP REQ :multi-prefix\r\n")
                ev.append((now(), "X"))
            except OSError:
                pass
        if pattern == "flood_never" and rec["reg"] is not None and flooder is None:
            # "whatever other traffic there is in the meantime": a client that reads everything but keeps its own input pipe full (a
            # second thread writes as fast as the server reads), so that the server always finds the next line already received - and
            # never answers a PING (seeded C17-i: the timers were looked at only when no input was waiting)
            def flood():
                data, off = b"PING f\r\n" * 200, 0
                while not flood_stop:
                    try:
                        off = (off + s.send(data[off:])) % len(data)
                    except socket.timeout:
                        continue
                    except OSError:
                        break
            flooder = threading.Thread(target=flood, daemon=True)
            flooder.start()
        if pattern == "flood_never" and flooder is not None and t >= next_chatter:
            next_chatter = t + 400
            ev.append((now(), "X"))
        if pattern in ("partial_never", "partial_always") and rec["reg"] is not None and not partial_sent:
            # a client whose last bytes are an unfinished line (somebody typing): the PING is due all the same
            partial_sent = True
            try:
                s.sendall(b"PRIVMSG nobody :unfinished")
                ev.append((now(), "X"))
            except OSError:
                pass
        if pattern in ("chatter_never", "stop_after_1_chatter") and rec["reg"] is not None and t >= next_chatter:
            next_chatter = t + 300
            try:
                s.sendall(b"PRIVMSG nobody :chatter\r\nPING me\r\n")
                ev.append((now(), "X"))
            except OSError:
                pass
        wait = 0.02
        s.settimeout(wait)
        try:
            x = s.recv(65536)
        except socket.timeout:
            continue
        except OSError:
            x = b""
        if not x:
            rec["eof"] = now()
            break
        buf += x
        parts = buf.split(b"\n")
        buf = parts.pop()
        for ln in parts:
            rec["lines"] += 1
            if b" PONG " in ln:
                flood_done += 1
                continue
            ln = ln.rstrip(b"\r").decode("utf-8", "replace")
            tl = now()
            if " 001 " in ln and rec["reg"] is None:
                rec["reg"] = tl
            if ln.startswith("PING ") or " PING :" in ln and not ln.startswith(":" ) :
                pass
            m = re.match(r"^(?::\S+ )?PING :?(.*)$", ln)
            if m:
                ev.append((tl, "P"))
                k = answered
                tok = m.group(1)
                reply = None
                if pattern in ("always", "slow_register_always", "cap_midsession_always"):
                    reply = (tl, "PONG :" + tok)
                elif pattern == "late_ok":
                    reply = (tl + int(pong * 500), "PONG :" + tok)
                elif pattern == "late_bad":
                    reply = (tl + int(pong * 1000) + 500, "PONG :" + tok)
                elif pattern == "stop_after_2" and k < 2:
                    reply = (tl, "PONG :" + tok)
                elif pattern == "stop_after_1_chatter" and k < 1:
                    reply = (tl, "PONG :" + tok)
                elif pattern == "odd_token":
                    reply = (tl, ["PONG :something else", "PONG x", "pong :" + tok, "PONG irc.irc :y"][k % 4])
                elif pattern == "partial_always":
                    # finishes the pending line, answers, and starts the next unfinished line
                    reply = (tl, "\r\nPONG :" + tok + "\r\nPRIVMSG nobody :unfinished again")
                elif pattern == "empty_token_always":
                    reply = (tl, "PONG :")          # a PONG with ANY token answers the PING - also the empty one (seeded C17-f)
                if reply:
                    pending.append(reply)
                    answered += 1
            if re.match(r"^(?::\S+ )?ERROR", ln):
                rec["error_line"] = (tl, ln)
    flood_stop.append(1)
    try:
        s.close()
    except OSError:
        pass


def check_C17(res):
    okb, outb = build_server_binary()
    if not okb:
        res.violation("the server binary does not build", {"log": outb}, found=False)
        return
    class _Collect:
        def __init__(self):
            self.violations = []

        def violation(self, what, replay, found=True):
            self.violations.append({"what": what, "replay": replay, "found": found})

    def realtime(rr):
        cfgs = [(1, 1), (1, 2), (2, 1)] if res.tier == "quick" else [(1, 1), (1, 2), (2, 1), (1, 3), (2, 2), (3, 1), (2, 3)]
        rounds = 1 if res.tier == "quick" else 3
        recs = []
        cleanup = []
        for rd in range(rounds):
            servers = []
            threads = []
            for ping, pong in cfgs:
                d = dict(name="irc.irc", admin_info="A", info="I", motd="M", network="N")
                sv = Server(d, tag="c17")
                # the timeouts are not in c20_toml's fixed part: rewrite the file is not possible after start, so start with own text
                sv.stop()
                port = free_port()
                path = os.path.join(irc.BUILD, "scratch", "c17-%d.toml" % port)
                open(path, "w").write(c20_toml(dict(d, port=port)).replace("ping_timeout = 120", "ping_timeout = %d" % ping).replace("pong_timeout = 20", "pong_timeout = %d" % pong))
                proc = subprocess.Popen([SERVER_BIN, "-c", path], stdout=subprocess.DEVNULL, stderr=subprocess.DEVNULL)
                t0 = _time.time()
                up = False
                while _time.time() - t0 < 4:
                    try:
                        socket.create_connection(("127.0.0.1", port), timeout=0.2).close()
                        up = True
                        break
                    except OSError:
                        _time.sleep(0.03)
                servers.append((proc, port, path, ping, pong))
                if not up:
                    rr.violation("the server does not start with ping_timeout=%d pong_timeout=%d" % (ping, pong), {"kind": "binary"}, found=False)
                    continue
                t_end = int((max(4 * ping, 2 * ping + pong) + 1.2) * 1000)
                mine = []
                for k, pat in enumerate(KA_PATTERNS):
                    th = threading.Thread(target=ka_client, args=(port, "k%d%s" % (k, "abc"[rd]), pat, ping, pong, t_end, mine))
                    th.start()
                    threads.append(th)
                recs.append((ping, pong, port, mine))
            for th in threads:
                th.join()
            # clean-up of the dropped sessions, seen by a live client
            for ping, pong, port, mine in recs[-len(cfgs):]:
                try:
                    c = Client(port)
                    c.send("NICK watcher")
                    c.send("USER w 8 * :W")
                    c.read_until(lambda x: " 221 " in x)
                    for r in mine:
                        ls = c.cmd("WHOIS " + r["nick"])
                        gone = not any(" 311 " in l for l in ls)
                        cleanup.append((r["nick"], r["pattern"], r["eof"] is not None, gone))
                    c.close()
                except OSError:
                    pass
            for proc, port, path, ping, pong in servers:
                proc.kill()
                proc.wait()
                try:
                    os.remove(path)
                except OSError:
                    pass
        # the timed model on the observed timelines
        cases = []
        flat = []
        for ping, pong, port, mine in recs:
            for r in mine:
                if r.get("failed") or r["reg"] is None:
                    rr.violation("keep-alive scenario %s could not register: %r" % (r["pattern"], r.get("failed")), {"kind": "binary"}, found=False)
                    continue
                evs = sorted(r["events"], key=lambda e: e[0])
                horizon = (r["eof"] if r["eof"] is not None else max([e[0] for e in evs] + [0]) + 1)
                t_end = int((max(4 * ping, 2 * ping + pong) + 1.2) * 1000) + (ping * 1000 + 300 if r["pattern"] == "slow_register_always" else 0)
                horizon = t_end
                flat.append(r)
                cases.append("KA %d %d %s" % (pong * 1000, horizon, " ".join("%d:%s" % e for e in evs)))
        pred = run_pure(cases, model=True)
        SL_EARLY, SL_LATE = 150, 900
        verdicts = collections.Counter()
        for r, p, case in zip(flat, pred, cases):
            ping, pong = r["ping"], r["pong"]
            evs = sorted(r["events"], key=lambda e: e[0])
            pings = [t for t, k in evs if k == "P" and t >= r["reg"]]
            # PING schedule: registration + k * ping_timeout
            for k, t in enumerate(pings, start=1):
                want = r["reg"] + k * ping * 1000
                if abs(t - want) > 600:
                    rr.violation("PING number %d arrives %d ms after registration, expected about %d ms (ping_timeout=%d s)" % (k, t - r["reg"], k * ping * 1000, ping),
                                  {"kind": "timing", "scenario": r}, found=True)
                    break
            if not pings and (r["eof"] is None or r["eof"] > r["reg"] + ping * 1000 + 600):
                rr.violation("no PING was sent within ping_timeout=%d s of registration" % ping, {"kind": "timing", "scenario": r}, found=True)
            # a PONG within the slack of the deadline makes the expectation ambiguous
            ambiguous = False
            if p.startswith("closed"):
                T = int(p.split()[1])
                ambiguous = any(k == "O" and abs(t - T) <= SL_EARLY for t, k in evs)
            else:
                # would a slightly later PONG have missed the deadline?  re-run the model with every PONG delayed by the slack
                shifted = sorted(((t + (SL_EARLY if k == "O" else 0), k) for t, k in evs), key=lambda e: e[0])
                p2 = run_pure(["KA %d %d %s" % (pong * 1000, int(case.split()[2]), " ".join("%d:%s" % e for e in shifted))], model=True)[0]
                ambiguous = p2.startswith("closed")
            if ambiguous:
                verdicts["ambiguous"] += 1
                continue
            if p.startswith("closed"):
                T = int(p.split()[1])
                verdicts["dropped"] += 1
                if r["eof"] is None:
                    rr.violation("a client that did not answer the PING of t=%d ms is still connected %d ms later (pong_timeout=%d s, pattern %s)" % (
                        T - pong * 1000, int(case.split()[2]) - T + pong * 1000, pong, r["pattern"]), {"kind": "timing", "scenario": r, "model": p, "case": case}, found=True)
                elif not (T - SL_EARLY <= r["eof"] <= T + SL_LATE):
                    rr.violation("the connection is closed at t=%d ms, the keep-alive model gives t=%d ms (first unanswered PING + pong_timeout=%d s; pattern %s)" % (
                        r["eof"], T, pong, r["pattern"]), {"kind": "timing", "scenario": r, "model": p, "case": case}, found=True)
                elif (r["error_line"] is None or "Pong timeout" not in r["error_line"][1]) and r["pattern"] != "flood_never":
                    # (a flooding client has unread input in the server's socket when it is closed: the reset may discard the ERROR line)
                    rr.violation("the dropped client was not sent the ERROR line before the close", {"kind": "timing", "scenario": r}, found=True)
            else:
                verdicts["kept"] += 1
                if r["eof"] is not None:
                    rr.violation("a client that answered every PING in time was disconnected at t=%d ms (pattern %s, ping=%d pong=%d)" % (r["eof"], r["pattern"], ping, pong),
                                  {"kind": "timing", "scenario": r, "model": p, "case": case}, found=True)
        for nick, pat, dropped, gone in cleanup:
            # (a kept client has closed its own socket at the end of its scenario, so only the dropped ones are judged)
            if dropped and not gone:
                rr.violation("after the keep-alive %s client %s (%s), WHOIS from a live client says it is %s" % (
                    "dropped" if dropped else "kept", nick, pat, "gone" if gone else "still registered"), {"kind": "timing"}, found=True)
        return flat, verdicts, cfgs, rounds, SL_EARLY, SL_LATE

    # wall-clock scenarios: an objection is believed only if the same scenario objects again on a second run
    # (a loaded machine can delay a thread by more than the slack)
    first = _Collect()
    flat, verdicts, cfgs, rounds, SL_EARLY, SL_LATE = realtime(first)
    retried = 0
    if first.violations:
        retried = len(first.violations)
        sig = lambda v: (re.sub(r"\d+", "#", v["what"])[:60], (v["replay"].get("scenario") or {}).get("pattern"), (v["replay"].get("scenario") or {}).get("ping"),
                         (v["replay"].get("scenario") or {}).get("pong"))
        second = _Collect()
        flat, verdicts, cfgs, rounds, SL_EARLY, SL_LATE = realtime(second)
        seen = set(sig(v) for v in first.violations)
        for v in second.violations:
            if sig(v) in seen:
                res.violations.append(v)
    # PING -> PONG token echo, through the ordinary trace machinery (also ties process_ping/process_pong to the model)
    rng = random.Random(res.seed + 17)
    traces = []
    for i in range(6 if res.tier == "quick" else 40):
        t = Trace("C17-echo-%d" % i, Config())
        t.register(0, "alice")
        t.open(1)
        for _ in range(12):
            tok = rng.choice(["x", "a b", ":c", "é", "1" * 50, "", "LALAL", "irc.irc"])
            c = rng.choice([0, 0, 1])
            t.line(c, rng.choice(["PING :" + tok, "PING " + tok.split(" ")[0] if tok else "PING", "PONG :" + tok, "PONG", "PONG a b",
                                  "PING :" + tok, "CAP LS 302", "CAP REQ :multi-prefix", "CAP LIST", "CAP END"]))
        traces.append(t)

    def echo_oracle(t, steps):
        fails = []
        reg = set()
        for s in sorted(steps, key=lambda s: s["k"]):
            ev = t.events[s["k"]]
            if ev[0] == "L" and isinstance(ev[2], str):
                tok = py_tokenize(ev[2])
                if tok[0] == "OK" and tok[2] == "PING" and tok[3] and ev[1] == 0:
                    want = ":%s PONG %s :%s" % (t.cfg.name, t.cfg.name, tok[3][0])
                    got = (s.get("out") or {}).get("0", [])
                    if s["k"] > 2 and want not in got:
                        fails.append(("PING %r is not answered with a PONG carrying the token: %r" % (tok[3][0], got), {"step": s["k"]}))
        return fails
    r = l2_campaign(res, "C17", 0, 0, {}, traces=traces, oracle=echo_oracle)
    res.coverage.update({
        "evaluations": len(flat) + r["steps"], "distinct_nontrivial": len(flat) + r["traces"],
        "rule": "real-time scenarios against the real binary: %d (ping_timeout, pong_timeout) configurations incl. pong >= ping x %d client patterns (%s) x %d round(s); every observed timeline "
                "(server PINGs, client PONGs, other traffic, in ms) is run through the extracted ka_run and the observed disconnection (time within -%d/+%d ms, ERROR line, or none) must agree; PING schedule "
                "= registration + k * ping_timeout; WHOIS from a live client after the fact; PONGs closer than %d ms to a deadline are counted as ambiguous and not judged; plus PING/PONG token-echo histories "
                "against the model" % (len(cfgs), len(KA_PATTERNS), ", ".join(KA_PATTERNS), rounds, SL_EARLY, SL_LATE, SL_EARLY),
        "traces_validated_against_impl": len(flat) + r["traces"], "verdicts": dict(verdicts), "objections_rerun": retried,
        "samples": [{"pattern": x["pattern"], "ping": x["ping"], "pong": x["pong"], "events": x["events"][:12], "eof": x["eof"]} for x in flat[:4]],
        "l2": r["summary"]})
    res.assumptions = ["wall-clock slack: the client sees a PING a little after the server's timer fired; deadlines are judged within -%d/+%d ms" % (SL_EARLY, SL_LATE)]


# ====================================================================== C18
import select as _select, glob, traceback


def lock_shape_scan():
    shape = {}
    for f in sorted(glob.glob("/repo/src/state/*.rs")):
        if f.endswith("verif.rs"):
            continue
        src = open(f).read()
        i = src.find("#[cfg(test)]")
        if i > 0:
            src = src[:i]
        fns = list(re.finditer(r"^\s*(?:pub(?:\([a-z]+\))? )?(?:async )?fn (\w+)", src, re.M))
        for k, m in enumerate(fns):
            body = src[m.start(): fns[k + 1].start() if k + 1 < len(fns) else len(src)]
            acq = re.findall(r"state\s*\.\s*(read|write)\(\)\s*\.\s*await", body)
            if acq:
                shape["%s::%s" % (f.split("/")[-1], m.group(1))] = "".join(a[0].upper() for a in acq)
    want = json.load(open(os.path.join(irc.VERIF, "inventory", "lock_shape.json")))["shape"]
    diff = {k: (want.get(k), shape.get(k)) for k in sorted(set(want) | set(shape)) if want.get(k) != shape.get(k)}
    return shape, diff


class BConn:
    """non-blocking line client for the burst scenarios"""
    def __init__(self, port):
        self.s = socket.create_connection(("127.0.0.1", port), timeout=5)
        self.s.setsockopt(socket.IPPROTO_TCP, socket.TCP_NODELAY, 1)
        self.buf = b""
        self.lines = []
        self.eof = False

    def send(self, text):
        try:
            self.s.sendall(text.encode())
        except OSError:
            self.eof = True

    def pump(self, tmo=0.0):
        if self.eof:
            return
        r, _, _ = _select.select([self.s], [], [], tmo)
        if not r:
            return
        try:
            d = self.s.recv(1 << 16)
        except OSError:
            d = b""
        if not d:
            self.eof = True
            return
        self.buf += d
        while b"\n" in self.buf:
            ln, self.buf = self.buf.split(b"\n", 1)
            self.lines.append(ln.rstrip(b"\r").decode("utf-8", "replace"))

    def wait_for(self, pred, tmo=5.0, start=0):
        t0 = _time.time()
        seen = start
        while _time.time() - t0 < tmo:
            for l in self.lines[seen:]:
                if pred(l):
                    return l
            seen = len(self.lines)
            if self.eof:
                return None
            self.pump(0.05)
        return None

    def close(self):
        try:
            self.s.close()
        except OSError:
            pass


def pump_all(conns, quiet=0.25, tmo=6.0):
    """reads from all connections until nothing has arrived for `quiet` seconds"""
    t0 = _time.time()
    last = _time.time()
    while _time.time() - t0 < tmo and _time.time() - last < quiet:
        socks = [c.s for c in conns if not c.eof]
        if not socks:
            break
        r, _, _ = _select.select(socks, [], [], 0.05)
        if r:
            last = _time.time()
            for c in conns:
                if c.s in r:
                    c.pump(0)


def register_all(port, nicks):
    cs = []
    for n in nicks:
        c = BConn(port)
        c.send("NICK %s\r\nUSER %s 8 * :%s\r\n" % (n, n, n))
        cs.append(c)
    for c, n in zip(cs, nicks):
        if not c.wait_for(lambda l: " 221 " in l or " 433 " in l):
            raise RuntimeError("registration of %s did not complete" % n)
    return cs


def check_C18(res):
    okb, outb = build_server_binary()
    if not okb:
        res.violation("the server binary does not build", {"log": outb}, found=False)
        return
    shape, sdiff = lock_shape_scan()
    class _Collect:
        def __init__(self):
            self.violations = []

        def violation(self, what, replay, found=True):
            self.violations.append({"what": what, "replay": replay, "found": found})

    def burst(rr):
        rounds = 6 if res.tier == "quick" else 60
        N = 24
        stats = collections.Counter()
        d = dict(name="irc.irc", admin_info="A", info="I", motd="M", network="N", operators=[dict(name="admin", password=irc.pw_hash("operpass"))])
        port = free_port()
        path = os.path.join(irc.BUILD, "scratch", "c18-%d.toml" % port)
        toml = c20_toml(dict(d, port=port)) + "".join(
            '[[channels]]\nname = "#lim%d"\n[channels.modes]\ninvite_only = false\nmoderated = false\nsecret = false\nprotected_topic = false\nno_external_messages = false\nclient_limit = 3\n' % k
            for k in range(rounds))
        open(path, "w").write(toml)
        proc = subprocess.Popen([SERVER_BIN, "-c", path], stdout=subprocess.DEVNULL, stderr=subprocess.PIPE)
        t0 = _time.time()
        while _time.time() - t0 < 4:
            try:
                socket.create_connection(("127.0.0.1", port), timeout=0.2).close()
                break
            except OSError:
                _time.sleep(0.03)
        found = []

        def bad(what, detail):
            found.append(what)
            if len(found) <= 4:
                rr.violation(what, dict({"kind": "burst"}, **detail), found=True)
        stop_hogs = threading.Event()

        def hog(k):
            # ordinary clients that keep the state lock busy, so that waiting acquisitions are granted together
            try:
                c = BConn(port)
                c.send("NICK hog%d\r\nUSER h 8 * :h\r\n" % k)
                c.wait_for(lambda l: " 221 " in l)
                i = 0
                while not stop_hogs.is_set():
                    i += 1
                    c.send("".join("JOIN #h%d_%d\r\nPART #h%d_%d\r\n" % (k, j, k, j) for j in range(20)))
                    c.pump(0.01)
                    c.lines = c.lines[-50:]
                c.close()
            except Exception:
                pass
        hogs = [threading.Thread(target=hog, args=(k,)) for k in range(4)]
        for h in hogs:
            h.start()
        try:
            everyone = []
            abort_rounds = False
            for rd in range(rounds):
                # A. simultaneous claims to one nickname
                nick = "racer%d" % rd
                cs = [BConn(port) for _ in range(N)]
                for c in cs:
                    c.send("NICK %s\r\n" % nick)
                pump_all(cs, quiet=0.1, tmo=1.0)
                for c in cs:
                    c.send("USER u 8 * :u\r\n")
                for c in cs:
                    c.wait_for(lambda l: " 001 " in l or " 433 " in l, tmo=6)
                pump_all(cs, quiet=0.15, tmo=2.0)
                welcomed = [c for c in cs if any(" 001 " in l for l in c.lines)]
                refused = [c for c in cs if any(" 433 " in l for l in c.lines)]
                stats["nick_claims"] += N
                if len(welcomed) != 1 or len(welcomed) + len(refused) != N:
                    bad("of %d simultaneous claims to the nickname %s, %d were welcomed and %d refused (exactly one must win)" % (N, nick, len(welcomed), len(refused)),
                        {"round": rd, "sample": [c.lines[:3] for c in cs[:4]]})
                # the losers register under their own names and everybody joins one new channel at once
                for k, c in enumerate(cs):
                    if c not in welcomed:
                        c.send("NICK r%d_%d\r\n" % (rd, k))
                for c in cs:
                    c.wait_for(lambda l: " 221 " in l, tmo=6)
                names = {}
                for k, c in enumerate(cs):
                    names[c] = nick if c in welcomed[:1] else "r%d_%d" % (rd, k)
                # B. simultaneous first JOINs: one channel, one founder
                ch = "#race%d" % rd
                for c in cs:
                    c.send("JOIN %s\r\n" % ch)
                pump_all(cs, quiet=0.3, tmo=6.0)
                w = cs[0]
                n0 = len(w.lines)
                w.send("NAMES %s\r\n" % ch)
                w.wait_for(lambda l: " 366 " in l and ch in l, start=n0)
                members = [x for l in w.lines[n0:] if " 353 " in l for x in l.split(" :", 1)[1].split()]
                founders = [m for m in members if m.startswith("~")]
                stats["first_joins"] += N
                if len(members) != N or len(founders) != 1:
                    bad("%d simultaneous first JOINs of %s leave %d members and %d founders (%d members, one founder expected)" % (N, ch, len(members), len(founders), N),
                        {"round": rd, "names": members})
                # C. a +l limit is never exceeded
                lim = "#lim%d" % rd
                if rd % 2 == 1:
                    # every joiner holds a pending invitation from the first member: an invitation admits past +i, never past +l
                    # (seeded C18-g)
                    cs[0].send("JOIN %s\r\n" % lim)
                    cs[0].wait_for(lambda l: " 366 " in l and lim in l, tmo=6)
                    cs[0].send("".join("INVITE %s %s\r\n" % (names[c], lim) for c in cs[1:]))
                    pump_all(cs, quiet=0.3, tmo=6.0)
                    stats["limit_joins_invited"] += N - 1
                # (in the invited rounds the first member is already in: a second JOIN of a member is answered with 471 or with nothing
                # depending on whether the channel has filled up by then, so it would be counted as admitted AND refused)
                for c in (cs[1:] if rd % 2 == 1 else cs):
                    c.send("JOIN %s\r\n" % lim)
                pump_all(cs, quiet=0.3, tmo=6.0)
                n0 = len(w.lines)
                w.send("NAMES %s\r\n" % lim)
                w.wait_for(lambda l: " 366 " in l and lim in l, start=n0)
                inside = [x for l in w.lines[n0:] if " 353 " in l for x in l.split(" :", 1)[1].split()]
                full = sum(1 for c in cs if any(" 471 " in l and lim in l for l in c.lines))
                stats["limit_joins"] += N
                if (len(inside) != 3 and w not in [c for c in cs if any(l.startswith(":") and " JOIN " in l and lim in l for l in c.lines)]) or len(inside) > 3:
                    bad("%d simultaneous JOINs of %s (+l 3) leave %d members" % (N, lim, len(inside)), {"round": rd, "names": inside})
                joined_lim = sum(1 for c in cs if any(re.match(r"^:%s!\S+ JOIN %s$" % (re.escape(names[c]), re.escape(lim)), l) for l in c.lines))
                if joined_lim > 3 or joined_lim + full != N:
                    bad("JOIN %s (+l 3) by %d users at once: %d admitted, %d refused with 471" % (lim, N, joined_lim, full), {"round": rd})
                # D. order: pipelined commands of every connection, sequence numbers on every socket
                K = 12
                ordc = cs[:8]
                for c in ordc:
                    c.lines = []
                for c in ordc:
                    c.send("".join("PRIVMSG %s :%s-%d\r\nPING p%d\r\n" % (ch, names[c], n, n) for n in range(K)))
                pump_all(cs, quiet=0.4, tmo=8.0)
                stats["ordered_messages"] += len(ordc) * K
                for c in ordc:
                    toks = [l.rsplit(":", 1)[1] for l in c.lines if " PONG " in l]
                    if toks != ["p%d" % n for n in range(K)]:
                        bad("replies to one connection's pipelined PINGs arrive as %r" % (toks,), {"round": rd})
                for rc in cs:
                    per = collections.defaultdict(list)
                    for l in rc.lines:
                        m = re.match(r"^:([^! ]+)!\S+ PRIVMSG %s :(\S+)-(\d+)$" % re.escape(ch), l)
                        if m and m.group(1) == m.group(2):
                            per[m.group(1)].append(int(m.group(3)))
                    for snd in ordc:
                        if snd is rc:
                            continue
                        got = per.get(names[snd], [])
                        if rc in ordc and got and got != list(range(K)) or (rc not in ordc and got != list(range(K))):
                            if got != list(range(K)):
                                bad("messages from %s reach %s as sequence %r (0..%d in order expected)" % (names[snd], names[rc], got, K - 1), {"round": rd})
                # G. a client that pipelines long queries and never reads must not stall anybody else
                if rd == 0:
                    import fcntl, termios, struct
                    ls_ = socket.socket()
                    ls_.setsockopt(socket.SOL_SOCKET, socket.SO_RCVBUF, 4096)
                    ls_.connect(("127.0.0.1", port))
                    ls_.sendall(b"NICK lazy\r\nUSER l 8 * :l\r\n")
                    _time.sleep(0.3)
                    w.send("".join("JOIN #pub%d\r\n" % k for k in range(80)))
                    pump_all([w], quiet=0.3, tmo=5.0)
                    blob = ("LIST\r\nNAMES\r\nWHO *\r\n" * 6000).encode()
                    ls_.setblocking(False)
                    sent = 0
                    t0 = _time.time()
                    while sent < len(blob) and _time.time() - t0 < 3.0:
                        try:
                            sent += ls_.send(blob[sent:sent + 65536])
                        except (BlockingIOError, OSError):
                            _time.sleep(0.01)
                    # wait until the server has stopped writing to the lazy socket (its kernel buffers are full)
                    def queued():
                        try:
                            return struct.unpack("i", fcntl.ioctl(ls_.fileno(), termios.FIONREAD, b"\0\0\0\0"))[0]
                        except OSError:
                            return -1
                    last, since = -2, _time.time()
                    t0 = _time.time()
                    while _time.time() - t0 < 8.0:
                        q = queued()
                        if q != last:
                            last, since = q, _time.time()
                        elif _time.time() - since > 0.8 and q > 0:
                            break
                        _time.sleep(0.05)
                    stats["lazy_reader_requests_bytes"] = sent
                    stats["lazy_reader_unread_bytes"] = max(last, 0)
                    probes = cs[:6]
                    marks = {c: len(c.lines) for c in probes}
                    for c in probes:
                        c.send("JOIN #lz%d\r\nPING lazy%d\r\n" % (rd, rd))
                    for c in probes:
                        if not c.wait_for(lambda l: l.endswith(":lazy%d" % rd), tmo=8, start=marks[c]) or \
                           not any(" JOIN #lz%d" % rd in l for l in c.lines[marks[c]:]):
                            bad("while one client pipelines long queries without reading its socket, another connection's JOIN is not carried out / answered", {"round": rd, "nick": names[c]})
                            break
                    n1 = BConn(port)
                    n1.send("NICK fresh%d\r\nUSER f 8 * :f\r\n" % rd)
                    if not n1.wait_for(lambda l: " 001 " in l, tmo=8):
                        bad("while one client pipelines long queries without reading its socket, a new connection cannot register", {"round": rd})
                    n1.close()
                    try:
                        ls_.close()
                    except OSError:
                        pass
                # H. fan-out while the state lock is held (OPER verifies its password under the write lock) and a
                #    member leaves: every remaining member gets every message exactly once
                if rd == 1:
                    fan = "#fan%d" % rd
                    snd = cs[0]
                    listeners = cs[1:9]
                    opers_ = cs[9:13]
                    quitters = [BConn(port) for _ in range(6)]
                    for k3, q in enumerate(quitters):
                        q.send("NICK quit%d\r\nUSER q 8 * :q\r\n" % k3)
                    for q in quitters:
                        q.wait_for(lambda l: " 221 " in l)
                    for c in [snd] + listeners + quitters:
                        c.send("JOIN %s\r\n" % fan)
                    pump_all(cs + quitters, quiet=0.3, tmo=5.0)
                    marks = {c: len(c.lines) for c in listeners}
                    for k3, q in enumerate(quitters):
                        for oc in opers_:
                            oc.send("OPER admin operpass\r\n")
                        _time.sleep(0.02)
                        snd.send("PRIVMSG %s :fan-%d\r\n" % (fan, k3))
                        q.send("QUIT :bye\r\n")
                        _time.sleep(0.35)
                    pump_all(cs + quitters, quiet=0.5, tmo=8.0)
                    stats["fanout_messages"] += len(quitters) * len(listeners)
                    for c in listeners:
                        got = [l.rsplit(":fan-", 1)[1] for l in c.lines[marks[c]:] if " PRIVMSG %s :fan-" % fan in l]
                        if sorted(got) != [str(k3) for k3 in range(len(quitters))]:
                            bad("a channel message sent while a member was leaving and the state lock was held reached %s as %r (each of fan-0..fan-%d exactly once expected)" % (
                                names[c], got, len(quitters) - 1), {"round": rd})
                            break
                    for q in quitters:
                        q.close()
                # I. KILL and a concurrent claim of the victim's nick while the state lock is busy: the outcome is one of the two
                #    sequential ones (claim refused and the claimant keeps its nick / claim accepted and the claimant owns the
                #    new nick), ISON agrees, and the claimant is still served
                if rd == 2:
                    oper_ = cs[9]
                    holders = cs[10:18]
                    mk = len(oper_.lines)
                    oper_.send("OPER admin operpass\r\n")
                    oper_.wait_for(lambda l: " 381 " in l, tmo=10, start=mk)
                    vics = [BConn(port) for _ in range(4)]
                    clms = [BConn(port) for _ in range(4)]
                    for k3 in range(4):
                        vics[k3].send("NICK vic%d\r\nUSER v 8 * :v\r\n" % k3)
                        clms[k3].send("NICK clm%d\r\nUSER c 8 * :c\r\n" % k3)
                    for c in vics + clms:
                        c.wait_for(lambda l: " 221 " in l, tmo=8)
                    for k3 in range(4):
                        for h in holders:
                            h.send("OPER admin wrongpw%d\r\n" % k3)
                        _time.sleep(0.03)
                        oper_.send("KILL vic%d :bye\r\n" % k3)
                        _time.sleep(0.004 * (k3 + 1))      # the claim queues for the lock right behind the KILL
                        clms[k3].send("NICK vic%d\r\n" % k3)
                        _time.sleep(0.6)
                    pump_all(cs + vics + clms, quiet=0.6, tmo=10.0)
                    for k3 in range(4):
                        c = clms[k3]
                        accepted = any(re.match(r"^:clm%d!\S+ NICK :?vic%d$" % (k3, k3), l) for l in c.lines)
                        refused = any(" 433 " in l for l in c.lines)
                        stats["kill_claim_accepted" if accepted else "kill_claim_refused"] += 1
                        cur = "vic%d" % k3 if accepted else "clm%d" % k3
                        mk = len(w.lines)
                        w.send("ISON vic%d clm%d\r\n" % (k3, k3))
                        l = w.wait_for(lambda x: " 303 " in x, tmo=5, start=mk)
                        listed = (l or "").split(":", 2)[-1].split()
                        mk2 = len(c.lines)
                        c.send("AWAY :still here\r\nPING clm%d\r\n" % k3)
                        served = bool(c.wait_for(lambda x: x.endswith(":clm%d" % k3), tmo=5, start=mk2)) and any(" 306 " in x for x in c.lines[mk2:])
                        if accepted == refused or listed != [cur] or not served or c.eof:
                            bad("KILL vic%d concurrent with NICK vic%d by clm%d: NICK %s, ISON lists %r (a sequential outcome lists exactly [%r]), the claimant is %s" % (
                                k3, k3, k3, "accepted" if accepted else "refused" if refused else "unanswered", listed, cur,
                                "served" if served and not c.eof else "no longer served / disconnected"), {"round": rd})
                            break
                    for c in vics + clms:
                        c.close()
                # J. read-only queries that list invisible users (WHO *) while other connections change state (AWAY on / off, and the
                #    bystanders' JOIN / PART): every query and every change is answered (seeded C18-e: a second acquisition of the
                #    state lock inside a query deadlocks with a queued writer - every connection stops being answered)
                if rd == 3:
                    invs, readers, writers = cs[12:20], cs[20:23], cs[4:12]
                    for c in invs:
                        c.send("MODE %s +i\r\n" % names[c])
                    pump_all(invs, quiet=0.2, tmo=3.0)
                    t_j = _time.time()
                    it = 0
                    while _time.time() - t_j < (2.5 if res.tier == "quick" else 8.0) and not abort_rounds:
                        it += 1
                        marks = {c: len(c.lines) for c in readers + writers}
                        for c in writers:
                            c.send("AWAY :busy\r\nAWAY\r\n" * 10)
                        for c in readers:
                            c.send("WHO *\r\n")
                        for c in readers:
                            if not c.wait_for(lambda l: " 315 " in l, tmo=6, start=marks[c]):
                                bad("WHO * (listing invisible users) is not answered while other connections change their AWAY state", {"round": rd, "iteration": it, "nick": names[c]})
                                abort_rounds = True
                                break
                            stats["who_under_writes"] += 1
                        for c in writers:
                            if abort_rounds:
                                break
                            t1 = _time.time()
                            while sum(1 for l in c.lines[marks[c]:] if " 305 " in l) < 10 and _time.time() - t1 < 6 and not c.eof:
                                c.pump(0.05)
                            if sum(1 for l in c.lines[marks[c]:] if " 305 " in l) < 10:
                                bad("AWAY commands are not answered while other connections ask WHO *", {"round": rd, "iteration": it, "nick": names[c]})
                                abort_rounds = True
                            stats["away_under_reads"] += 10
                        for c in readers + writers:
                            c.lines = c.lines[-200:]
                    if abort_rounds:
                        everyone = cs
                        break
                # K. fan-out followed by the activity update: a PRIVMSG sent while other connections keep the state lock busy
                #    (OPER password checks under the write lock) is delivered AND resets the sender's idle time, as it does when
                #    the commands run one at a time (seeded C18-f: the update skipped when the lock is contended)
                if rd == 4:
                    senders, holders = cs[5:8], cs[10:14]
                    _time.sleep(4.0)                       # the senders have been idle for a while
                    for h in holders:
                        h.send("OPER admin wrongpw\r\n" * 8)
                    _time.sleep(0.3)
                    t_sent = {}
                    for k3, c in enumerate(senders):
                        t_sent[c] = _time.time()
                        c.send("PRIVMSG %s :idle-probe-%d\r\n" % (names[w], k3))
                        _time.sleep(0.15)
                    okd = all(w.wait_for(lambda l, k3=k3: l.endswith(":idle-probe-%d" % k3), tmo=15) for k3 in range(len(senders)))
                    if not okd:
                        bad("a PRIVMSG sent while the state lock was busy was not delivered", {"round": rd})
                    for c in senders:
                        mk = len(w.lines)
                        w.send("WHOIS %s\r\n" % names[c])
                        l = w.wait_for(lambda x: " 317 " in x, tmo=15, start=mk)
                        t_rep = _time.time()
                        w.wait_for(lambda x: " 318 " in x, tmo=15, start=mk)
                        mm = re.search(r" 317 \S+ \S+ (\d+) ", l or "")
                        stats["idle_after_contended_privmsg"] += 1
                        if mm is None:
                            bad("WHOIS %s gives no idle time after the burst" % names[c], {"round": rd})
                            break
                        idle, elapsed = int(mm.group(1)), t_rep - t_sent[c]
                        if idle > elapsed + 1.5:
                            bad("a PRIVMSG delivered %.1f s ago (sent while the state lock was contended) did not reset the sender's idle time: WHOIS says idle %d s - no one-at-a-time execution gives that" % (elapsed, idle), {"round": rd, "nick": names[c]})
                            break
                    pump_all(holders, quiet=0.3, tmo=10.0)
                # E. every live connection is still served
                for c in cs:
                    c.send("PING alive%d\r\n" % rd)
                for c in cs:
                    if not c.wait_for(lambda l: l.endswith(":alive%d" % rd), tmo=6):
                        bad("a connection is not answered after the burst", {"round": rd, "nick": names[c]})
                        break
                # F. consistency of the three views after quiescence
                n0 = len(w.lines)
                w.send("WHO %s\r\n" % ch)
                w.wait_for(lambda l: " 315 " in l, start=n0)
                who = sorted(l.split(" ")[7] for l in w.lines[n0:] if " 352 " in l)
                if who != sorted(m.lstrip("~&@%+") for m in members):
                    bad("after simultaneous JOINs NAMES and WHO of %s disagree" % ch, {"names": members, "who": who})
                if rd < rounds - 1:
                    for c in cs:
                        c.send("QUIT\r\n")
                        c.close()
                else:
                    everyone = cs
            for c in everyone:
                c.close()
        except Exception:
            rr.violation("the burst harness failed", {"traceback": traceback.format_exc()}, found=False)
        finally:
            stop_hogs.set()
            for h in hogs:
                h.join(timeout=5)
            proc.kill()
            err = b""
            try:
                err = proc.communicate(timeout=3)[1] or b""
            except Exception:
                pass
            try:
                os.remove(path)
            except OSError:
                pass
        if b"panicked" in err:
            rr.violation("a server task aborted during the burst: %s" % err.decode("utf-8", "replace")[-300:], {"kind": "burst"}, found=True)
        return stats, found, rounds, N

    # the bursts depend on wall-clock waits: an objection is believed only if the same kind of objection is raised
    # again when the whole burst part is run a second time
    first = _Collect()
    stats, found, rounds, N = burst(first)
    burst_rerun = 0
    if first.violations:
        burst_rerun = len(first.violations)
        sig = lambda v: re.sub(r"\d+", "#", v["what"])[:60]
        second = _Collect()
        stats, found, rounds, N = burst(second)
        seen = set(sig(v) for v in first.violations)
        kept = [v for v in second.violations if sig(v) in seen]
        res.violations.extend(kept)
        found = [v["what"] for v in kept]
    if sdiff and not found:
        res.violation("the lock structure of the handlers differs from the one the model's atomicity assumption was read from: %s" % json.dumps(sdiff),
                      {"kind": "lock_shape", "diff": sdiff, "note": "inventory/lock_shape.json; each model step is one critical section only if check and update share one acquisition"},
                      found=False)
    # sequential semantics of the same commands (one at a time) against the model
    prof = {"weights": dict(JOIN=10, NICK=6, PART=4, PRIVMSG=6, MODE=3, QUIT=1, MISC=1), "max_conns": 6, "initial_conns": 4}
    # "keeps answering every live connection": connections beyond max_connections are turned away and every slot comes back -
    # the slot histories of C19 (opens beyond the limit, closes, failed registrations) under the connection-count invariant
    r = l2_campaign(res, "C18", 20 if res.tier == "quick" else 200, 40, prof, traces=c19_slot_traces(res), oracle=inv_oracle)
    res.coverage.update({
        "evaluations": sum(stats.values()) + r["steps"], "distinct_nontrivial": rounds * 5 + r["traces"],
        "rule": "burst scenarios against the real multi-threaded binary, with 4 bystanders keeping the state lock contended: per round %d connections claim one nickname at the same moment (exactly one 001, "
                "the rest 433), all JOIN one new channel at once (all members, exactly one founder), all JOIN a +l 3 channel at once - in every second round each holding a pending invitation from the first member - (3 admitted, the rest 471), 8 of them pipeline 12 numbered PRIVMSG/PING pairs "
                "(PONG tokens in order on each socket; per sender->receiver pair the sequence 0..11 in order), every connection answers PING afterwards, NAMES and WHO agree, (second round) 6 numbered channel messages sent while four connections keep OPER (password check under the write lock) busy and a member quits - each remaining member gets each exactly once; (fifth round) three idle senders message a user while four connections keep OPER password checks under the write lock busy - each message is delivered and WHOIS shows the sender's idle time reset; (fourth round) three connections ask WHO * listing eight invisible users while eight others switch AWAY on and off - every query and every change answered; and (first round) a client that pipelines 12000 LIST/NAMES/WHO queries over 80 channels without ever reading its socket must not keep others from being answered or registering; %d rounds; plus the scan of "
                "lock acquisitions per handler against inventory/lock_shape.json; plus %d sequential histories against the model, among them the max_connections slot histories with the connection-count invariant" % (N, rounds, r["traces"]),
        "traces_validated_against_impl": r["traces"], "burst": dict(stats), "lock_shape_functions": len(shape), "lock_shape_diff": sdiff, "burst_objections_rerun": burst_rerun,
        "samples": [{"round": 0, "claims": N, "channel": "#race0", "limit_channel": "#lim0"}],
        "l2": r["summary"]})
    res.assumptions = ["real schedules are sampled, not enumerated: the burst scenarios support the theorems about the section structure, they do not replace them",
                       "tokio's RwLock fairness and the mpsc FIFO are trusted runtime properties"]
