"""props.py - the per-property correspondence checks and oracles."""
import itertools, json, os, random, re, sys, collections
import irc, gen
from irc import hx, run_pure, run_traces, compare_trace, Config, Trace, canon_step


def unhex_s(h):
    return bytes.fromhex(h).decode("utf-8", "replace")


def load_known(pid):
    try:
        k = json.load(open(os.path.join(irc.VERIF, "known_findings.json")))
    except Exception:
        return []
    return [f for f in k.get("findings", []) if f.get("property") == pid]


# ====================================================================== C14
def c14_pairs(res):
    rng = random.Random(res.seed)
    alpha = ["a", "b", "*", "?", "é"]
    maxlen = 4 if res.tier == "quick" else 5
    strs = [""]
    for n in range(1, maxlen + 1):
        strs += ["".join(x) for x in itertools.product(alpha, repeat=n)]
    pats = strs
    texts = [s for s in strs if "*" not in s and "?" not in s] + ["*", "?", "a*", "?b"]
    pairs = [(p, t) for p in pats for t in texts]
    exhaustive_n = len(pairs)
    # long random pairs: literal runs longer than the text, stacked wildcards, multi-byte
    pool = "ab*?é漢!@.~-_0😀"
    for _ in range(20000 if res.tier == "quick" else 200000):
        lp, lt = rng.randint(0, 14), rng.randint(0, 14)
        t = "".join(rng.choice("abé漢!@.~😀") for _ in range(lt))
        r = rng.random()
        if r < 0.4:
            # derive the pattern from the text so that many match
            p = ""
            for ch in t:
                x = rng.random()
                p += ch if x < 0.6 else "?" if x < 0.75 else "*" if x < 0.9 else ""
            if rng.random() < 0.3:
                p += rng.choice(["*", "a", "**", "?"])
        else:
            p = "".join(rng.choice(pool) for _ in range(lp))
        pairs.append((p, t))
    return pairs, exhaustive_n


def check_C14(res):
    pairs, exh = c14_pairs(res)
    lines = ["W %s %s" % (hx(p), hx(t)) for p, t in pairs]
    impl = run_pure(lines)
    model = run_pure(lines, model=True)
    spec = run_pure(["WG %s %s" % (hx(p), hx(t)) for p, t in pairs], model=True)
    impl_rel = run_pure(lines, binary=irc.RSH_REL) if res.tier == "thorough" else None
    n_true = sum(1 for x in impl if x == "true")
    spec_fail = tie_fail = 0
    for idx, (p, t) in enumerate(pairs):
        if impl[idx] != spec[idx] or (impl_rel and impl_rel[idx] != spec[idx]):
            spec_fail += 1
            if spec_fail <= 3:
                res.violation("match_wildcard(%r, %r) = %s but glob semantics gives %s" %
                              (p, t, impl[idx] if impl[idx] != spec[idx] else impl_rel[idx], spec[idx]),
                              {"kind": "pure", "case": lines[idx], "pattern": p, "text": t,
                               "impl": impl[idx], "impl_release": impl_rel[idx] if impl_rel else None,
                               "spec_glob": spec[idx], "model": model[idx]}, found=True)
        elif impl[idx] != model[idx]:
            tie_fail += 1
    if tie_fail and not spec_fail:
        res.violation("correspondence Wild.wild_match vs utils.rs match_wildcard differs on %d inputs" % tie_fail,
                      {"kind": "tie", "note": "implementation agrees with the glob specification on every explored input"},
                      found=False)
    # normalize_sourcemask
    rng = random.Random(res.seed + 1)
    masks = ["", "!", "@", "!@", "@!", "a", "a!b", "a@b", "a!b@c", "a@b!c", "a!b!c", "a@b@c", "é!ü@漢", "*", "*!*@*",
             "nick!user", "nick@host", "!u@h", "n!@h", "n!u@"]
    for _ in range(3000 if res.tier == "quick" else 30000):
        masks.append("".join(rng.choice("ab!@*é.") for _ in range(rng.randint(0, 8))))
    nl = ["N %s" % hx(m) for m in masks]
    ni, nm = run_pure(nl), run_pure(nl, model=True)
    norm_bad = 0
    for m, a, b in zip(masks, ni, nm):
        exp = None
        if a.startswith("PANIC"):
            exp = "aborts"
        else:
            v = json.loads(a)
            # the property's own statement of the completion
            if "!" in m:
                e = m if "@" in m[m.index("!") + 1:] else m + "@*"
            elif "@" in m:
                i = m.index("@")
                e = m[:i] + "!*" + m[i:]
            else:
                e = m + "!*@*"
            if v != e:
                exp = "gives %r, the documented completion is %r" % (v, e)
        if exp:
            norm_bad += 1
            if norm_bad <= 2:
                res.violation("normalize_sourcemask(%r) %s" % (m, exp), {"kind": "pure", "case": "N " + hx(m), "mask": m,
                                                                      "impl": a, "model": b}, found=True)
        elif a != b:
            norm_bad += 1
            res.violation("correspondence Mask.normalize_mask vs normalize_sourcemask differs", {"mask": m, "impl": a, "model": b},
                          found=False)
    # callers of the matcher, through the real server: bans, exceptions, invex, oper/user masks, WHO, WHOIS
    prof = {"weights": dict(MODE=16, JOIN=14, WHO=6, WHOIS=5, OPER=4, PRIVMSG=6, KICK=1, TOPIC=1, MISC=0.3, BAD=0.5),
            "p_users": 0.6, "p_operators": 0.9}
    ntr = 60 if res.tier == "quick" else 600
    l2 = l2_campaign(res, "C14", ntr, 40, prof, project=None)
    res.coverage.update({
        "evaluations": len(pairs) + len(masks) + l2["steps"],
        "distinct_nontrivial": len(set(pairs)) + len(set(masks)),
        "rule": "wildcard pairs: exhaustive over alphabet {a,b,*,?,é} (patterns up to length %d x literal texts up to length %d = %d pairs) "
                "plus seeded random long pairs (multi-byte, stacked wildcards, literal runs longer than the text); distinct = distinct (pattern,text) "
                "and distinct masks; each is compared impl vs model AND impl vs extracted glob specification; callers exercised by %d server traces" % (
                    4 if res.tier == "quick" else 5, 4 if res.tier == "quick" else 5, exh, ntr),
        "exhaustive": False, "exhaustive_part": exh,
        "traces_validated_against_impl": l2["traces"],
        "samples": [{"pattern": p, "text": t, "impl": impl[i], "model": model[i], "glob": spec[i]}
                    for i, (p, t) in list(enumerate(pairs))[exh:exh + 6]] + [{"mask": masks[25], "normalized": ni[25]}],
        "matching_pairs": n_true, "release_build_checked": impl_rel is not None,
        "l2": l2["summary"]})
    res.assumptions = ["UTF-8 <-> code point conversion in the two drivers is trusted",
                       "callers (bans, exceptions, invite exceptions, OPER and user masks, WHO, WHOIS) are tied by server traces, see l2"]


# ====================================================================== generic L2 campaign
def l2_campaign(res, pid, ntraces, length, profile, project=None, traces=None, oracle=None):
    """generates traces, runs implementation and model, compares (optionally projected);
    oracle(trace, impl_steps) -> list of (description, replay) property failures on the implementation itself"""
    rng = random.Random(res.seed ^ hash(pid) % 100000)
    if traces is None:
        traces = []
    corpus_dir = os.path.join(irc.VERIF, "corpus", pid)
    traces = list(traces) + [gen.gen_trace(rng, "%s-%d" % (pid, i), length, profile) for i in range(ntraces)]
    impl, model = run_traces(traces, tag=pid)
    steps = 0
    mism = []
    oracle_fail = []
    verbs = collections.Counter()
    codes = collections.Counter()
    for t in traces:
        si = impl.get(t.id)
        if si:
            steps += len(si)
            for s in si:
                for c, ls in (s.get("out") or {}).items():
                    for l in ls:
                        m = re.match(r"^:\S+ (\S+)", l)
                        if m:
                            codes[m.group(1)] += 1
        for e in t.events:
            if e[0] == "L" and isinstance(e[2], str):
                verbs[(e[2].split(" ") or [""])[0].upper()[:12]] += 1
        d = compare_trace(t, si, model.get(t.id), project=project)
        if d:
            mism.append((t, d))
        if oracle and si:
            for desc, rp in oracle(t, si):
                oracle_fail.append((t, desc, rp))
    for t, desc, rp in oracle_fail[:3]:
        r = {"kind": "trace", "trace": t.describe(), "failure": desc}
        r.update(rp or {})
        res.violation(desc, r, found=True)
    if mism and not oracle_fail:
        t, d = mism[0]
        res.violation("correspondence model vs implementation differs (%d of %d traces), first at step %d of %s: %s" % (
            len(mism), len(traces), d["k"], t.id, d["what"]),
            {"kind": "trace", "trace": t.describe(), "diff": d, "trace_file": t.render()}, found=False)
    return {"traces": len(traces), "steps": steps, "mismatches": len(mism),
            "summary": {"traces": len(traces), "steps": steps, "mismatching_traces": len(mism),
                        "verbs": dict(verbs.most_common(40)), "reply_codes": dict(codes.most_common(60))},
            "impl": impl, "model": model, "trace_objs": traces}


# ====================================================================== dispatch
def run(pid, res):
    fn = globals().get("check_" + pid)
    if fn is None:
        res.violation("no check implemented for %s" % pid, {}, found=False)
        return
    fn(res)


def replay(path):
    r = json.load(open(path))
    rp = r.get("replay", {})
    print("property:", r.get("property"), "-", r.get("what"))
    if rp.get("kind") == "pure":
        out = run_pure([rp["case"]])
        print("implementation now answers:", out)
        return 0
    if rp.get("kind") == "trace" and rp.get("trace_file"):
        p = os.path.join(irc.BUILD, "replay.trace")
        open(p, "w").write(rp["trace_file"])
        import subprocess
        for b in (irc.RSH, irc.MODEL):
            print("==", b)
            print(subprocess.run([b, "trace", p], capture_output=True, text=True).stdout[-4000:])
        return 0
    print(json.dumps(rp, indent=1, ensure_ascii=False)[:4000])
    return 0


# ====================================================================== helpers for oracles
SIX = {"CAP", "AUTHENTICATE", "PASS", "NICK", "USER", "QUIT"}


def first_verb(line):
    if isinstance(line, bytes):
        try:
            line = line.decode("utf-8")
        except Exception:
            return None
    ws = line.split()
    if ws and ws[0].startswith(":"):
        ws = ws[1:]
    return ws[0].upper() if ws else None


def numeric_of(line):
    m = re.match(r"^:\S+ (\S+)", line)
    return m.group(1) if m else None


def strip_dump(d):
    """dump without fields that legitimately move (none at present)"""
    return d


# ====================================================================== C03
ALL_VERB_LINES = [
    "JOIN #a", "PART #a", "TOPIC #a", "TOPIC #a :x", "NAMES", "NAMES #a", "LIST", "INVITE bob #a", "KICK #a bob",
    "MOTD", "VERSION", "ADMIN", "CONNECT a.b", "LUSERS", "TIME", "STATS u", "LINKS", "HELP", "INFO", "MODE bob",
    "MODE #a +i", "MODE bob +i", "PRIVMSG bob :hi", "PRIVMSG #a :hi", "NOTICE bob :hi", "WHO *", "WHO bob", "WHOIS bob",
    "WHOWAS bob", "KILL bob :x", "REHASH", "RESTART", "SQUIT irc.irc :x", "AWAY :gone", "USERHOST bob", "WALLOPS :x",
    "ISON bob", "DIE", "PING x", "PONG x", "OPER admin operpass", "FOO", "join #a", "JOIN", "PRIVMSG", "MODE", "",
    "CAP LS 302", "CAP LIST", "CAP REQ :multi-prefix", "CAP END", "AUTHENTICATE", "PASS secret1", "NICK bob", "NICK zed",
    "USER z 8 * :Z", "QUIT",
]


def c03_cases(res):
    rng = random.Random(res.seed)
    cfgs = []
    cfgs.append(("nopw", Config(operators=[dict(name="admin", password="operpass")])))
    cfgs.append(("srvpw", Config(password="secret1", operators=[dict(name="admin", password="operpass")])))
    cfgs.append(("userpw", Config(users=[dict(name="zed", nick="zed", password="topsecret", mask=None)])))
    cfgs.append(("usermask", Config(users=[dict(name="zed", nick="zed", password=None, mask="zed!*@10.*")])))
    cfgs.append(("usermaskok", Config(password="secret1",
                                      users=[dict(name="zed", nick="zed", password="topsecret", mask="z*!~zed@127.0.0.?")])))
    prefixes = [[], ["PASS secret1"], ["PASS topsecret"], ["PASS wrongpw"], ["NICK zed"], ["USER zed 8 * :Z"],
                ["CAP LS 302", "NICK zed", "USER zed 8 * :Z"], ["PASS secret1", "NICK zed"], ["PASS topsecret", "USER zed 8 * :Z"],
                ["CAP LS 302"], ["NICK bob"], ["USER zed 8 * :Z", "NICK bob"]]
    finishers = [["NICK zed", "USER zed 8 * :Z", "CAP END"], ["PASS secret1", "NICK zed", "USER zed 8 * :Z", "CAP END"],
                 ["PASS topsecret", "USER zed 8 * :Z", "NICK zed", "CAP END"]]
    traces = []
    k = 0
    for cname, cfg in cfgs:
        for pi, pre in enumerate(prefixes):
            probes = ALL_VERB_LINES if res.tier == "thorough" or True else ALL_VERB_LINES
            for li, probe in enumerate(probes):
                if res.tier == "quick" and (k * 7 + li) % 3 != 0 and probe not in ("JOIN #a", "PRIVMSG bob :hi", "WHO *"):
                    k += 1
                    continue
                k += 1
                t = Trace("c03-%s-%d-%d" % (cname, pi, li), cfg)
                pw = cfg.password
                t.open(0)
                if pw:
                    t.line(0, "PASS " + pw)
                t.line(0, "NICK bob")
                t.line(0, "USER bob 8 * :Bob")
                t.line(0, "JOIN #a")
                t.open(1)
                for p in pre:
                    t.line(1, p)
                t.line(1, probe)
                for f in finishers[(pi + li) % len(finishers)]:
                    t.line(1, f)
                t.line(1, "LUSERS")
                t.meta = {"cfg": cname, "prefix": pre, "probe": probe}
                traces.append(t)
    # registration refused half-way by a nickname collision that only shows at the end
    for cname, cfg in cfgs:
        for li, probe in enumerate(ALL_VERB_LINES):
            if res.tier == "quick" and li % 4 != 0 and probe not in ("JOIN #a", "PRIVMSG bob :hi", "WHO *", "NICK zed", "MODE bob +i"):
                continue
            for order in (0, 1):
                t = Trace("c03-late-%s-%d-%d" % (cname, li, order), cfg)
                pw = cfg.password
                uc = [u for u in cfg.users if u["name"] == "zed"]
                pw1 = (uc[0].get("password") if uc and uc[0].get("password") else None) or pw
                t.open(1)
                if pw1:
                    t.line(1, "PASS " + pw1)
                if order == 0:
                    t.line(1, "NICK zed")
                else:
                    t.line(1, "CAP LS 302")
                    t.line(1, "NICK zed")
                    t.line(1, "USER zed 8 * :Z")
                t.open(0)
                if pw:
                    t.line(0, "PASS " + pw)
                t.line(0, "NICK zed")
                t.line(0, "USER other 8 * :Other")
                t.line(0, "JOIN #a")
                t.line(1, "USER zed 8 * :Z" if order == 0 else "CAP END")
                t.line(1, probe)
                t.line(1, "PRIVMSG #a :spoof")
                t.close(1)
                t.line(0, "ISON zed")
                t.line(0, "NAMES #a")
                t.meta = {"cfg": cname, "prefix": ["late-collision", order], "probe": probe}
                traces.append(t)
    return traces


def c03_oracle(t, steps):
    """the gate on the implementation's own observations"""
    fails = []
    registered = set()
    closed = set()
    prev_dump = None
    srv = t.cfg.name
    for s in sorted(steps, key=lambda s: s["k"]):
        ev = t.events[s["k"]]
        dump = s.get("dump")
        cid = ev[1] if len(ev) > 1 else None
        if ev[0] == "L" and cid not in registered and cid not in closed:
            v = first_verb(ev[2])
            outs = s.get("out") or {}
            if v is not None and v not in SIX:
                mine = outs.get(str(cid), [])
                others = {c: l for c, l in outs.items() if c != str(cid) and l}
                ok_reply = len(mine) == 1 and numeric_of(mine[0]) in ("451", "421", "461", "472", "501", "696", "ERROR")
                if not ok_reply:
                    fails.append(("unregistered connection %d sent %r and was answered %r (expected exactly ERR_NOTREGISTERED or a parse error)" % (cid, ev[2], mine), {"step": s["k"]}))
                if prev_dump is not None and dump != prev_dump:
                    fails.append(("unregistered connection %d sent %r and the server state changed: %s" % (
                        cid, ev[2], irc.diff_dump(prev_dump, dump, "dump")), {"step": s["k"]}))
                if others:
                    fails.append(("unregistered connection %d sent %r and other connections received %r" % (cid, ev[2], others), {"step": s["k"]}))
                if s.get("eof"):
                    fails.append(("unregistered connection %d sent %r and connections %r were closed" % (cid, ev[2], s["eof"]), {"step": s["k"]}))
        for c, ls in (s.get("out") or {}).items():
            for l in ls:
                if l.startswith(":" + srv + " 001 "):
                    registered.add(int(c))
        closed.update(s.get("eof") or [])
        prev_dump = dump
    # password / mask requirement: the probing connection (1) registers as zed only with the right credentials
    cfg = t.cfg
    uc = [u for u in cfg.users if u["name"] == "zed"]
    need = (uc[0].get("password") if uc and uc[0].get("password") else None) or cfg.password
    mask = uc[0].get("mask") if uc else None
    passes = [e[2].split(" ", 1)[1] for e in t.events if e[0] == "L" and e[1] == 1 and isinstance(e[2], str) and e[2].upper().startswith("PASS ")]
    got001 = 1 in registered
    if got001 and need is not None:
        # the password in force when registration completed is the last PASS before the 001 step
        k001 = min(s["k"] for s in steps for c, ls in (s.get("out") or {}).items() if c == "1" for l in ls if " 001 " in l[:40])
        last = None
        for idx, e in enumerate(t.events[:k001 + 1]):
            if e[0] == "L" and e[1] == 1 and isinstance(e[2], str) and e[2].upper().startswith("PASS "):
                last = e[2].split(" ", 1)[1]
        if last != need:
            fails.append(("connection 1 completed registration with password %r while %r is required" % (last, need), {"step": k001}))
    if got001 and mask == "zed!*@10.*":
        nick_at_reg = [d for s in steps for d in [s.get("dump")] if d]
        fails.append(("connection 1 registered although the configured user mask %r cannot match a loopback client" % mask, {}))
    return fails


def check_C03(res):
    traces = c03_cases(res)
    prof = {"weights": dict(REG=8, BAD=4, NICK=5, JOIN=4, PRIVMSG=4), "p_server_password": 0.5, "p_users": 0.7,
            "initial_conns": 1, "max_conns": 5}
    rng = random.Random(res.seed + 3)
    extra = 40 if res.tier == "quick" else 600
    r = l2_campaign(res, "C03", extra, 30, prof, traces=traces, oracle=c03_oracle)
    distinct = len(set((t.meta.get("cfg"), tuple(t.meta.get("prefix", [])), t.meta.get("probe")) for t in traces))
    res.coverage.update({
        "evaluations": r["steps"], "distinct_nontrivial": distinct,
        "rule": "finite sweep: 5 configurations (no password / server password / configured user with password / with non-matching mask / with "
                "matching mask and both passwords) x 12 registration-progress prefixes x %d probe lines (every verb, malformed and unknown lines); "
                "quick tier runs a fixed third of the cells plus the cells JOIN/PRIVMSG/WHO; each trace then finishes registration in one of 3 orders; "
                "distinct = distinct (config, prefix, probe) cells; plus %d random registration-heavy traces" % (len(ALL_VERB_LINES), extra),
        "exhaustive": res.tier == "thorough",
        "traces_validated_against_impl": r["traces"],
        "samples": [traces[i].describe() for i in (0, len(traces) // 2)],
        "l2": r["summary"]})
    res.assumptions = ["argon2 verification is a parameter (verify) of the model; the driver instantiates it with the table of hashes computed by the real argon2_hash_password"]


# ====================================================================== python-side spec helpers
def py_glob(p, t):
    """textbook glob ('*' any run, '?' one character), iterative with backtracking"""
    pi = ti = 0
    star = -1
    mark = 0
    while ti < len(t):
        if pi < len(p) and p[pi] == "*":
            star, mark = pi, ti
            pi += 1
        elif pi < len(p) and (p[pi] == "?" or p[pi] == t[ti]):
            pi += 1
            ti += 1
        elif star >= 0:
            pi = star + 1
            mark += 1
            ti = mark
        else:
            return False
    while pi < len(p) and p[pi] == "*":
        pi += 1
    return pi == len(p)


def py_banned(ch, source):
    return any(py_glob(b, source) for b in ch["ban"]) and not any(py_glob(e, source) for e in ch["exception"])


def py_target_type(target):
    """get_privmsg_target_type as specified: leading status prefixes, then the channel name"""
    flags = set()
    i = 0
    n = len(target)
    amp = 0
    last_amp = False
    while i < n:
        c = target[i]
        if c in "~@%+":
            flags.add(c)
        elif c == "&":
            flags.add("&")
        elif c == "#":
            return (flags, target[i:]) if i + 1 < n else (None, "")
        else:
            if last_amp:
                if amp < 2:
                    flags.discard("&")
                return (flags, target[i - 1:])
            return (None, "")
        if c == "&":
            if i + 1 < n:
                last_amp = True
                amp += 1
            else:
                return (None, "")
        else:
            last_amp = False
        i += 1
    return (flags, "")


class ConnMap:
    """which nickname each connection is registered under, read off the wire"""

    def __init__(self, srv):
        self.srv = srv
        self.nick = {}

    def update(self, step):
        for c, ls in (step.get("out") or {}).items():
            c = int(c)
            for l in ls:
                if l.startswith(":" + self.srv + " 001 "):
                    self.nick[c] = l.split(" ")[2]
                else:
                    m = re.match(r"^:([^ !]+)!\S* (?i:NICK) :?(\S+)", l)
                    if m and self.nick.get(c) == m.group(1):
                        self.nick[c] = m.group(2)
        for c in step.get("eof") or []:
            self.nick.pop(c, None)

    def conn_of(self, nick):
        for c, n in self.nick.items():
            if n == nick:
                return c
        return None


RANKSET = {"~": "founders", "&": "protecteds", "@": "operators", "%": "half_operators", "+": "voices"}


def msg_expected(dump, actor, verb, targets, text):
    """deliveries and replies the property prescribes, computed from the implementation's own pre-state"""
    users, chans = dump["users"], dump["channels"]
    src = users[actor]["source"]
    deliveries = collections.Counter()   # (nick, line)
    replies = []                          # numerics for the sender
    seen = set()
    for tg in targets:
        if tg in seen:
            continue
        seen.add(tg)
        line = ":%s %s %s :%s" % (src, verb, tg, text)
        flags, chname = py_target_type(tg)
        if flags is not None:
            ch = chans.get(chname)
            if ch is None:
                replies.append("403")
                continue
            member = actor in ch["users"]
            ok = (member or ("n" not in ch["flags"] and "s" not in ch["flags"])) and not py_banned(ch, src) and \
                 ("m" not in ch["flags"] or (member and ch["users"][actor] != ""))
            if not ok:
                replies.append("404")
                continue
            if flags:
                aud = set()
                for f in flags:
                    aud |= set(ch[RANKSET[f]])
            else:
                aud = set(ch["users"])
            for n in aud:
                if n != actor:
                    deliveries[(n, line)] += 1
        else:
            if tg in users:
                deliveries[(tg, line)] += 1
                if users[tg]["away"] is not None:
                    replies.append("301")
            else:
                replies.append("401")
    return deliveries, replies


def msg_oracle(t, steps):
    """C01 / C10 on the implementation: deliveries and sender replies of every PRIVMSG/NOTICE step"""
    fails = []
    cm = ConnMap(t.cfg.name)
    prev = None
    for s in sorted(steps, key=lambda s: s["k"]):
        ev = t.events[s["k"]]
        if ev[0] == "L" and isinstance(ev[2], str) and prev is not None and not s.get("panics"):
            m = re.match(r"^(PRIVMSG|NOTICE) (\S+) :(.*)$", ev[2])
            actor = cm.nick.get(ev[1])
            if m and actor in prev["users"] and "\t" not in ev[2] and "\r" not in ev[2]:
                verb, tl, text = m.group(1), m.group(2).split(","), m.group(3)
                valid = all(x != "" and ":" not in x for x in tl)
                if valid:
                    exp, replies = msg_expected(prev, actor, verb, tl, text)
                    got = collections.Counter()
                    for c, ls in (s.get("out") or {}).items():
                        for l in ls:
                            if re.match(r"^:\S+ (PRIVMSG|NOTICE) ", l):
                                got[(cm.nick.get(int(c)), l)] += 1
                    mine = [numeric_of(l) for l in (s.get("out") or {}).get(str(ev[1]), []) if l.startswith(":" + t.cfg.name + " ")]
                    # a syntactically refused command (bad target) answers ERROR and delivers nothing
                    if mine and mine[0] == "ERROR":
                        if got:
                            fails.append(("refused %s still delivered %r" % (verb, dict(got)), {"step": s["k"]}))
                    else:
                        if got != exp:
                            fails.append(("%s by %s: delivered %r, the audience rule gives %r" % (
                                ev[2], actor, sorted((k, v) for k, v in got.items()), sorted((k, v) for k, v in exp.items())), {"step": s["k"]}))
                        if verb == "NOTICE" and mine:
                            fails.append(("NOTICE was answered with %r" % mine, {"step": s["k"]}))
                        if verb == "PRIVMSG" and sorted(mine) != sorted(replies):
                            fails.append(("%s by %s: sender got %r, expected %r" % (ev[2], actor, sorted(mine), sorted(replies)), {"step": s["k"]}))
        cm.update(s)
        prev = s.get("dump")
    return fails


def msg_profile():
    return {"weights": dict(PRIVMSG=22, NOTICE=10, JOIN=12, PART=4, KICK=4, NICK=5, MODE=10, AWAY=3, QUIT=1.2, MISC=0.2,
                            WHO=0.3, WHOIS=0.3, LIST=0.2, WHOWAS=0.2, LUSERS=0.2, BAD=1),
            "p_close": 0.04, "max_conns": 6, "initial_conns": 3}


def msg_sweep(res):
    """every subset of status prefixes against members holding every combination of ranks, on n/s/m/ban settings"""
    traces = []
    rng = random.Random(res.seed + 11)
    prefixes = ["".join(p) for k in range(0, 6) for p in itertools.combinations("~&@%+", k)]
    k = 0
    for fl in ["", "n", "s", "m", "nm", "ns"]:
        for banned in (False, True):
            if res.tier == "quick" and (k % 2 == 1):
                k += 1
                continue
            k += 1
            cfg = Config(channels=[dict(name="#r", flags=fl, founders=["alice"], protecteds=["alice", "bob"], operators=["bob", "carol"],
                                        half_operators=["carol", "dave"], voices=["dave", "alice"],
                                        ban=(["éva!*@*", "x!*@*", "y*!*@*"] if banned else None), exception=(["x!*@127.*"] if banned else None))])
            t = Trace("msg-%s-%d" % (fl or "none", banned), cfg)
            for c, n in enumerate(["alice", "bob", "carol", "dave", "éva", "x", "yan"]):
                t.register(c, n)
                if n not in ("x", "yan"):
                    t.line(c, "JOIN #r")
            for sender in (0, 3, 4, 5, 6):
                for pf in prefixes:
                    t.line(sender, "PRIVMSG %s#r :to %s" % (pf, pf or "all"))
                t.line(sender, "NOTICE @%#r,#r,alice,@%#r :dup")
            t.meta = {"flags": fl, "banned": banned}
            traces.append(t)
    return traces


def check_C01(res):
    sweep = msg_sweep(res)
    n = 150 if res.tier == "quick" else 2500
    r = l2_campaign(res, "C01", n, 45, msg_profile(), traces=sweep, oracle=msg_oracle)
    res.coverage.update({
        "evaluations": r["steps"], "distinct_nontrivial": msg_distinct(r),
        "rule": "sweep: all 32 status-prefix subsets x 4 senders (founder+voice, half-op+voice, plain member, outsider with ban exception) on a preconfigured channel whose "
                "five rank lists overlap, x channel flags {none,n,s,m,nm,ns} x banned/not; plus %d seeded random histories (membership churn, nick changes, kicks, modes, disconnects) "
                "with PRIVMSG/NOTICE to mixed target lists; distinct = distinct (verb, target shape, outcome) of message steps; every message step is checked impl vs model AND against the "
                "audience rule evaluated on the implementation's own pre-state dump" % n,
        "traces_validated_against_impl": r["traces"],
        "samples": [sweep[0].describe()["events"][20:26], r["trace_objs"][-1].describe()["events"][:12]],
        "l2": r["summary"]})
    res.assumptions = ["per-step drain of every queue (FIFO marker) makes deliveries of one command observable as one multiset per connection; drain order is C18's subject"]


def msg_distinct(r):
    shapes = set()
    for t in r["trace_objs"]:
        si = r["impl"].get(t.id) or []
        byk = {s["k"]: s for s in si}
        for k, e in enumerate(t.events):
            if e[0] == "L" and isinstance(e[2], str):
                m = re.match(r"^(PRIVMSG|NOTICE) (\S+) ", e[2])
                if m and k in byk:
                    shape = tuple(sorted(re.sub(r"[a-zA-Zé]+", "w", x) for x in m.group(2).split(",")))
                    outc = tuple(sorted(set(numeric_of(l) or "" for ls in (byk[k].get("out") or {}).values() for l in ls)))
                    shapes.add((m.group(1), shape, outc))
    return len(shapes)


def check_C10(res):
    sweep = msg_sweep(res)
    n = 120 if res.tier == "quick" else 2000
    prof = msg_profile()
    prof["weights"].update(MODE=16, AWAY=6)
    r = l2_campaign(res, "C10", n, 45, prof, traces=sweep, oracle=msg_oracle)
    res.coverage.update({
        "evaluations": r["steps"], "distinct_nontrivial": msg_distinct(r),
        "rule": "same sweep as C01 (flags {none,n,s,m,nm,ns} x banned/excepted x every rank combination x PRIVMSG and NOTICE) plus %d seeded random histories weighted to MODE "
                "(+n/+s/+m/+b/+e/rank changes) and AWAY; distinct = distinct (verb, target shape, outcome); each message step is compared impl vs model and against the speaking rule "
                "(member or open channel, not banned unless excepted, voice on +m) evaluated on the implementation's own pre-state, incl. NOTICE silence and 301" % n,
        "traces_validated_against_impl": r["traces"],
        "samples": [sweep[-1].describe()["events"][20:26]],
        "l2": r["summary"]})


# ====================================================================== C07 / C16
def join_oracle(t, steps):
    """JOIN admission on the implementation: decision from its own pre-state, effect, announcement"""
    fails = []
    cm = ConnMap(t.cfg.name)
    prev = None
    srv = t.cfg.name
    for s in sorted(steps, key=lambda s: s["k"]):
        ev = t.events[s["k"]]
        if ev[0] == "L" and isinstance(ev[2], str) and prev is not None and not s.get("panics"):
            m = re.match(r"^JOIN (\S+)(?: (\S+))?$", ev[2])
            actor = cm.nick.get(ev[1])
            if m and actor in prev["users"]:
                chs = m.group(1).split(",")
                keys = m.group(2).split(",") if m.group(2) else None
                valid = all(c and c[0] in "#&" and ":" not in c for c in chs) and (keys is None or len(keys) == len(chs))
                mine = (s.get("out") or {}).get(str(ev[1]), [])
                if valid and not (mine and numeric_of(mine[0]) == "ERROR"):
                    u = prev["users"][actor]
                    src = u["source"]
                    jc = len(u["channels"])
                    accepted = []
                    exp_num = []
                    for idx, c in enumerate(chs):
                        if c in accepted:
                            continue
                        ch = prev["channels"].get(c)
                        ok = True
                        if ch is not None:
                            if ch["key"] is not None and (keys is None or keys[idx] != ch["key"]):
                                ok = False
                                exp_num.append("475")
                            elif py_banned(ch, src):
                                ok = False
                                exp_num.append("474")
                            elif "i" in ch["flags"] and c not in u["invited"] and not any(py_glob(e, src) for e in ch["invex"]):
                                ok = False
                                exp_num.append("473")
                            elif ch["limit"] is not None and len(ch["users"]) >= ch["limit"]:
                                ok = False
                                exp_num.append("471")
                            elif actor in ch["users"]:
                                ok = False
                        mj = t.cfg.max_joins
                        if mj is not None and jc >= mj:
                            exp_num.append("405")
                            ok = False
                        if ok:
                            accepted.append(c)
                            jc += 1
                    after = s["dump"]
                    for c in set(chs):
                        was = actor in (prev["channels"].get(c) or {"users": {}})["users"]
                        now = actor in (after["channels"].get(c) or {"users": {}})["users"]
                        should = was or c in accepted
                        if now != should:
                            fails.append(("JOIN %s by %s: membership of %s is %s, the admission rule gives %s" % (ev[2], actor, c, now, should), {"step": s["k"]}))
                        if c in accepted and c in after["users"].get(actor, {}).get("invited", []):
                            fails.append(("JOIN %s: the invitation to %s was not used up" % (ev[2], c), {"step": s["k"]}))
                    got_num = sorted(n for n in (numeric_of(l) for l in mine) if n in ("471", "473", "474", "475", "405"))
                    if got_num != sorted(exp_num):
                        fails.append(("JOIN %s by %s: answered %r, the rule gives %r" % (ev[2], actor, got_num, sorted(exp_num)), {"step": s["k"]}))
                    if not accepted:
                        d = irc.diff_dump(prev, after, "dump")
                        if d:
                            fails.append(("refused JOIN %s changed the state: %s" % (ev[2], d), {"step": s["k"]}))
                        others = {c: l for c, l in (s.get("out") or {}).items() if c != str(ev[1]) and l}
                        if others:
                            fails.append(("refused JOIN %s was announced: %r" % (ev[2], others), {"step": s["k"]}))
                    for c in accepted:
                        line = ":%s JOIN %s" % (src, c)
                        members_after = set(after["channels"][c]["users"]) if c in after["channels"] else set()
                        for mem in members_after:
                            cid = cm.conn_of(mem) if mem != actor else ev[1]
                            cnt = (s.get("out") or {}).get(str(cid), []).count(line)
                            if cnt != 1:
                                fails.append(("JOIN %s: member %s saw the announcement %d times" % (c, mem, cnt), {"step": s["k"]}))
                        if c not in prev["channels"]:
                            co = after["channels"].get(c)
                            if co is None or co["users"] != {actor: "qo"} or co["flags"] or co["key"] or co["limit"] is not None or co["topic"] or co["ban"]:
                                fails.append(("JOIN created %s as %r, expected a fresh channel with the joiner as founder+operator" % (c, co), {"step": s["k"]}))
        cm.update(s)
        prev = s.get("dump")
    return fails


def c07_sweep(res):
    traces = []
    k = 0
    for keymode in ("nokey", "right", "wrong", "missing"):
        for bits in range(64):
            banned, excepted, ionly, invited, invex, full = [(bits >> b) & 1 for b in range(6)]
            for quota_at in (0, 1):
                k += 1
                if res.tier == "quick" and k % 4 != (res.seed % 4):
                    continue
                cfg = Config(max_joins=1 if quota_at else 3,
                             channels=[dict(name="#c", operators=["alice"], topic="T")])
                t = Trace("c07-%s-%d-%d" % (keymode, bits, quota_at), cfg)
                t.register(0, "alice")
                t.register(1, "joe")
                t.line(0, "JOIN #c")
                if quota_at:
                    t.line(1, "JOIN #other")
                if keymode != "nokey":
                    t.line(0, "MODE #c +k k1")
                if banned:
                    t.line(0, "MODE #c +b joe!*@*")
                if excepted:
                    t.line(0, "MODE #c +e *!*@127.*")
                if ionly:
                    t.line(0, "MODE #c +i")
                if invex:
                    t.line(0, "MODE #c +I j?e")
                if invited:
                    t.line(0, "INVITE joe #c")
                if full:
                    t.line(0, "MODE #c +l 1")
                t.line(1, "JOIN #c" + {"nokey": "", "right": " k1", "wrong": " kX", "missing": ""}[keymode])
                t.line(0, "NAMES #c")
                t.line(1, "JOIN #c" + {"nokey": "", "right": " k1", "wrong": " k1", "missing": " k1"}[keymode])
                t.meta = {"cell": [keymode, banned, excepted, ionly, invited, invex, full, quota_at]}
                traces.append(t)
    return traces


def join_profile():
    return {"weights": dict(JOIN=26, PART=8, MODE=14, INVITE=8, KICK=4, NICK=3, PRIVMSG=2, QUIT=1, MISC=0.2, BAD=1,
                            WHO=0.3, WHOIS=0.3, LIST=0.5, NAMES=2),
            "max_joins": [None, 1, 2, 3], "max_conns": 6, "initial_conns": 3}


def check_C07(res):
    sweep = c07_sweep(res)
    n = 100 if res.tier == "quick" else 2000
    r = l2_campaign(res, "C07", n, 45, join_profile(), traces=sweep, oracle=join_oracle)
    res.coverage.update({
        "evaluations": r["steps"], "distinct_nontrivial": len(set(tuple(t.meta["cell"]) for t in sweep)),
        "rule": "sweep over the admission table: key {unset, right, wrong, missing} x banned x excepted x +i x invited x invite-exception x full x quota reached = 512 cells, each set up "
                "through real MODE/INVITE commands on a preconfigured channel and probed with two JOINs (quick tier: a seed-selected quarter = 128 cells; thorough: all); distinct = cells run; plus %d "
                "seeded random histories with comma lists and per-channel keys; every JOIN step is compared impl vs model and against the admission rule evaluated on the implementation's own pre-state" % n,
        "exhaustive": res.tier == "thorough",
        "traces_validated_against_impl": r["traces"],
        "samples": [sweep[3].describe()["events"][8:], sweep[-1].meta],
        "l2": r["summary"]})


def c16_traces(res):
    rng = random.Random(res.seed + 16)
    traces = []
    exits = ["PART", "KICKSELF", "QUIT", "CLOSE", "KILL", "KICKED"]
    k = 0
    for pre in (False, True):
        for e1 in exits:
            for e2 in exits:
                k += 1
                cfg = Config(operators=[dict(name="admin", password="operpass")],
                             channels=[dict(name="#pre", topic="Pre", flags="nt", key="k1", limit=5, ban=["x!*@*"],
                                            voices=["bob"], founders=["alice"])] if pre else [])
                ch = "#pre" if pre else "#life"
                key = " k1" if pre else ""
                t = Trace("c16-%d-%s-%s" % (pre, e1, e2), cfg)
                t.register(0, "alice")
                t.register(1, "bob")
                t.register(2, "admin")
                t.line(2, "OPER admin operpass")
                t.line(0, "JOIN " + ch + key)
                t.line(0, "TOPIC %s :first life" % ch)
                t.line(0, "MODE %s +im" % ch)
                t.line(0, "INVITE bob " + ch)
                t.line(1, "JOIN " + ch + key)
                t.line(0, "MODE %s +o bob" % ch)

                def leave(cid, nick, how, other_cid):
                    if how == "PART":
                        t.line(cid, "PART " + ch)
                    elif how == "KICKSELF":
                        t.line(cid, "KICK %s %s" % (ch, nick))
                    elif how == "QUIT":
                        t.line(cid, "QUIT")
                    elif how == "CLOSE":
                        t.close(cid)
                    elif how == "KILL":
                        t.line(2, "KILL %s :bye" % nick)
                    elif how == "KICKED":
                        t.line(other_cid, "KICK %s %s" % (ch, nick))
                leave(1, "bob", e1, 0)
                t.line(2, "LIST")
                leave(0, "alice", e2, 1)
                t.line(2, "LIST")
                t.line(2, "MODE " + ch)
                t.line(2, "JOIN " + ch + key)
                t.line(2, "MODE " + ch)
                t.line(2, "TOPIC " + ch)
                t.line(2, "NAMES " + ch)
                t.meta = {"pre": pre, "exits": [e1, e2]}
                traces.append(t)
    return traces


def c16_oracle(t, steps):
    fails = join_oracle(t, steps)
    pre_names = set(c["name"] for c in t.cfg.channels)
    prev = None
    for s in sorted(steps, key=lambda s: s["k"]):
        d = s.get("dump")
        if d is None or s.get("panics"):
            prev = d
            continue
        for name, ch in d["channels"].items():
            if not ch["users"] and not ch["preconfigured"]:
                fails.append(("channel %s exists without members after step %d" % (name, s["k"]), {"step": s["k"]}))
            if ch["preconfigured"] != (name in pre_names) and name in pre_names:
                fails.append(("configured channel %s lost its preconfigured mark" % name, {"step": s["k"]}))
        for name in pre_names:
            if name not in d["channels"]:
                fails.append(("configured channel %s ceased to exist at step %d" % (name, s["k"]), {"step": s["k"]}))
        prev = d
    return fails


def check_C16(res):
    sweep = c16_traces(res)
    n = 80 if res.tier == "quick" else 1500
    prof = join_profile()
    prof["weights"].update(PART=14, KICK=8, QUIT=3, KILL=2, OPER=3)
    prof["p_close"] = 0.08
    r = l2_campaign(res, "C16", n, 50, prof, traces=sweep, oracle=c16_oracle)
    res.coverage.update({
        "evaluations": r["steps"], "distinct_nontrivial": len(sweep),
        "rule": "life-cycle sweep: {ordinary, preconfigured with topic/flags/key/limit/ban/rank lists} x exit of the first member x exit of the last member over {PART, self-KICK, QUIT, "
                "socket close, KILL, KICK by the other} = 72 create-use-empty-recreate histories, each followed by LIST/MODE/TOPIC/NAMES probes and a re-JOIN; plus %d seeded random histories "
                "weighted to PART/KICK/QUIT/close; oracle on the implementation: no memberless ordinary channel ever exists, configured channels never vanish, a JOIN to an absent name yields the "
                "fresh founder+operator channel; distinct = sweep histories" % n,
        "traces_validated_against_impl": r["traces"],
        "samples": [sweep[7].describe()["events"][10:]],
        "l2": r["summary"]})


# ====================================================================== C09
def rk(flags):
    return {"founder": "q" in flags, "protected": "a" in flags, "operator": "o" in flags, "half": "h" in flags,
            "voice": "v" in flags}


def is_half_op(f):
    return any(x in f for x in "qaoh")


def rank_oracle(t, steps):
    """KICK / TOPIC / INVITE decisions on the implementation, from its own pre-state"""
    fails = []
    cm = ConnMap(t.cfg.name)
    prev = None
    for s in sorted(steps, key=lambda s: s["k"]):
        ev = t.events[s["k"]]
        if ev[0] == "L" and isinstance(ev[2], str) and prev is not None and not s.get("panics"):
            actor = cm.nick.get(ev[1])
            mine = (s.get("out") or {}).get(str(ev[1]), [])
            refused_syntax = bool(mine) and numeric_of(mine[0]) in ("ERROR", "461")
            after = s["dump"]
            if actor in prev["users"] and not refused_syntax:
                m = re.match(r"^KICK (\S+) (\S+)(?: :(.*))?$", ev[2])
                if m and m.group(1)[0] in "#&":
                    chn, victims = m.group(1), m.group(2).split(",")
                    ch = prev["channels"].get(chn)
                    exp_removed = set()
                    if ch and actor in ch["users"] and is_half_op(ch["users"][actor]):
                        only_half = ch["users"][actor].replace("v", "") == "h"
                        for v in victims:
                            f = ch["users"].get(v)
                            if f is not None and "q" not in f and "a" not in f and not (only_half and is_half_op(f)):
                                exp_removed.add(v)
                    before = set(ch["users"]) if ch else set()
                    now = set(after["channels"][chn]["users"]) if chn in after["channels"] else set()
                    removed = before - now
                    if removed != exp_removed:
                        fails.append(("%s by %s (%s): removed %r, the rank rule gives %r" % (
                            ev[2], actor, ch["users"].get(actor) if ch else None, sorted(removed), sorted(exp_removed)), {"step": s["k"]}))
                    for v in exp_removed:
                        line_re = re.compile(r"^:\S+ KICK %s %s :" % (re.escape(chn), re.escape(v)))
                        for mem in (now | {v}):
                            cid = cm.conn_of(mem)
                            cnt = sum(1 for l in (s.get("out") or {}).get(str(cid), []) if line_re.match(l))
                            if cnt != 1:
                                fails.append(("KICK of %s from %s: %s saw the announcement %d times" % (v, chn, mem, cnt), {"step": s["k"]}))
                    if not exp_removed and irc.diff_dump(prev, after, "d"):
                        fails.append(("refused %s changed the state: %s" % (ev[2], irc.diff_dump(prev, after, "state")), {"step": s["k"]}))
                m = re.match(r"^TOPIC (\S+) :(.*)$", ev[2])
                if m and m.group(1)[0] in "#&" and "\r" not in ev[2] and "\x0c" not in ev[2]:
                    chn, text = m.group(1), m.group(2)
                    ch = prev["channels"].get(chn)
                    allowed = bool(ch) and actor in ch["users"] and ("t" not in ch["flags"] or is_half_op(ch["users"][actor]))
                    if allowed:
                        exp_topic = [text, actor] if text != "" else None
                        if after["channels"][chn]["topic"] != exp_topic:
                            fails.append(("%s by %s: topic is %r, expected %r" % (ev[2], actor, after["channels"][chn]["topic"], exp_topic), {"step": s["k"]}))
                        for mem in ch["users"]:
                            cid = cm.conn_of(mem)
                            cnt = sum(1 for l in (s.get("out") or {}).get(str(cid), []) if re.match(r"^:\S+ TOPIC ", l))
                            if cnt != 1:
                                fails.append(("TOPIC change on %s: member %s saw it %d times" % (chn, mem, cnt), {"step": s["k"]}))
                    elif irc.diff_dump(prev, after, "d"):
                        fails.append(("%s by %s (not entitled) changed the state: %s" % (ev[2], actor, irc.diff_dump(prev, after, "state")), {"step": s["k"]}))
                m = re.match(r"^INVITE (\S+) (\S+)$", ev[2])
                if m and m.group(2)[0] in "#&":
                    who, chn = m.group(1), m.group(2)
                    ch = prev["channels"].get(chn)
                    ok = bool(ch) and actor in ch["users"] and ("i" not in ch["flags"] or "o" in ch["users"][actor]) \
                        and who not in ch["users"] and who in prev["users"]
                    got_inv = [(c, l) for c, ls in (s.get("out") or {}).items() for l in ls if re.match(r"^:\S+ INVITE ", l)]
                    if ok:
                        if chn not in after["users"][who]["invited"]:
                            fails.append(("%s by %s: invitation not recorded" % (ev[2], actor), {"step": s["k"]}))
                        if [c for c, _ in got_inv] != [str(cm.conn_of(who))]:
                            fails.append(("%s: INVITE line went to connections %r, expected only %s" % (ev[2], [c for c, _ in got_inv], who), {"step": s["k"]}))
                    else:
                        if got_inv or irc.diff_dump(prev, after, "d"):
                            fails.append(("%s by %s is not entitled but had an effect: %r %s" % (ev[2], actor, got_inv, irc.diff_dump(prev, after, "state")), {"step": s["k"]}))
        cm.update(s)
        prev = s.get("dump")
    return fails


RANK_SUBSETS = ["".join(x) for k in range(6) for x in itertools.combinations("qaohv", k)]


def c09_sweep(res):
    """actor rank subset x victim rank subset through preconfigured rank lists; +t/-t, +i/-i"""
    traces = []
    k = 0
    names = {"q": "founders", "a": "protecteds", "o": "operators", "h": "half_operators", "v": "voices"}
    for a in RANK_SUBSETS:
        for v in RANK_SUBSETS:
            k += 1
            if res.tier == "quick" and k % 6 != (res.seed % 6):
                continue
            ch = dict(name="#r", flags=("t" if k % 2 else "") + ("i" if k % 3 == 0 else ""))
            for l in "qaohv":
                mem = (["actor"] if l in a else []) + (["victim"] if l in v else [])
                if mem:
                    ch[names[l]] = mem
            cfg = Config(channels=[ch])
            t = Trace("c09-%s-%s" % (a or "none", v or "none"), cfg)
            t.register(0, "actor")
            t.register(1, "victim")
            t.register(2, "third")
            t.register(3, "guest")
            if "i" in ch["flags"]:
                # +i: members come in through invite-exception set by config is not available; use founder bootstrap
                cfg.channels[0]["invex"] = ["*!*@*"]
            for c in (0, 1, 2):
                t.line(c, "JOIN #r")
            t.line(0, "TOPIC #r :new topic by actor")
            t.line(0, "INVITE guest #r")
            t.line(0, "INVITE victim #r")
            t.line(3, "INVITE third #r")
            t.line(0, "KICK #r nobody,victim,victim :out")
            t.line(2, "NAMES #r")
            t.line(1, "JOIN #r")
            t.line(1, "KICK #r actor")
            t.line(2, "KICK #r third")
            t.meta = {"actor": a, "victim": v, "flags": ch["flags"]}
            traces.append(t)
    return traces


def check_C09(res):
    sweep = c09_sweep(res)
    n = 100 if res.tier == "quick" else 2000
    prof = {"weights": dict(KICK=18, TOPIC=10, INVITE=10, JOIN=12, MODE=14, PART=3, NICK=2, PRIVMSG=1, MISC=0.2, BAD=1),
            "max_conns": 6, "initial_conns": 4}
    r = l2_campaign(res, "C09", n, 45, prof, traces=sweep, oracle=rank_oracle)
    res.coverage.update({
        "evaluations": r["steps"], "distinct_nontrivial": len(set((t.meta["actor"], t.meta["victim"], t.meta["flags"]) for t in sweep)),
        "rule": "sweep: 32 actor rank subsets x 32 victim rank subsets (set through the configured rank lists of a preconfigured channel) with +t/+i varied, each running TOPIC, INVITE (to an "
                "outsider, to a member, from an outsider), KICK with an absent, a present and a repeated name, self-directed and counter kicks (quick: a seed-selected sixth = ~171 cells; thorough: all 1024); "
                "distinct = cells; plus %d seeded random histories; each KICK/TOPIC/INVITE step is compared impl vs model and against the rank rule evaluated on the implementation's pre-state" % n,
        "exhaustive": res.tier == "thorough",
        "traces_validated_against_impl": r["traces"],
        "samples": [sweep[5].describe()["events"][12:], sweep[5].meta],
        "l2": r["summary"]})


# ====================================================================== C08
NEEDED = {"q": lambda f: "q" in f, "a": lambda f: "q" in f or "a" in f,
          "o": lambda f: any(x in f for x in "qao"), "h": lambda f: any(x in f for x in "qao")}
RANKLIST = {"q": "founders", "a": "protecteds", "o": "operators", "h": "half_operators", "v": "voices"}
LISTNAME = {"b": "ban", "e": "exception", "I": "invex"}


def rank_sufficient(letter, f):
    return NEEDED.get(letter, is_half_op)(f)


def apply_announcement(ch, tokens):
    """replays 'MODE #c ...' (this server's dialect) over a channel record of the dump"""
    import copy
    ch = copy.deepcopy(ch)
    i = 0
    while i < len(tokens):
        tok = tokens[i]
        i += 1
        if not tok or tok[0] not in "+-":
            return None
        sign = None
        for l in tok:
            if l in "+-":
                sign = l
                continue
            arg = None
            if l in "beIqaohv" or (l in "lk" and sign == "+"):
                if i >= len(tokens):
                    return None
                arg = tokens[i]
                i += 1
            if l in "imtns":
                fl = set(ch["flags"])
                (fl.add if sign == "+" else fl.discard)(l)
                ch["flags"] = "".join(x for x in "imstn" if x in fl)
            elif l == "l":
                ch["limit"] = int(arg) if sign == "+" else None
            elif l == "k":
                ch["key"] = arg if sign == "+" else None
            elif l in LISTNAME:
                s = set(ch[LISTNAME[l]])
                (s.add if sign == "+" else s.discard)(arg)
                ch[LISTNAME[l]] = sorted(s)
            elif l in RANKLIST:
                s = set(ch[RANKLIST[l]])
                (s.add if sign == "+" else s.discard)(arg)
                ch[RANKLIST[l]] = sorted(s)
                if arg in ch["users"]:
                    f = set(ch["users"][arg])
                    (f.add if sign == "+" else f.discard)(l)
                    ch["users"][arg] = "".join(x for x in "qaohv" if x in f)
            else:
                return None
    return ch


MODE_FIELDS = ["flags", "key", "limit", "ban", "exception", "invex", "founders", "protecteds", "operators", "half_operators",
               "voices", "users"]


def mode_oracle(t, steps):
    fails = []
    cm = ConnMap(t.cfg.name)
    prev = None
    for s in sorted(steps, key=lambda s: s["k"]):
        ev = t.events[s["k"]]
        if ev[0] == "L" and isinstance(ev[2], str) and prev is not None and not s.get("panics"):
            actor = cm.nick.get(ev[1])
            m = re.match(r"^MODE ([#&]\S*)(?: (.*))?$", ev[2])
            if m and actor in prev["users"]:
                chn = m.group(1)
                after = s["dump"]
                chp, cha = prev["channels"].get(chn), after["channels"].get(chn)
                anns = [(c, l) for c, ls in (s.get("out") or {}).items() for l in ls if re.match(r"^:\S+ MODE %s " % re.escape(chn), l)]
                # nothing but this channel's mode fields may change
                import copy
                p2, a2 = copy.deepcopy(prev), copy.deepcopy(after)
                if chn in p2["channels"] and chn in a2["channels"]:
                    for f in MODE_FIELDS + ["ban_info"]:
                        p2["channels"][chn].pop(f, None)
                        a2["channels"][chn].pop(f, None)
                d = irc.diff_dump(p2, a2, "state")
                if d:
                    fails.append(("%s by %s changed something outside the channel's modes: %s" % (ev[2], actor, d), {"step": s["k"]}))
                if chp is None or cha is None:
                    prev = s.get("dump")
                    cm.update(s)
                    continue
                changed = [f for f in MODE_FIELDS if chp[f] != cha[f]]
                if actor not in chp["users"]:
                    if changed or anns:
                        fails.append(("%s by outsider %s changed %r / announced %r" % (ev[2], actor, changed, anns), {"step": s["k"]}))
                else:
                    f = chp["users"][actor]
                    # privilege per changed field
                    for fld in changed:
                        if fld == "users":
                            for n in chp["users"]:
                                for l in "qaohv":
                                    if (l in chp["users"][n]) != (l in cha["users"].get(n, "")) and not rank_sufficient(l, f):
                                        fails.append(("%s by %s (%s) changed rank %s of %s without the needed rank" % (ev[2], actor, f, l, n), {"step": s["k"]}))
                            if set(chp["users"]) != set(cha["users"]):
                                fails.append(("%s changed who is on %s" % (ev[2], chn), {"step": s["k"]}))
                        elif fld in RANKLIST.values():
                            l = [k for k, v in RANKLIST.items() if v == fld][0]
                            if not rank_sufficient(l, f):
                                fails.append(("%s by %s (%s) changed list %s without the needed rank" % (ev[2], actor, f, fld), {"step": s["k"]}))
                        elif not is_half_op(f):
                            fails.append(("%s by %s (%s) changed %s without being half-operator or above" % (ev[2], actor, f, fld), {"step": s["k"]}))
                    # exactly as announced
                    if changed or anns:
                        per_conn = collections.Counter(c for c, _ in anns)
                        texts = set(l for _, l in anns)
                        members = set(chp["users"])
                        want = collections.Counter(str(cm.conn_of(n)) for n in members)
                        if changed and (per_conn != want or len(texts) != 1):
                            fails.append(("%s: change %r announced to %r, expected once to each of %r" % (ev[2], changed, dict(per_conn), dict(want)), {"step": s["k"]}))
                        elif anns and (per_conn != want or len(texts) != 1):
                            fails.append(("%s: announcement went to %r, expected once to each member %r" % (ev[2], dict(per_conn), dict(want)), {"step": s["k"]}))
                        if len(texts) == 1:
                            line = list(texts)[0]
                            toks = line.split(" ")[3:]
                            rep = apply_announcement(chp, toks)
                            if rep is None:
                                fails.append(("%s: announcement %r cannot be parsed" % (ev[2], line), {"step": s["k"]}))
                            else:
                                bad = [fl for fl in MODE_FIELDS if rep[fl] != cha[fl]]
                                if bad:
                                    fails.append(("%s: replaying the announcement %r over the old channel gives different %r: announced %r, actual %r" % (
                                        ev[2], line, bad, {b: rep[b] for b in bad}, {b: cha[b] for b in bad}), {"step": s["k"]}))
        cm.update(s)
        prev = s.get("dump")
    return fails


def c08_sweep(res):
    traces = []
    names = {"q": "founders", "a": "protecteds", "o": "operators", "h": "half_operators", "v": "voices"}
    k = 0
    for a in RANK_SUBSETS:
        k += 1
        if res.tier == "quick" and k % 4 != (res.seed % 4):
            continue
        ch = dict(name="#m", founders=["boss"], voices=["peer"])
        for l in a:
            ch[names[l]] = ch.get(names[l], []) + ["actor"]
        cfg = Config(channels=[ch])
        t = Trace("c08-%s" % (a or "none"), cfg)
        for c, n in enumerate(["actor", "boss", "peer", "outsider"]):
            t.register(c, n)
            if n != "outsider":
                t.line(c, "JOIN #m")
        for letter in "imtnsklbeIqaohv":
            for sign in "+-":
                for tgt in ("peer", "boss", "actor", "outsider", "nobody"):
                    if letter in "imtns":
                        if tgt != "peer":
                            continue
                        t.line(0, "MODE #m %s%s" % (sign, letter))
                    elif letter == "k":
                        if tgt != "peer":
                            continue
                        t.line(0, "MODE #m %sk%s" % (sign, " key1" if sign == "+" else ""))
                    elif letter == "l":
                        if tgt != "peer":
                            continue
                        t.line(0, "MODE #m %sl%s" % (sign, " 7" if sign == "+" else ""))
                    elif letter in "beI":
                        if tgt not in ("peer", "nobody"):
                            continue
                        t.line(0, "MODE #m %s%s %s" % (sign, letter, "peer!*@*" if tgt == "peer" else "nick@host"))
                    else:
                        t.line(0, "MODE #m %s%s %s" % (sign, letter, tgt))
        t.line(3, "MODE #m +i")
        t.line(3, "MODE #m")
        t.line(0, "MODE #m -i+i")
        t.line(0, "MODE #m +l 5 -l")
        t.line(0, "MODE #m +l-l 5")
        t.line(0, "MODE #m -lk")
        t.line(0, "MODE #m +k a -k +k b")
        t.line(0, "MODE #m +imi-m+m")
        t.line(1, "MODE #m +lk-lk+o 3 kk peer")
        t.line(1, "MODE #m +l 9 +k zz")
        t.line(1, "MODE #m -lk")
        t.line(1, "MODE #m +l 9 +k zz")
        t.line(1, "MODE #m -kl")
        t.line(1, "MODE #m +l 9")
        t.line(1, "MODE #m -l -k +k newkey")
        t.line(1, "MODE #m +l 4")
        t.line(1, "MODE #m -k+k-l+l k2 6")
        t.line(1, "MODE #m")
        t.meta = {"actor": a}
        traces.append(t)
    return traces


def check_C08(res):
    sweep = c08_sweep(res)
    n = 120 if res.tier == "quick" else 2500
    prof = {"weights": dict(MODE=40, JOIN=10, PART=2, KICK=2, NICK=2, PRIVMSG=2, TOPIC=1, INVITE=1, NAMES=1, MISC=0.2, BAD=1.5),
            "max_conns": 6, "initial_conns": 4}
    r = l2_campaign(res, "C08", n, 50, prof, traces=sweep, oracle=mode_oracle)
    res.coverage.update({
        "evaluations": r["steps"], "distinct_nontrivial": sum(len(t.events) for t in sweep),
        "rule": "sweep: 32 actor rank subsets x 15 mode letters x {+,-} x target in {voiced peer, founder, self, non-member, unregistered} (flag/key/limit letters once per sign) through a preconfigured channel, "
                "followed by sign-switching strings (-i+i, +l 5 -l, +l-l 5, -lk, +k a -k +k b, ...) (quick: a seed-selected quarter of the actor subsets; thorough: all); distinct = single-command cells; plus "
                "%d seeded random histories with multi-letter strings; oracle on the implementation: every changed field needs the rank the property names, nothing outside the channel's mode fields changes, each "
                "change is announced exactly once to every member, and replaying the announced string over the old record reproduces the new record" % n,
        "exhaustive": res.tier == "thorough",
        "traces_validated_against_impl": r["traces"],
        "samples": [sweep[1].describe()["events"][10:16], sweep[1].meta],
        "l2": r["summary"]})
