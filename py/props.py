"""props.py - the per-property correspondence checks and oracles."""
import itertools, json, os, random, re, sys, collections
import irc, gen
from irc import hx, run_pure, run_traces, compare_trace, Config, Trace, canon_step


def unhex_s(h):
    return bytes.fromhex(h).decode("utf-8", "replace")


def load_known(pid):
    try:
        k = json.load(open(os.path.join(irc.VERIF, "known_findings.json")))
    except Exception:
        return []
    return [f for f in k.get("findings", []) if f.get("property") == pid]


# ====================================================================== C14
def c14_pairs(res):
    rng = random.Random(res.seed)
    alpha = ["a", "b", "*", "?", "é"]
    maxlen = 4 if res.tier == "quick" else 5
    strs = [""]
    for n in range(1, maxlen + 1):
        strs += ["".join(x) for x in itertools.product(alpha, repeat=n)]
    pats = strs
    texts = [s for s in strs if "*" not in s and "?" not in s] + ["*", "?", "a*", "?b"]
    pairs = [(p, t) for p in pats for t in texts]
    exhaustive_n = len(pairs)
    # long random pairs: literal runs longer than the text, stacked wildcards, multi-byte
    pool = "ab*?é漢!@.~-_0😀"
    for _ in range(20000 if res.tier == "quick" else 200000):
        lp, lt = rng.randint(0, 14), rng.randint(0, 14)
        t = "".join(rng.choice("abé漢!@.~😀") for _ in range(lt))
        r = rng.random()
        if r < 0.4:
            # derive the pattern from the text so that many match
            p = ""
            for ch in t:
                x = rng.random()
                p += ch if x < 0.6 else "?" if x < 0.75 else "*" if x < 0.9 else ""
            if rng.random() < 0.3:
                p += rng.choice(["*", "a", "**", "?"])
        else:
            p = "".join(rng.choice(pool) for _ in range(lp))
        pairs.append((p, t))
    return pairs, exhaustive_n


def check_C14(res):
    pairs, exh = c14_pairs(res)
    lines = ["W %s %s" % (hx(p), hx(t)) for p, t in pairs]
    impl = run_pure(lines)
    model = run_pure(lines, model=True)
    spec = run_pure(["WG %s %s" % (hx(p), hx(t)) for p, t in pairs], model=True)
    impl_rel = run_pure(lines, binary=irc.RSH_REL) if res.tier == "thorough" else None
    n_true = sum(1 for x in impl if x == "true")
    spec_fail = tie_fail = 0
    for idx, (p, t) in enumerate(pairs):
        if impl[idx] != spec[idx] or (impl_rel and impl_rel[idx] != spec[idx]):
            spec_fail += 1
            if spec_fail <= 3:
                res.violation("match_wildcard(%r, %r) = %s but glob semantics gives %s" %
                              (p, t, impl[idx] if impl[idx] != spec[idx] else impl_rel[idx], spec[idx]),
                              {"kind": "pure", "case": lines[idx], "pattern": p, "text": t,
                               "impl": impl[idx], "impl_release": impl_rel[idx] if impl_rel else None,
                               "spec_glob": spec[idx], "model": model[idx]}, found=True)
        elif impl[idx] != model[idx]:
            tie_fail += 1
    if tie_fail and not spec_fail:
        res.violation("correspondence Wild.wild_match vs utils.rs match_wildcard differs on %d inputs" % tie_fail,
                      {"kind": "tie", "note": "implementation agrees with the glob specification on every explored input"},
                      found=False)
    # normalize_sourcemask
    rng = random.Random(res.seed + 1)
    masks = ["", "!", "@", "!@", "@!", "a", "a!b", "a@b", "a!b@c", "a@b!c", "a!b!c", "a@b@c", "é!ü@漢", "*", "*!*@*",
             "nick!user", "nick@host", "!u@h", "n!@h", "n!u@"]
    for _ in range(3000 if res.tier == "quick" else 30000):
        masks.append("".join(rng.choice("ab!@*é.") for _ in range(rng.randint(0, 8))))
    nl = ["N %s" % hx(m) for m in masks]
    ni, nm = run_pure(nl), run_pure(nl, model=True)
    norm_bad = 0
    for m, a, b in zip(masks, ni, nm):
        exp = None
        if a.startswith("PANIC"):
            exp = "aborts"
        else:
            v = json.loads(a)
            # the property's own statement of the completion
            if "!" in m:
                e = m if "@" in m[m.index("!") + 1:] else m + "@*"
            elif "@" in m:
                i = m.index("@")
                e = m[:i] + "!*" + m[i:]
            else:
                e = m + "!*@*"
            if v != e:
                exp = "gives %r, the documented completion is %r" % (v, e)
        if exp:
            norm_bad += 1
            if norm_bad <= 2:
                res.violation("normalize_sourcemask(%r) %s" % (m, exp), {"kind": "pure", "case": "N " + hx(m), "mask": m,
                                                                      "impl": a, "model": b}, found=True)
        elif a != b:
            norm_bad += 1
            res.violation("correspondence Mask.normalize_mask vs normalize_sourcemask differs", {"mask": m, "impl": a, "model": b},
                          found=False)
    # callers of the matcher, through the real server: bans, exceptions, invex, oper/user masks, WHO, WHOIS
    prof = {"weights": dict(MODE=16, JOIN=14, WHO=6, WHOIS=5, OPER=4, PRIVMSG=6, KICK=1, TOPIC=1, MISC=0.3, BAD=0.5),
            "p_users": 0.6, "p_operators": 0.9}
    ntr = 60 if res.tier == "quick" else 600
    l2 = l2_campaign(res, "C14", ntr, 40, prof, project=None)
    res.coverage.update({
        "evaluations": len(pairs) + len(masks) + l2["steps"],
        "distinct_nontrivial": len(set(pairs)) + len(set(masks)),
        "rule": "wildcard pairs: exhaustive over alphabet {a,b,*,?,é} (patterns up to length %d x literal texts up to length %d = %d pairs) "
                "plus seeded random long pairs (multi-byte, stacked wildcards, literal runs longer than the text); distinct = distinct (pattern,text) "
                "and distinct masks; each is compared impl vs model AND impl vs extracted glob specification; callers exercised by %d server traces" % (
                    4 if res.tier == "quick" else 5, 4 if res.tier == "quick" else 5, exh, ntr),
        "exhaustive": False, "exhaustive_part": exh,
        "traces_validated_against_impl": l2["traces"],
        "samples": [{"pattern": p, "text": t, "impl": impl[i], "model": model[i], "glob": spec[i]}
                    for i, (p, t) in list(enumerate(pairs))[exh:exh + 6]] + [{"mask": masks[25], "normalized": ni[25]}],
        "matching_pairs": n_true, "release_build_checked": impl_rel is not None,
        "l2": l2["summary"]})
    res.assumptions = ["UTF-8 <-> code point conversion in the two drivers is trusted",
                       "callers (bans, exceptions, invite exceptions, OPER and user masks, WHO, WHOIS) are tied by server traces, see l2"]


# ====================================================================== generic L2 campaign
def l2_campaign(res, pid, ntraces, length, profile, project=None, traces=None, oracle=None):
    """generates traces, runs implementation and model, compares (optionally projected);
    oracle(trace, impl_steps) -> list of (description, replay) property failures on the implementation itself"""
    rng = random.Random(res.seed ^ hash(pid) % 100000)
    if traces is None:
        traces = []
    corpus_dir = os.path.join(irc.VERIF, "corpus", pid)
    traces = list(traces) + [gen.gen_trace(rng, "%s-%d" % (pid, i), length, profile) for i in range(ntraces)]
    impl, model = run_traces(traces, tag=pid)
    steps = 0
    mism = []
    oracle_fail = []
    verbs = collections.Counter()
    codes = collections.Counter()
    for t in traces:
        si = impl.get(t.id)
        if si:
            steps += len(si)
            for s in si:
                for c, ls in (s.get("out") or {}).items():
                    for l in ls:
                        m = re.match(r"^:\S+ (\S+)", l)
                        if m:
                            codes[m.group(1)] += 1
        for e in t.events:
            if e[0] == "L" and isinstance(e[2], str):
                verbs[(e[2].split(" ") or [""])[0].upper()[:12]] += 1
        d = compare_trace(t, si, model.get(t.id), project=project)
        if d:
            mism.append((t, d))
        if oracle and si:
            for desc, rp in oracle(t, si):
                oracle_fail.append((t, desc, rp))
    for t, desc, rp in oracle_fail[:3]:
        r = {"kind": "trace", "trace": t.describe(), "failure": desc}
        r.update(rp or {})
        res.violation(desc, r, found=True)
    if mism and not oracle_fail:
        t, d = mism[0]
        res.violation("correspondence model vs implementation differs (%d of %d traces), first at step %d of %s: %s" % (
            len(mism), len(traces), d["k"], t.id, d["what"]),
            {"kind": "trace", "trace": t.describe(), "diff": d, "trace_file": t.render()}, found=False)
    return {"traces": len(traces), "steps": steps, "mismatches": len(mism),
            "summary": {"traces": len(traces), "steps": steps, "mismatching_traces": len(mism),
                        "verbs": dict(verbs.most_common(40)), "reply_codes": dict(codes.most_common(60))},
            "impl": impl, "model": model, "trace_objs": traces}


# ====================================================================== dispatch
def run(pid, res):
    fn = globals().get("check_" + pid)
    if fn is None:
        res.violation("no check implemented for %s" % pid, {}, found=False)
        return
    fn(res)


def replay(path):
    r = json.load(open(path))
    rp = r.get("replay", {})
    print("property:", r.get("property"), "-", r.get("what"))
    if rp.get("kind") == "pure":
        out = run_pure([rp["case"]])
        print("implementation now answers:", out)
        return 0
    if rp.get("kind") == "trace" and rp.get("trace_file"):
        p = os.path.join(irc.BUILD, "replay.trace")
        open(p, "w").write(rp["trace_file"])
        import subprocess
        for b in (irc.RSH, irc.MODEL):
            print("==", b)
            print(subprocess.run([b, "trace", p], capture_output=True, text=True).stdout[-4000:])
        return 0
    print(json.dumps(rp, indent=1, ensure_ascii=False)[:4000])
    return 0
