// rsharness - drives the REAL simple-irc-server sources (included by path from /repo/src)
// mode `pure`  : calls pure functions on hex-encoded inputs, one case per stdin line
// mode `trace` : runs event traces against an in-process server, one JSON line per step
#![allow(dead_code, unused_imports, clippy::all)]

#[path = "/repo/src/command.rs"]
mod command;
#[path = "/repo/src/config.rs"]
mod config;
#[path = "/repo/src/help.rs"]
mod help;
#[path = "/repo/src/reply.rs"]
mod reply;
#[path = "/repo/src/state/mod.rs"]
mod state;
#[path = "/repo/src/utils.rs"]
mod utils;

use command::*;
use config::*;
use state::*;
use utils::*;

use std::collections::BTreeMap;
use std::io::{BufRead, Write};
use std::panic;
use std::sync::{Arc, Mutex};
use std::time::{Duration, Instant};
use tokio::io::{AsyncBufReadExt, AsyncReadExt, AsyncWriteExt, BufReader};
use tokio::net::tcp::{OwnedReadHalf, OwnedWriteHalf};
use tokio::net::TcpStream;

fn unhex(s: &str) -> Vec<u8> {
    let b = s.as_bytes();
    let mut out = Vec::with_capacity(b.len() / 2);
    let mut i = 0;
    while i + 1 < b.len() {
        let h = (b[i] as char).to_digit(16).unwrap() as u8;
        let l = (b[i + 1] as char).to_digit(16).unwrap() as u8;
        out.push(h * 16 + l);
        i += 2;
    }
    out
}

fn js(s: &str) -> String {
    let mut o = String::with_capacity(s.len() + 2);
    o.push('"');
    for c in s.chars() {
        match c {
            '"' => o.push_str("\\\""),
            '\\' => o.push_str("\\\\"),
            c if (c as u32) < 0x20 || (c as u32) == 0x7f => o.push_str(&format!("\\u{:04x}", c as u32)),
            c => o.push(c),
        }
    }
    o.push('"');
    o
}

lazy_static::lazy_static! {
    static ref PANICS: Mutex<Vec<String>> = Mutex::new(vec![]);
}

fn install_panic_hook() {
    panic::set_hook(Box::new(|info| {
        let loc = info
            .location()
            .map(|l| format!("{}:{}", l.file(), l.line()))
            .unwrap_or_default();
        let msg = if let Some(s) = info.payload().downcast_ref::<&str>() {
            s.to_string()
        } else if let Some(s) = info.payload().downcast_ref::<String>() {
            s.clone()
        } else {
            "?".to_string()
        };
        PANICS.lock().unwrap().push(format!("{} {}", loc, msg));
    }));
}

fn take_panics() -> Vec<String> {
    std::mem::take(&mut *PANICS.lock().unwrap())
}

// ---------------------------------------------------------------- pure mode

fn catch<F: FnOnce() -> String + panic::UnwindSafe>(f: F) -> String {
    match panic::catch_unwind(f) {
        Ok(s) => s,
        Err(_) => {
            let p = take_panics();
            format!("PANIC {}", js(&p.join(" | ")))
        }
    }
}

fn hs(s: &str) -> String {
    String::from_utf8(unhex(s)).unwrap()
}

fn pure_main() {
    let stdin = std::io::stdin();
    let stdout = std::io::stdout();
    let mut out = std::io::BufWriter::new(stdout.lock());
    for line in stdin.lock().lines() {
        let line = line.unwrap();
        let f: Vec<&str> = line.split(' ').collect();
        let arg = |i: usize| -> String { f.get(i).map(|x| hs(x)).unwrap_or_default() };
        let r = match f[0] {
            // wildcard match
            "W" => {
                let (p, t) = (arg(1), arg(2));
                catch(move || format!("{}", match_wildcard(&p, &t)))
            }
            // normalize source mask
            "N" => {
                let m = arg(1);
                catch(move || js(&normalize_sourcemask(&m)))
            }
            // tokenizer
            "M" => {
                let l = arg(1);
                catch(move || match Message::from_shared_str(&l) {
                    Ok(m) => format!("OK {}", js(&format!("{:?}", m))),
                    Err(e) => format!("ERR {:?}", e),
                })
            }
            // tokenizer + command parser + validation
            "P" => {
                let l = arg(1);
                catch(move || match Message::from_shared_str(&l) {
                    Ok(m) => match Command::from_message(&m) {
                        Ok(c) => format!("OK {}", js(&format!("{:?}", c))),
                        Err(e) => format!("CERR {}", js(&format!("{:?}", e))),
                    },
                    Err(e) => format!("ERR {:?}", e),
                })
            }
            // tokenizer then re-serialise with a source, then tokenize again
            "S" => {
                let (src, l) = (arg(1), arg(2));
                catch(move || match Message::from_shared_str(&l) {
                    Ok(m) => {
                        let s = m.to_string_with_source(&src);
                        js(&s)
                    }
                    Err(e) => format!("ERR {:?}", e),
                })
            }
            // validators: V <kind> <hex>
            "V" => {
                let (k, s) = (f[1].to_string(), arg(2));
                catch(move || match k.as_str() {
                    "username" => format!("{}", validate_username(&s).is_ok()),
                    "channel" => format!("{}", validate_channel(&s).is_ok()),
                    "source" => format!("{}", validate_source(&s)),
                    "server" => format!("{}", validate_server(&s, MessageError::Empty).is_ok()),
                    "servermask" => format!("{}", validate_server_mask(&s, MessageError::Empty).is_ok()),
                    "prefixed" => format!("{}", validate_prefixed_channel(&s, MessageError::Empty).is_ok()),
                    "pwhash" => format!("{}", validate_password_hash(&s).is_ok()),
                    _ => "?".to_string(),
                })
            }
            // target type
            "G" => {
                let s = arg(1);
                catch(move || MainState::verif_target_type(&s))
            }
            // argon2 hash
            "H" => {
                let s = arg(1);
                catch(move || js(&argon2_hash_password(&s)))
            }
            // argon2 verify: A <pw> <hash>
            "A" => {
                let (p, h) = (arg(1), arg(2));
                catch(move || format!("{}", argon2_verify_password(&p, &h).is_ok()))
            }
            // config: F <hex toml> [cli args as hex...]
            "F" => {
                let toml_s = arg(1);
                let cli: Vec<String> = f[2..].iter().map(|x| hs(x)).collect();
                catch(move || config_case(&toml_s, &cli))
            }
            // the encoder of the line codec, then its own decoder on what was written: hex of the bytes | decoded lines
            "E" => {
                let lines: Vec<String> = (1..f.len()).map(|i| arg(i)).collect();
                catch(move || {
                    use bytes::BytesMut;
                    use tokio_util::codec::{Decoder, Encoder};
                    let mut codec = IRCLinesCodec::new_with_max_length(2000);
                    let mut buf = BytesMut::new();
                    for l in lines {
                        codec.encode(l, &mut buf).unwrap();
                    }
                    let hexs: String = buf.iter().map(|b| format!("{:02x}", b)).collect();
                    let mut dec = Vec::new();
                    loop {
                        match codec.decode(&mut buf) {
                            Ok(Some(l)) => dec.push(l.as_bytes().iter().map(|b| format!("{:02x}", b)).collect::<String>()),
                            Ok(None) => break,
                            Err(e) => {
                                dec.push(format!("ERR:{}", e));
                                break;
                            }
                        }
                    }
                    format!("{} | {} | {}", hexs, dec.join(" "), buf.len())
                })
            }
            _ => "?".to_string(),
        };
        writeln!(out, "{}", r).unwrap();
    }
}

fn config_case(toml_s: &str, cli: &[String]) -> String {
    use clap::Parser;
    let dir = std::env::temp_dir();
    let path = dir.join(format!("rsharness-cfg-{}.toml", std::process::id()));
    std::fs::write(&path, toml_s).unwrap();
    let mut args = vec!["simple-irc-server".to_string(), "-c".to_string(), path.to_string_lossy().to_string()];
    args.extend(cli.iter().cloned());
    let r = match Cli::try_parse_from(args) {
        Ok(cli) => match MainConfig::new(cli) {
            Ok(c) => format!("OK {}", js(&format!("{:?}", c))),
            Err(e) => format!("REJECT {}", js(&e.to_string())),
        },
        Err(e) => format!("CLIERR {}", js(&e.to_string().lines().next().unwrap_or("").to_string())),
    };
    let _ = std::fs::remove_file(&path);
    r
}

// ---------------------------------------------------------------- trace mode

struct Conn {
    rd: BufReader<OwnedReadHalf>,
    wr: OwnedWriteHalf,
    registered: bool,
    eof: bool,
    // the connection has already failed to answer within READ_TIMEOUT once in this history (that is reported as a stall);
    // later steps do not wait the full time for it again, so a change that hangs connections makes a history slow once
    stalled: bool,
}

const STALLED_TIMEOUT: Duration = Duration::from_millis(150);
const READ_TIMEOUT: Duration = Duration::from_millis(4000);

enum Got {
    Line(String),
    Eof,
    Timeout,
}

async fn read_line(c: &mut Conn, tmo: Duration) -> Got {
    if c.eof {
        return Got::Eof;
    }
    let mut buf = Vec::new();
    match tokio::time::timeout(tmo, c.rd.read_until(b'\n', &mut buf)).await {
        Err(_) => Got::Timeout,
        Ok(Err(_)) => {
            c.eof = true;
            Got::Eof
        }
        Ok(Ok(0)) => {
            c.eof = true;
            Got::Eof
        }
        Ok(Ok(_)) => {
            if buf.last() != Some(&b'\n') {
                // partial line then EOF
                c.eof = true;
            } else {
                buf.pop();
                if buf.last() == Some(&b'\r') {
                    buf.pop();
                } else {
                    buf.extend_from_slice(b"<NOCR>");
                }
            }
            let s = String::from_utf8_lossy(&buf).to_string();
            if s.contains(" 001 ") && s.starts_with(':') {
                let mut it = s.split(' ');
                it.next();
                if it.next() == Some("001") {
                    c.registered = true;
                }
            }
            Got::Line(s)
        }
    }
}

struct StepOut {
    out: BTreeMap<usize, Vec<String>>,
    eof: Vec<usize>,
    stall: Vec<usize>,
}

impl StepOut {
    fn new() -> Self {
        StepOut { out: BTreeMap::new(), eof: vec![], stall: vec![] }
    }
    fn push(&mut self, c: usize, l: String) {
        self.out.entry(c).or_default().push(l);
    }
}

// read conn until a line for which `stop` holds (not recorded), EOF or timeout
async fn read_until<F: Fn(&str) -> bool>(id: usize, c: &mut Conn, so: &mut StepOut, stop: F) {
    loop {
        let tmo = if c.stalled { STALLED_TIMEOUT } else { READ_TIMEOUT };
        match read_line(c, tmo).await {
            Got::Line(l) => {
                if stop(&l) {
                    return;
                }
                so.push(id, l);
            }
            Got::Eof => {
                if !so.eof.contains(&id) {
                    so.eof.push(id);
                }
                return;
            }
            Got::Timeout => {
                c.stalled = true;
                so.stall.push(id);
                return;
            }
        }
    }
}

async fn socket_barrier(id: usize, c: &mut Conn, so: &mut StepOut, seq: &mut u64) {
    *seq += 1;
    let tok = format!("VBAR{}", *seq);
    if c.wr.write_all(format!("{}\r\n", tok).as_bytes()).await.is_err() {
        // peer already closed; drain
    }
    let needle = format!(" {} :Unknown command", tok);
    read_until(id, c, so, |l| l.contains(" 421 ") && l.ends_with(&needle)).await;
}

async fn run_trace(id: &str, cfg_toml: &str, events: &[Vec<String>], out: &mut impl Write) {
    let mut config: MainConfig = match toml::from_str(cfg_toml) {
        Ok(c) => c,
        Err(e) => {
            writeln!(out, "{{\"t\":{},\"error\":{}}}", js(id), js(&format!("config: {}", e))).unwrap();
            return;
        }
    };
    // find a free port and start the real server
    let mut started = None;
    for _ in 0..20 {
        let port = {
            let l = std::net::TcpListener::bind("127.0.0.1:0").unwrap();
            l.local_addr().unwrap().port()
        };
        config.port = port;
        config.listen = "127.0.0.1".parse().unwrap();
        // MainConfig is not Clone: re-parse for retry
        let mut c2: MainConfig = toml::from_str(cfg_toml).unwrap();
        c2.port = port;
        c2.listen = config.listen;
        match run_server(c2).await {
            Ok((ms, h)) => {
                started = Some((ms, h, port));
                break;
            }
            Err(_) => continue,
        }
    }
    let (main_state, handle, port) = match started {
        Some(x) => x,
        None => {
            writeln!(out, "{{\"t\":{},\"error\":\"cannot start server\"}}", js(id)).unwrap();
            return;
        }
    };
    let mut conns: BTreeMap<usize, Conn> = BTreeMap::new();
    let mut seq: u64 = 0;
    take_panics();

    for (k, ev) in events.iter().enumerate() {
        let mut so = StepOut::new();
        let kind = ev[0].as_str();
        let cid: usize = ev.get(1).and_then(|x| x.parse().ok()).unwrap_or(0);
        match kind {
            "O" => {
                match tokio::time::timeout(READ_TIMEOUT, TcpStream::connect(("127.0.0.1", port))).await {
                    Ok(Ok(s)) => {
                        let _ = s.set_nodelay(true);
                        let (r, w) = s.into_split();
                        conns.insert(cid, Conn { rd: BufReader::new(r), wr: w, registered: false, eof: false, stalled: false });
                        let c = conns.get_mut(&cid).unwrap();
                        socket_barrier(cid, c, &mut so, &mut seq).await;
                    }
                    _ => {
                        so.eof.push(cid);
                    }
                }
            }
            "L" | "B" => {
                if let Some(c) = conns.get_mut(&cid).filter(|c| !c.eof) {
                    let mut bytes = unhex(&ev[2]);
                    if kind == "L" {
                        bytes.extend_from_slice(b"\r\n");
                    }
                    // optional segmentation: ev[3] = comma separated split offsets
                    let mut offs: Vec<usize> = ev
                        .get(3)
                        .map(|s| s.split(',').filter_map(|x| x.parse().ok()).collect())
                        .unwrap_or_default();
                    offs.retain(|o| *o > 0 && *o < bytes.len());
                    offs.sort();
                    offs.dedup();
                    let mut start = 0;
                    for o in offs.iter().chain(std::iter::once(&bytes.len())) {
                        let _ = c.wr.write_all(&bytes[start..*o]).await;
                        let _ = c.wr.flush().await;
                        if *o != bytes.len() {
                            tokio::time::sleep(Duration::from_millis(2)).await;
                        }
                        start = *o;
                    }
                    if bytes.last() == Some(&b'\n') {
                        socket_barrier(cid, c, &mut so, &mut seq).await;
                    } else {
                        // an unfinished line is pending: a barrier command would be glued to it.
                        // give the server time to handle the complete lines, then take what is there
                        tokio::time::sleep(Duration::from_millis(40)).await;
                        if !c.registered {
                            loop {
                                match read_line(c, Duration::from_millis(15)).await {
                                    Got::Line(l) => so.push(cid, l),
                                    Got::Eof => { so.eof.push(cid); break; }
                                    Got::Timeout => break,
                                }
                            }
                        }
                    }
                }
            }
            "X" => {
                if let Some(c) = conns.remove(&cid) {
                    let before = main_state.verif_conns_count();
                    let was_open = !c.eof;
                    drop(c);
                    if was_open {
                        so.eof.push(cid);
                        let t0 = Instant::now();
                        while main_state.verif_conns_count() >= before && t0.elapsed() < READ_TIMEOUT {
                            tokio::time::sleep(Duration::from_micros(200)).await;
                        }
                        if main_state.verif_conns_count() >= before {
                            so.stall.push(cid);
                        }
                    }
                }
            }
            // wait: W <conn> <ms>: collect whatever arrives on that connection, with arrival offsets
            "W" => {
                let ms: u64 = ev.get(2).and_then(|x| x.parse().ok()).unwrap_or(0);
                let t0 = Instant::now();
                if let Some(c) = conns.get_mut(&cid) {
                    loop {
                        let left = Duration::from_millis(ms).saturating_sub(t0.elapsed());
                        if left.is_zero() {
                            break;
                        }
                        match read_line(c, left).await {
                            Got::Line(l) => so.push(cid, format!("@{} {}", t0.elapsed().as_millis(), l)),
                            Got::Eof => {
                                so.push(cid, format!("@{} <EOF>", t0.elapsed().as_millis()));
                                so.eof.push(cid);
                                break;
                            }
                            Got::Timeout => break,
                        }
                    }
                } else {
                    tokio::time::sleep(Duration::from_millis(ms)).await;
                }
            }
            _ => {}
        }
        if kind != "W" {
            // drain every registered connection's queue up to a FIFO marker
            seq += 1;
            let tok = format!("VMARK{}", seq);
            main_state.verif_marker_all(&tok).await;
            for (i, c) in conns.iter_mut() {
                if c.registered && !c.eof {
                    read_until(*i, c, &mut so, |l| l == tok).await;
                }
            }
        }
        // connections the server closed stay in the table (eof = true) until the trace closes them
        let dump = main_state.verif_dump().await;
        let panics: Vec<String> = take_panics().into_iter().filter(|p| !p.contains("SendError")).collect();
        let outs = so
            .out
            .iter()
            .map(|(c, ls)| format!("\"{}\":[{}]", c, ls.iter().map(|l| js(l)).collect::<Vec<_>>().join(",")))
            .collect::<Vec<_>>()
            .join(",");
        so.eof.sort();
        so.eof.dedup();
        writeln!(
            out,
            "{{\"t\":{},\"k\":{},\"out\":{{{}}},\"eof\":{:?},\"stall\":{:?},\"panics\":[{}],\"dump\":{}}}",
            js(id),
            k,
            outs,
            so.eof,
            so.stall,
            panics.iter().map(|p| js(p)).collect::<Vec<_>>().join(","),
            dump
        )
        .unwrap();
    }
    drop(conns);
    handle.abort();
    let _ = handle.await;
}

async fn trace_main(path: &str) {
    let text = std::fs::read_to_string(path).unwrap();
    let stdout = std::io::stdout();
    let mut out = std::io::BufWriter::new(stdout.lock());
    let mut id = String::new();
    let mut cfg = String::new();
    let mut events: Vec<Vec<String>> = vec![];
    for line in text.lines() {
        let f: Vec<String> = line.split(' ').map(|s| s.to_string()).collect();
        match f[0].as_str() {
            "T" => {
                id = f[1].clone();
                events.clear();
                cfg.clear();
            }
            "C" => cfg = hs(&f[1]),
            "MC" => {}
            "E" => {
                run_trace(&id, &cfg, &events, &mut out).await;
                out.flush().unwrap();
            }
            "" => {}
            _ => events.push(f),
        }
    }
}

fn main() {
    install_panic_hook();
    let args: Vec<String> = std::env::args().collect();
    match args.get(1).map(|s| s.as_str()) {
        Some("pure") => pure_main(),
        Some("trace") => {
            let rt = tokio::runtime::Builder::new_multi_thread()
                .worker_threads(2)
                .enable_all()
                .build()
                .unwrap();
            rt.block_on(trace_main(&args[2]));
            // detached timer tasks may still be sleeping
            std::process::exit(0);
        }
        _ => {
            eprintln!("usage: rsharness pure | trace <file>");
            std::process::exit(2);
        }
    }
}
