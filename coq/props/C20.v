(* C20 - configuration is validated at start-up and governs behaviour.  Statements only; proofs
   in IRCP.ConfigP (validation), IRCP.ChanP / IRCP.JoinP2 (configured channels), and the handler
   model (welcome burst, default modes).  argon2 (the hash printed by -g accepts exactly its
   password), TOML deserialisation, the process exit status and the TLS transport are outside
   the model and decided per run on the real binary (L2). *)
From IRC Require Import Str Wild Glob Parse Reply State Handlers Step Config.
From IRCP Require Import ConfigP ChanP WelcomeP JoinP InvDefs ConnFrame.
From stdpp Require Import gmap.
Open Scope N_scope.

(* the server starts exactly from a configuration whose (command-line overridden) name contains a
   dot, whose password hashes are well-formed, whose user, operator and channel names are valid,
   and whose TLS certificate and key options are given together *)
Theorem C20_accept_iff : forall r c,
  config_accept r c = true <->
  (cl_cert c = cl_key c) /\
  contains c_dot (effective_name r c) = true /\
  (forall h, rw_password r = Some h -> valid_hash h = true) /\
  (forall o, In o (rw_opers r) -> validate_username (ro_name o) = true /\ valid_hash (ro_password o) = true) /\
  (forall u, In u (rw_users r) ->
     validate_username (ru_name u) = true /\ validate_username (ru_nick u) = true /\
     (forall h, ru_password u = Some h -> valid_hash h = true) /\ utf8_len (ru_nick u) <= 200) /\
  (forall ch, In ch (rw_chans r) -> validate_channel ch = true).
Proof. exact accept_iff. Qed.

(* a well-formed hash: 86 characters of the unpadded base64 alphabet, canonical last character
   (= 64 bytes, the argon2 output length) *)
Theorem C20_hash_shape : forall s, valid_hash s = true ->
  List.length s = 86%nat /\ Forall (fun c => is_b64 c = true) s /\
  exists v, b64_val (List.last s 0) = Some v /\ v mod 16 = 0.
Proof. exact valid_hash_shape. Qed.

Theorem C20_cli_overrides_file : forall r c n, cl_name c = Some n -> effective_name r c = n.
Proof. exact cli_name_overrides. Qed.

(* predefined channels exist from the start with their configured settings (C16 has the fields) *)
Theorem C20_channels_from_config : forall cfg name,
  chans (shared_init cfg) !! name =
  option_map chan_of_cfg (find_last (fun c => str_eqb (cc_name c) name) (cfg_channels cfg)).
Proof. exact shared_init_chans. Qed.

(* a new user starts with exactly the configured default user modes (+r additionally for a
   predefined user that authenticated) *)
Theorem C20_default_user_modes : forall cfg i c name real,
  let m := u_modes (new_user cfg i c name real) in
  um_invisible m = um_invisible (cfg_default_umodes cfg) /\ um_oper m = um_oper (cfg_default_umodes cfg) /\
  um_local_oper m = um_local_oper (cfg_default_umodes cfg) /\ um_wallops m = um_wallops (cfg_default_umodes cfg) /\
  um_registered m = um_registered (cfg_default_umodes cfg) || c_registered c.
Proof. intros. cbn. repeat split. Qed.

(* the welcome burst of a completed registration is built from the configuration: 001 names the
   configured network, 002/004 the configured server name, then ISUPPORT (with the configured
   network and max_joins), LUSERS, the configured MOTD, and 221 with the default user modes *)
Theorem C20_welcome_burst : forall cfg verify i s c r nick,
  c_auth c = false ->
  authenticate cfg verify i s c = Ok r -> c_auth (h_conn r) = true -> c_nick c = Some nick ->
  exists name registered lus,
    c_name c = Some name /\
    let c1 := c_with_auth true registered (c_sender_taken c) c in
    let c2 := c_with_auth true registered true c in
    let u := new_user cfg i c1 name (default [] (c_real c)) in
    let client := client_name c2 in
    h_conn r = c2 /\ h_sh r = st_add_user nick u s /\ lusers_lines (st_add_user nick u s) client = Ok lus /\
    h_out r = mine cfg i ([ rpl_welcome client (cfg_network cfg) nick name (c_host c);
                            rpl_yourhost client (cfg_name cfg) (version_str cfg);
                            rpl_created client (lit "T");
                            rpl_myinfo client (cfg_name cfg) (version_str cfg) ]
                          ++ isupport_lines cfg client ++ lus ++ motd_lines cfg client
                          ++ [ rpl_umodeis client (umodes_str (u_modes u)) ]).
Proof. exact registration_burst. Qed.

(* ENABLING TLS CHANGES THE TRANSPORT ONLY.  The model carries the transport as one flag of the connection record
   (c_secure, set when the connection is accepted).  (1) Whatever happens - any event of any connection - a connection
   keeps the host and the transport flag it was accepted with: no command sets it. *)
Theorem C20_transport_fixed_at_accept : forall cfg verify w i e w' o cl j c c', Inv w -> step cfg verify w i e = Ok (w', o, cl) ->
  conns w !! j = Some c -> conns w' !! j = Some c' -> (c_host c', c_secure c') = (c_host c, c_secure c).
Proof. exact transport_fixed_at_accept. Qed.

(* (2) A command of a registered connection changes nothing of its own connection record but the negotiation flags
   (CAP) and nick + source (NICK): host, names, password, registration marks and transport flag stay. *)
Theorem C20_commands_keep_connection_identity : forall cfg verify i s c cmd msg r,
  InvS s -> conn_ok i s c -> c_auth c = true -> dispatch cfg verify i s c cmd msg = Ok r ->
  (c_host (h_conn r), c_name (h_conn r), c_real (h_conn r), c_pass (h_conn r), c_auth (h_conn r), c_registered (h_conn r),
   c_secure (h_conn r), c_sender_taken (h_conn r)) =
  (c_host c, c_name c, c_real c, c_pass c, c_auth c, c_registered c, c_secure c, c_sender_taken c).
Proof. exact dispatch_conn_fixed. Qed.

(* (3) The one place the flag is read (the check counts the readers in the model text and in the source on every run):
   WHOIS answers for a user over a secure connection with the same lines plus the 671 line at the end. *)
Theorem C20_whois_secure_adds_only_671 : forall cfg s c client viewer n,
  whois_one cfg s (c_with_secure true c) client viewer n =
  match whois_one cfg s (c_with_secure false c) client viewer n with
  | Ok [] => Ok []
  | Ok ls => Ok (ls ++ [rpl_whoissecure client n])
  | Panic p => Panic p
  end.
Proof. exact whois_secure_adds_671. Qed.

Print Assumptions C20_accept_iff.
Print Assumptions C20_welcome_burst.
Print Assumptions C20_hash_shape.
Print Assumptions C20_cli_overrides_file.
Print Assumptions C20_channels_from_config.
Print Assumptions C20_default_user_modes.
Print Assumptions C20_transport_fixed_at_accept.
Print Assumptions C20_commands_keep_connection_identity.
Print Assumptions C20_whois_secure_adds_only_671.
