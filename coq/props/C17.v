(* C17 - keep-alive drops dead peers and keeps live ones.  Statements only; proofs in
   IRCP.KeepaliveP (timed model of the ping waker / pong timer) and the handler model.  The
   timers themselves (tokio sleep / interval / timeout, the spawned tasks) are outside the model:
   the timed model is tied to the real server on every run by real-time scenarios whose observed
   PING / PONG times are fed to ka_run and whose observed disconnection time must agree (L2). *)
From IRC Require Import Str Wild Glob Parse Reply State Handlers Step Keepalive.
From IRCP Require Import KeepaliveP InvDefs InvStep Reach.
From Coq Require Import List NArith.
From stdpp Require Import gmap.
Open Scope N_scope.

(* a PING of a client is answered with a PONG carrying the same token *)
Theorem C17_pong_echoes_token : forall cfg i s c token,
  process_ping cfg i s c token = hr s c [(i, srv cfg (lit "PONG " ++ cfg_name cfg ++ lit " :" ++ token))].
Proof. reflexivity. Qed.

(* ... as a whole line of a REGISTERED connection, whatever else is true of it - in particular whether it has a
   capability negotiation open (CAP LS / REQ in mid-session without CAP END): the PING line is answered with the
   PONG, and the PONG line (the answer to the server's keep-alive PING) is accepted silently, never refused *)
Theorem C17_registered_ping_line : forall cfg verify i s c l msg token,
  c_auth c = true -> tokenize l = inl msg -> command_of_message msg = inl (PING token) ->
  process_line cfg verify i s c l = hr s c [(i, srv cfg (lit "PONG " ++ cfg_name cfg ++ lit " :" ++ token))].
Proof. intros cfg verify i s c l msg token A Ht Hc. unfold process_line. rewrite Ht, Hc, A. reflexivity. Qed.

Theorem C17_registered_pong_line : forall cfg verify i s c l msg token,
  c_auth c = true -> tokenize l = inl msg -> command_of_message msg = inl (PONG token) ->
  process_line cfg verify i s c l = hr s c [].
Proof. intros cfg verify i s c l msg token A Ht Hc. unfold process_line. rewrite Ht, Hc, A. reflexivity. Qed.

(* dead peer: the first PING that finds no timer running and gets no PONG before its deadline
   closes the connection exactly pong_timeout after that PING - whatever else is sent meanwhile,
   and also when further PINGs fall into the wait (pong_timeout >= ping_timeout) *)
Theorem C17_dead_peer_dropped : forall pt t0 evs h,
  (forall t e, In (t, e) evs -> t < t0 + pt -> e <> KPong) -> t0 + pt <= h ->
  ka_run pt None ((t0, KPing) :: evs) h = Some (t0 + pt).
Proof. exact dead_peer_dropped. Qed.

(* live peer: every PING answered by a PONG (any token) less than pong_timeout later - never closed *)
Theorem C17_live_peer_kept : forall pt evs h,
  times_sorted evs -> answered pt evs -> ka_run pt None evs h = None.
Proof. exact live_peer_kept. Qed.

(* the connection is closed by the keep-alive only at a PING time plus pong_timeout *)
Theorem C17_closed_only_at_deadline : forall pt evs h c,
  ka_run pt None evs h = Some c -> exists t, In (t, KPing) evs /\ c = t + pt.
Proof. intros pt evs h c H. destruct (closed_only_at_deadline pt evs None h c H) as [E|E]; [discriminate|exact E]. Qed.

(* any other traffic on the connection neither resets nor delays the timer *)
Theorem C17_other_traffic_irrelevant : forall pt evs dl h,
  times_sorted evs -> (forall t e, In (t, e) evs -> t <= h) ->
  ka_run pt dl (List.filter (fun x => match snd x with KOther => false | _ => true end) evs) h = ka_run pt dl evs h.
Proof. exact other_traffic_irrelevant. Qed.

(* the timeout ends the session through the same teardown as every other ending (C06): the
   event is handled in every reachable world and the invariant survives *)
Theorem C17_timeout_is_a_teardown : forall cfg verify w i, Inv w ->
  exists w' o cl, step cfg verify w i EvPongTimeout = Ok (w', o, cl) /\ Inv w' /\
    (forall c, conns w !! i = Some c -> conns w' !! i = None).
Proof.
  intros cfg verify w i I. destruct (step_ok cfg verify w i EvPongTimeout I) as [w' [o [cl [H I']]]].
  exists w', o, cl. split; [exact H|]. split; [exact I'|]. intros c Hc.
  destruct (step_frame cfg verify w i EvPongTimeout w' o cl I H) as [_ [_ [_ [_ [Hgone _]]]]]. apply Hgone.
  unfold step in H. cbn [step_raw] in H. rewrite Hc in H.
  destruct (teardown i w) as [w1|]; [|discriminate]. cbn [rbind] in H.
  destruct (deliver_kills cfg w1) as [[[w2 o2] c2]|]; [|discriminate]. cbn [rbind] in H. injection H as _ _ <-.
  cbn [app]. apply elem_of_list_here.
Qed.

Print Assumptions C17_pong_echoes_token.
Print Assumptions C17_dead_peer_dropped.
Print Assumptions C17_live_peer_kept.
Print Assumptions C17_closed_only_at_deadline.
Print Assumptions C17_other_traffic_irrelevant.
Print Assumptions C17_timeout_is_a_teardown.
Print Assumptions C17_registered_ping_line.
Print Assumptions C17_registered_pong_line.
