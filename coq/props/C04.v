(* C04 - channel membership is one consistent relation that follows the history.  Statements
   only; proofs in IRCP.InvDefs / IRCP.InvStep / IRCP.Reach (invariant), IRCP.JoinP2, IRCP.ChanP,
   IRCP.InvNick (effects of the single operations).  The agreement of the NAMES / WHO / WHOIS
   texts with this relation is checked by the correspondence oracle (views_oracle), level L2. *)
From IRC Require Import Str Wild Glob Parse Reply State Handlers Step.
From IRCP Require Import InvDefs InvPrims InvNick InvStep Reach.
From stdpp Require Import gmap.

Section C04.
Context (cfg : config) (verify : str -> str -> bool).

(* in every reachable world the relation stored per user and per channel is the same relation *)
Theorem C04_symmetric : forall w n u ch, reachable cfg verify w ->
  (users (sh w) !! n = Some u -> ch ∈ u_chans u ->
     exists co, chans (sh w) !! ch = Some co /\ n ∈ dom (ch_users co)) /\
  (forall co, chans (sh w) !! ch = Some co -> n ∈ dom (ch_users co) ->
     exists u', users (sh w) !! n = Some u' /\ ch ∈ u_chans u').
Proof.
  intros w n u ch R. destruct (reachable_inv cfg verify w R) as [I _]. pose proof (iw_s w I) as IS. split.
  - intros Hu Hc. exact (is_uc (sh w) IS n u ch Hu Hc).
  - intros co Hco Hn. exact (is_cu (sh w) IS ch co n Hco Hn).
Qed.

(* ... and the five rank lists of every channel mirror the members' rank flags *)
Theorem C04_rank_lists : forall w ch co l n, reachable cfg verify w -> chans (sh w) !! ch = Some co ->
  (n ∈ cm_get_rankset l (ch_modes co) <-> exists r, ch_users co !! n = Some r /\ rank_get l r = true).
Proof.
  intros w ch co l n R Hco. destruct (reachable_inv cfg verify w R) as [I _].
  exact (is_rk (sh w) (iw_s w I) ch co Hco l n).
Qed.

(* every member of every channel is a registered user owned by a live connection *)
Theorem C04_members_live : forall w ch co n, reachable cfg verify w -> chans (sh w) !! ch = Some co -> n ∈ dom (ch_users co) ->
  exists u c, users (sh w) !! n = Some u /\ conns w !! u_conn u = Some c /\ c_auth c = true /\ c_nick c = Some n.
Proof.
  intros w ch co n R Hco Hn. destruct (reachable_inv cfg verify w R) as [I _].
  destruct (is_cu (sh w) (iw_s w I) ch co n Hco Hn) as [u [Hu _]]. destruct (iw_uc w I n u Hu) as [c Hc]. eauto.
Qed.

End C04.

Print Assumptions C04_symmetric.
Print Assumptions C04_rank_lists.
Print Assumptions C04_members_live.
