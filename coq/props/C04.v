(* C04 - channel membership is one consistent relation that follows the history.  Statements
   only; proofs in IRCP.InvDefs / IRCP.InvStep / IRCP.Reach (invariant), IRCP.JoinP2, IRCP.ChanP,
   IRCP.InvNick (effects of the single operations), IRCP.ViewsP (what NAMES and WHOIS print).  The
   WHO text and the announcement-derived rosters are checked by the correspondence oracles (L2). *)
From IRC Require Import Str Wild Glob Parse Reply State Handlers Step.
From IRCP Require Import MsgP InvDefs InvPrims InvNick InvStep Reach ViewsP AnnounceMembersP MembersFrame MembersGlobal.
From stdpp Require Import gmap.

Section C04.
Context (cfg : config) (verify : str -> str -> bool).

(* in every reachable world the relation stored per user and per channel is the same relation *)
Theorem C04_symmetric : forall w n u ch, reachable cfg verify w ->
  (users (sh w) !! n = Some u -> ch ∈ u_chans u ->
     exists co, chans (sh w) !! ch = Some co /\ n ∈ dom (ch_users co)) /\
  (forall co, chans (sh w) !! ch = Some co -> n ∈ dom (ch_users co) ->
     exists u', users (sh w) !! n = Some u' /\ ch ∈ u_chans u').
Proof.
  intros w n u ch R. destruct (reachable_inv cfg verify w R) as [I _]. pose proof (iw_s w I) as IS. split.
  - intros Hu Hc. exact (is_uc (sh w) IS n u ch Hu Hc).
  - intros co Hco Hn. exact (is_cu (sh w) IS ch co n Hco Hn).
Qed.

(* ... and the five rank lists of every channel mirror the members' rank flags *)
Theorem C04_rank_lists : forall w ch co l n, reachable cfg verify w -> chans (sh w) !! ch = Some co ->
  (n ∈ cm_get_rankset l (ch_modes co) <-> exists r, ch_users co !! n = Some r /\ rank_get l r = true).
Proof.
  intros w ch co l n R Hco. destruct (reachable_inv cfg verify w R) as [I _].
  exact (is_rk (sh w) (iw_s w I) ch co Hco l n).
Qed.

(* every member of every channel is a registered user owned by a live connection *)
Theorem C04_members_live : forall w ch co n, reachable cfg verify w -> chans (sh w) !! ch = Some co -> n ∈ dom (ch_users co) ->
  exists u c, users (sh w) !! n = Some u /\ conns w !! u_conn u = Some c /\ c_auth c = true /\ c_nick c = Some n.
Proof.
  intros w ch co n R Hco Hn. destruct (reachable_inv cfg verify w R) as [I _].
  destruct (is_cu (sh w) (iw_s w I) ch co n Hco Hn) as [u [Hu _]]. destruct (iw_uc w I n u Hu) as [c Hc]. eauto.
Qed.

(* NAMES: the 353 lines carry exactly the members of the channel the viewer may see (everybody for a
   member; the non-invisible ones for an outsider of a non-secret channel), each once, with its
   rank prefix; a secret channel gives a non-member nothing *)
Theorem C04_names_text : forall s c client nick ch co with_end, InvS s -> chans s !! ch = Some co ->
  let inch := bool_decide (nick ∈ dom (ch_users co)) in
  names_lines s c client nick ch co with_end =
  if negb (cm_secret (ch_modes co)) || inch then
    let names := List.map (name_entry c) (List.filter (name_visible s inch) (map_to_list (ch_users co))) in
    Ok (List.map (rpl_namreply client (if cm_secret (ch_modes co) then lit "@" else lit "=") ch) (chunks 20 names)
        ++ if with_end then [rpl_endofnames client ch] else [])
  else Ok [].
Proof. exact names_lines_spec. Qed.

Theorem C04_names_complete : forall s c inch co n r,
  ch_users co !! n = Some r -> name_visible s inch (n, r) = true ->
  name_entry c (n, r) ∈ concat (chunks 20 (List.map (name_entry c) (List.filter (name_visible s inch) (map_to_list (ch_users co))))).
Proof. exact names_complete. Qed.

Theorem C04_names_sound : forall s c inch co e,
  e ∈ concat (chunks 20 (List.map (name_entry c) (List.filter (name_visible s inch) (map_to_list (ch_users co))))) ->
  exists n r, ch_users co !! n = Some r /\ name_visible s inch (n, r) = true /\ e = name_entry c (n, r).
Proof. exact names_sound. Qed.

(* WHOIS: the 319 lines carry exactly the non-secret channels of the user's own membership set,
   each once, with the user's rank prefix there (nothing at all for an invisible user sharing no
   channel with the viewer) *)
Theorem C04_whois_text : forall s c client viewer n u r0, InvS s -> users s !! n = Some u ->
  whois_one cfg s c client viewer n = Ok r0 ->
  (um_invisible (u_modes u) && sets_disjoint (u_chans u) (u_chans viewer) = true /\ r0 = []) \/
  (um_invisible (u_modes u) && sets_disjoint (u_chans u) (u_chans viewer) = false /\
   exists pre post, r0 = pre ++ List.map (rpl_whoischannels client n)
                              (chunks 30 (List.map (whois_chan_entry s c n) (List.filter (whois_chan_visible s) (elements (u_chans u))))) ++ post).
Proof. exact (whois_channels_spec cfg). Qed.

(* WHO #channel: one 352 per member of the channel with the member's rank prefix there, then 315;
   only 315 for a secret channel the viewer is not on, or an absent one *)
Theorem C04_who_text : forall i s c nick viewer mask, InvS s ->
  c_nick c = Some nick -> users s !! nick = Some viewer ->
  contains c_star mask || contains c_qmark mask = false -> validate_channel mask = true ->
  process_who cfg i s c mask =
  hr s c (mine cfg i ((match chans s !! mask with
                       | Some co => if negb (cm_secret (ch_modes co)) || bool_decide (nick ∈ dom (ch_users co))
                                    then concat (List.map (who_entry cfg s c (client_name c) mask viewer) (map_to_list (ch_users co)))
                                    else []
                       | None => []
                       end) ++ [rpl_endofwho (client_name c) mask])).
Proof. exact (who_channel_spec cfg). Qed.

(* PART is announced to every member of the channel as it was before the departure - the departing
   user included - one copy each (KICK and JOIN: below; NICK: C15_accepted) *)
Theorem C04_part_announced : forall i s c ch reason r nick co,
  c_nick c = Some nick -> chans s !! ch = Some co -> nick ∈ dom (ch_users co) ->
  process_part cfg i s c [ch] reason = Ok r ->
  let line := from (c_source c) (match reason with
                                 | Some t => lit "PART " ++ ch ++ lit " :" ++ t
                                 | None => lit "PART " ++ ch end) in
  Forall2 (delivered s line) (member_names co) (h_out r) /\ nick ∈ member_names co.
Proof. exact (part_announced cfg). Qed.

(* KICK of one victim the rank rule lets through (C09): after the removal one copy of the KICK line goes
   to every member that is left and one to the victim itself; refusals go to the sender only *)
Theorem C04_kick_announced : forall i s c ch v comment r nick,
  c_nick c = Some nick -> (kick_decide s nick (client_name c) ch [v]).1 = [v] ->
  process_kick cfg i s c ch [v] comment = Ok r ->
  let line := from (c_source c) (lit "KICK " ++ ch ++ [c_space] ++ v ++ lit " :" ++ default (lit "Kicked") comment) in
  exists rest x,
    h_out r = mine cfg i (kick_decide s nick (client_name c) ch [v]).2 ++ rest ++ [x] /\
    delivered (h_sh r) line v x /\
    match chans (h_sh r) !! ch with
    | Some co' => Forall2 (delivered (h_sh r) line) (member_names co') rest
    | None => rest = []
    end.
Proof. exact (kick_announced cfg). Qed.

(* JOIN: the output of the command is the refusals of the planning phase (C07_comma_list), to the sender,
   followed by the announcements of the plan's entries in order, made against the state in which all
   accepted entries are inserted; an accepted entry tells the joiner first (JOIN line, topic if any,
   NAMES list) and then gives one copy of the JOIN line to every OTHER member; a refused entry
   announces nothing *)
Theorem C04_join_output : forall i s c chs keys r nick u,
  c_nick c = Some nick -> users s !! nick = Some u -> process_join cfg i s c chs keys = Ok r ->
  exists plan o1 cnt o2,
    join_phase1 cfg s c u nick (client_name c) chs keys 0 [] (N.of_nat (size (u_chans u))) = Ok (plan, o1, cnt) /\
    rfold (join_insert nick) plan s = Ok (h_sh r) /\
    rfold (join_announce cfg i c nick (client_name c) (h_sh r)) plan [] = Ok o2 /\
    h_out r = mine cfg i o1 ++ o2.
Proof. exact (join_output cfg). Qed.

Theorem C04_join_announced : forall i c nick client s acc ch create co o,
  chans s !! ch = Some co -> join_announce cfg i c nick client s acc (ch, (true, create)) = Ok o ->
  let line := from (c_source c) (lit "JOIN " ++ ch) in
  exists names others,
    names_lines s c client nick ch co true = Ok names /\
    o = acc ++ [(i, line)]
            ++ mine cfg i (match ch_topic co with Some (t, _) => [rpl_topic client ch t] | None => [] end ++ names)
            ++ others /\
    Forall2 (delivered s line) (List.filter (fun n => negb (str_eqb n nick)) (member_names co)) others.
Proof. exact (join_announce_accepted cfg). Qed.

Theorem C04_join_refused_silent : forall i c nick client s acc ch create,
  join_announce cfg i c nick client s acc (ch, (false, create)) = Ok acc.
Proof. exact (join_announce_refused cfg). Qed.

(* the two views read one relation: n is on #ch's roster iff #ch is in n's membership set *)
Theorem C04_views_agree : forall s n u ch co, InvS s -> users s !! n = Some u -> chans s !! ch = Some co ->
  (n ∈ dom (ch_users co) <-> ch ∈ u_chans u).
Proof. exact views_agree. Qed.

(* FOLLOWS THE HISTORY, over every event of every connection (lines of any content, closes, timer events, new
   connections): a user record found after a step has the memberships of a record of the same connection before
   the step (under the same nick, or - NICK - under the old one), unless the event is a line of a registered
   connection whose command is JOIN (only the sender's set changes, and it only grows), PART (only the sender's,
   and it only shrinks), KICK (a set loses at most the named channel), or the record has just been created by a
   completed registration and has no membership.  Records disappear only with their session (C06). *)
Theorem C04_membership_follows_commands : forall w i e w' o cl, Inv w -> step cfg verify w i e = Ok (w', o, cl) ->
  forall n u', users (sh w') !! n = Some u' -> step_member_source w i e n u'.
Proof. exact (membership_follows_commands cfg verify). Qed.

(* ... hence a membership appears only through the user's own JOIN *)
Theorem C04_gained_only_by_own_join : forall w i e w' o cl n u' n0 u ch, Inv w -> step cfg verify w i e = Ok (w', o, cl) ->
  users (sh w') !! n = Some u' -> users (sh w) !! n0 = Some u -> u_conn u = u_conn u' ->
  ch ∈ u_chans u' -> ch ∉ u_chans u ->
  u_conn u' = i /\ exists c l msg chs keys, conns w !! i = Some c /\ c_auth c = true /\ e = EvLine l /\ tokenize l = inl msg /\
                                             command_of_message msg = inl (JOIN chs keys).
Proof. exact (membership_gained_only_by_own_join cfg verify). Qed.

(* ... and a user who stays connected loses a membership only through its own PART or a KICK naming that channel *)
Theorem C04_lost_only_by_part_or_kick : forall w i e w' o cl n u' n0 u ch, Inv w -> step cfg verify w i e = Ok (w', o, cl) ->
  users (sh w') !! n = Some u' -> users (sh w) !! n0 = Some u -> u_conn u = u_conn u' ->
  ch ∈ u_chans u -> ch ∉ u_chans u' ->
  exists c l msg, conns w !! i = Some c /\ c_auth c = true /\ e = EvLine l /\ tokenize l = inl msg /\
    ((u_conn u' = i /\ exists chs reason, command_of_message msg = inl (PART chs reason)) \/
     (exists vs comment, command_of_message msg = inl (KICK ch vs comment))).
Proof. exact (membership_lost_only_by_part_or_kick cfg verify). Qed.

End C04.

Print Assumptions C04_symmetric.
Print Assumptions C04_rank_lists.
Print Assumptions C04_members_live.
Print Assumptions C04_names_text.
Print Assumptions C04_names_complete.
Print Assumptions C04_names_sound.
Print Assumptions C04_whois_text.
Print Assumptions C04_views_agree.
Print Assumptions C04_who_text.
Print Assumptions C04_part_announced.
Print Assumptions C04_kick_announced.
Print Assumptions C04_join_output.
Print Assumptions C04_join_announced.
Print Assumptions C04_join_refused_silent.
Print Assumptions C04_membership_follows_commands.
Print Assumptions C04_gained_only_by_own_join.
Print Assumptions C04_lost_only_by_part_or_kick.
