(* C19 - reported statistics are true; connection slots do not leak.  Statements only; proofs
   in IRCP.InvDefs / IRCP.InvStep / IRCP.Reach / IRCP.HighWater.  IRCP.PresenceP. *)
From IRC Require Import Str Wild Glob Parse Reply State Handlers Step.
From IRCP Require Import InvDefs InvStep Reach HighWater PresenceP.
From stdpp Require Import gmap.
Open Scope N_scope.

Section C19.
Context (cfg : config) (verify : str -> str -> bool).

(* in every reachable world the incrementally maintained counters equal the true counts *)
Theorem C19_counters : forall w, reachable cfg verify w ->
  inv_count (sh w) = n_invisible (sh w) /\ op_count (sh w) = n_opers (sh w) /\
  nconns w = N.of_nat (size (conns w)).
Proof.
  intros w R. destruct (reachable_inv cfg verify w R) as [I _]. pose proof (iw_s w I) as IS.
  split; [exact (is_ci (sh w) IS)|]. split; [exact (is_co (sh w) IS)|exact (iw_nc w I)].
Qed.

(* hence LUSERS reports the actual numbers of users, invisible users, operators and channels *)
Theorem C19_lusers : forall w client, reachable cfg verify w ->
  lusers_lines (sh w) client =
  Ok [ rpl_luserclient client (n_users (sh w) - n_invisible (sh w)) (n_invisible (sh w));
       rpl_luserop client (n_opers (sh w));
       rpl_luserunknown client;
       rpl_luserchannels client (N.of_nat (size (chans (sh w))));
       rpl_luserme client (n_users (sh w));
       rpl_localusers client (n_users (sh w)) (max_users (sh w));
       rpl_globalusers client (n_users (sh w)) (max_users (sh w)) ] /\ n_invisible (sh w) <= n_users (sh w).
Proof. intros w client R. destruct (reachable_inv cfg verify w R) as [I _]. exact (lusers_true (sh w) client (iw_s w I)). Qed.

(* with max_connections = m never more than m connections are served at once *)
Theorem C19_limit : forall w m, reachable cfg verify w -> cfg_max_connections cfg = Some m ->
  N.of_nat (size (conns w)) <= m.
Proof.
  intros w m R Hm. destruct (reachable_inv cfg verify w R) as [I B]. unfold conn_bound in B. rewrite Hm in B.
  now rewrite <- (iw_nc w I).
Qed.

(* every connection that ends frees its slot: the counter is the number of live connections
   (C19_counters), and a closed connection is no longer live *)
Theorem C19_slot_freed : forall w i e w' o cl j, Inv w -> step cfg verify w i e = Ok (w', o, cl) -> j ∈ cl ->
  conns w' !! j = None /\ nconns w' = N.of_nat (size (conns w')).
Proof.
  intros w i e w' o cl j I H Hj. destruct (step_frame cfg verify w i e w' o cl I H) as [I' [_ [_ [_ [Hgone _]]]]].
  split; [exact (Hgone j Hj)|exact (iw_nc w' I')].
Qed.

(* the maximum reported by LUSERS (265 / 266) is the true high-water mark: it starts at 0, and after
   every step it is the maximum of its previous value and the current number of registered users
   (a step changes the population by at most one registration or by removals only), so by
   induction it is the largest population any moment of the history has seen *)
Theorem C19_high_water_step : forall w i e w' o cl, Inv w -> hw w -> step cfg verify w i e = Ok (w', o, cl) ->
  hw w' /\ max_users (sh w') = N.max (max_users (sh w)) (N.of_nat (size (users (sh w')))).
Proof. exact (step_high_water cfg verify). Qed.

Theorem C19_high_water_dominates : forall w, reachable cfg verify w -> N.of_nat (size (users (sh w))) <= max_users (sh w).
Proof. exact (reachable_hw cfg verify). Qed.

(* ISON: all 303 replies together name exactly the queried nicknames that are registered (in the
   order and with the repetitions asked); USERHOST: one entry per queried registered nickname,
   '*' iff (local) operator, '-' iff away *)
Theorem C19_ison_exact : forall i s c nicks,
  process_ison cfg i s c nicks =
    hr s c (mine cfg i (List.map (fun ch => rpl_ison (client_name c) (List.filter (registered_b s) ch)) (chunks 20 nicks))) /\
  concat (List.map (List.filter (registered_b s)) (chunks 20 nicks)) = List.filter (registered_b s) nicks.
Proof. exact (ison_exact cfg). Qed.

Theorem C19_userhost_exact : forall i s c nicks,
  process_userhost cfg i s c nicks =
    hr s c (mine cfg i (List.map (fun ch => rpl_userhost (client_name c) (omap (userhost_entry s) ch)) (chunks 20 nicks))) /\
  concat (List.map (omap (userhost_entry s)) (chunks 20 nicks)) = omap (userhost_entry s) nicks.
Proof. exact (userhost_exact cfg). Qed.

End C19.

Print Assumptions C19_counters.
Print Assumptions C19_lusers.
Print Assumptions C19_limit.
Print Assumptions C19_slot_freed.
Print Assumptions C19_high_water_step.
Print Assumptions C19_high_water_dominates.
Print Assumptions C19_ison_exact.
Print Assumptions C19_userhost_exact.
