(* C09 - KICK, TOPIC and INVITE obey channel rank.  Statements only; proofs in IRCP.RankP. *)
From IRC Require Import Str Wild Glob Parse Reply State Handlers Step.
From IRCP Require Import InvDefs RankP BanP JoinP InviteP TopicFrame TopicGlobal MembersFrame InvitedFrame InvitedGlobal KickGlobal TopicInviteRank.
From stdpp Require Import gmap.

Section C09.
Context (cfg : config) (i : nat).

(* a victim is removable iff it is neither founder nor protected and, when the actor is a mere
   half-operator, it is not half-operator or above *)
Theorem C09_kickable : forall r vr,
  kickable r vr = true <->
  r_founder vr = false /\ r_protected vr = false /\
  (rk_is_half_operator vr = false \/ rk_is_only_half_operator r = false).
Proof. exact kickable_spec. Qed.

(* who KICK removes: absent channel / outsider / below half-operator: nobody (403 / 442 / 482);
   otherwise exactly the named members the actor's rank may remove - a duplicate-free list, so
   repeated and absent names are harmless *)
Theorem C09_kick_decision : forall s nick client ch vs,
  let d := kick_decide s nick client ch vs in
  match chans s !! ch with
  | None => d = ([], [err_nosuchchannel client ch])
  | Some co =>
      match ch_users co !! nick with
      | None => d = ([], [err_notonchannel client ch])
      | Some r =>
          if rk_is_half_operator r then
            NoDup d.1 /\ forall v, v ∈ d.1 <-> v ∈ vs /\ exists vr, ch_users co !! v = Some vr /\ kickable r vr = true
          else d = ([], [err_chanoprivsneeded client ch])
      end
  end.
Proof. exact kick_decide_spec. Qed.

Theorem C09_kick_refused_inert : forall s c ch vs comment r nick,
  c_nick c = Some nick -> (kick_decide s nick (client_name c) ch vs).1 = [] ->
  process_kick cfg i s c ch vs comment = Ok r ->
  h_sh r = s /\ h_conn r = c /\ Forall (fun x => x.1 = i) (h_out r).
Proof. exact (process_kick_nobody cfg i). Qed.

(* the new state is the removal of the selected victims (membership and every rank go with
   remove_user_from_channel; the channel dies with its last member: C16) *)
Theorem C09_kick_effect : forall s c ch vs comment r nick,
  c_nick c = Some nick -> process_kick cfg i s c ch vs comment = Ok r ->
  rfold (fun s v => st_remove_user_from_channel ch v s) (kick_decide s nick (client_name c) ch vs).1 s = Ok (h_sh r)
  /\ h_conn r = c /\ h_quit r = false.
Proof. exact (process_kick_state cfg i). Qed.

(* TOPIC is changed only by a member, on +t only by half-operator or above; the new topic (or
   none, for the empty text) is stored with the setter's nick and relayed to every member *)
Theorem C09_topic : forall s c ch t msg r nick,
  c_nick c = Some nick -> process_topic cfg i s c ch (Some t) msg = Ok r ->
  h_conn r = c /\ h_quit r = false /\
  match chans s !! ch with
  | None => h_sh r = s /\ h_out r = [(i, srv cfg (err_nosuchchannel (client_name c) ch))]
  | Some co =>
      match ch_users co !! nick with
      | None => h_sh r = s /\ h_out r = [(i, srv cfg (err_notonchannel (client_name c) ch))]
      | Some rk =>
          if topic_allowed co rk then
            let co' := ch_set_topic (if is_empty t then None else Some (t, nick)) co in
            h_sh r = set_chans (fun cs => <[ch := co']> cs) s /\
            exists rcpts, rcpts = member_names co' /\
              Forall2 (fun n x => exists u, users s !! n = Some u /\
                                             x = (u_conn u, to_string_with_source msg (c_source c)))
                      rcpts (h_out r)
          else h_sh r = s /\ h_out r = [(i, srv cfg (err_chanoprivsneeded (client_name c) ch))]
      end
  end.
Proof. exact (process_topic_set cfg i). Qed.

(* INVITE is honoured only from a member (holding the operator flag if the channel is +i) for a
   registered user not already on the channel; it records one invitation and reaches exactly the
   invited user; every refusal changes nothing *)
Theorem C09_invite : forall s c nickname ch msg r nick,
  c_nick c = Some nick -> process_invite cfg i s c nickname ch msg = Ok r ->
  h_conn r = c /\ h_quit r = false /\
  match chans s !! ch with
  | None => h_sh r = s /\ h_out r = [(i, srv cfg (err_nosuchchannel (client_name c) ch))]
  | Some co =>
      match ch_users co !! nick with
      | None => h_sh r = s /\ h_out r = [(i, srv cfg (err_notonchannel (client_name c) ch))]
      | Some rk =>
          if cm_invite_only (ch_modes co) && negb (r_operator rk)
          then h_sh r = s /\ h_out r = [(i, srv cfg (err_chanoprivsneeded (client_name c) ch))]
          else if bool_decide (nickname ∈ dom (ch_users co))
          then h_sh r = s /\ h_out r = [(i, srv cfg (err_useronchannel (client_name c) nickname ch))]
          else match users s !! nickname with
               | None => h_sh r = s /\ h_out r = [(i, srv cfg (err_nosuchnick (client_name c) nickname))]
               | Some inv =>
                   h_sh r = set_users (fun us => <[nickname := u_set_invited (fun v => {[ch]} ∪ v) inv]> us) s /\
                   h_out r = [(i, srv cfg (rpl_inviting (client_name c) nickname ch));
                              (u_conn inv, to_string_with_source msg (c_source c))]
               end
      end
  end.
Proof. exact (process_invite_spec cfg i). Qed.

(* ... AND GRANTS ONE ADMISSION TO THAT CHANNEL.  The record INVITE writes admits its holder past +i whatever the
   invite-exception list says; *)
Theorem C09_invitation_admits : forall co inv ch source,
  invite_allows co (u_set_invited (fun v => {[ch]} ∪ v) inv) ch source.
Proof. exact invited_allows. Qed.

(* any accepted JOIN to that channel - to the existing channel, or re-creating it after it vanished with the
   invitation pending - takes exactly that invitation out of the pending set, after which the holder is no longer
   admitted to the invite-only channel (unless an invite-exception mask matches); a refused JOIN entry leaves the
   pending invitations alone *)
Theorem C09_invitation_used_once : forall nick s ch create s' u,
  users s !! nick = Some u -> join_insert nick s (ch, (true, create)) = Ok s' ->
  exists u', users s' !! nick = Some u' /\ u_invited u' = u_invited u ∖ {[ch]} /\ ch ∉ u_invited u' /\
    (forall co source, cm_invite_only (ch_modes co) = true -> ~ matches_any (cm_invex (ch_modes co)) source ->
                       ~ invite_allows co u' ch source).
Proof. exact join_uses_invitation. Qed.

Theorem C09_refused_join_keeps_invitation : forall nick s ch create, join_insert nick s (ch, (false, create)) = Ok s.
Proof. exact refused_join_keeps_invitation. Qed.

End C09.

(* TOPIC IS CHANGED ONLY BY A TOPIC COMMAND, over every event of every connection: a channel that exists before and
   after a step has the same topic (text and setter) - which is what later TOPIC, LIST and JOIN replies show - unless
   the event is a registered connection's TOPIC line naming that very channel (which then needs membership, and on +t
   the rank, by C09_topic).  JOIN, PART, KICK, NICK, MODE and every way a session ends leave the topic alone. *)
Theorem C09_topic_changes_only_by_topic : forall cfg verify w i e w' o cl,
  Inv w -> step cfg verify w i e = Ok (w', o, cl) ->
  forall ch co co', chans (sh w) !! ch = Some co -> chans (sh w') !! ch = Some co' ->
  ch_topic co' = ch_topic co \/
  exists c l, conns w !! i = Some c /\ e = EvLine l /\ c_auth c = true /\
              exists msg t, tokenize l = inl msg /\ command_of_message msg = inl (TOPIC ch t).
Proof. exact topic_changes_only_by_topic. Qed.

(* INVITE AND NOTHING ELSE GRANTS THE ADMISSION, AND ONLY THE HOLDER'S OWN JOIN USES IT, over every event of every
   connection: a channel is in a user's pending-invitation set after a step and was not before only if the event is a
   registered connection's INVITE line naming exactly that user and that channel; a user who stays connected loses a
   pending invitation only through its own JOIN. *)
Theorem C09_invitation_gained_only_by_invite : forall cfg verify w i e w' o cl n u' n0 u ch, Inv w -> step cfg verify w i e = Ok (w', o, cl) ->
  users (sh w') !! n = Some u' -> users (sh w) !! n0 = Some u -> u_conn u = u_conn u' ->
  ch ∈ u_invited u' -> ch ∉ u_invited u ->
  exists c l msg, conns w !! i = Some c /\ c_auth c = true /\ e = EvLine l /\ tokenize l = inl msg /\
                  command_of_message msg = inl (INVITE n ch).
Proof. exact invitation_gained_only_by_invite. Qed.

Theorem C09_invitation_lost_only_by_own_join : forall cfg verify w i e w' o cl n u' n0 u ch, Inv w -> step cfg verify w i e = Ok (w', o, cl) ->
  users (sh w') !! n = Some u' -> users (sh w) !! n0 = Some u -> u_conn u = u_conn u' ->
  ch ∈ u_invited u -> ch ∉ u_invited u' ->
  u_conn u' = i /\ exists c l msg chs keys, conns w !! i = Some c /\ c_auth c = true /\ e = EvLine l /\ tokenize l = inl msg /\
                                             command_of_message msg = inl (JOIN chs keys).
Proof. exact invitation_lost_only_by_own_join. Qed.

(* KICK OBEYS RANK, for every history.  Over every event of every connection: a user who stays connected and is on a channel
   before the step but not after it either sent its own PART line, or the event is a KICK line naming that channel and that
   user whose sender was - in the state before the line - a member of the channel holding half-operator rank or above, and
   whose rank may remove the victim's: the victim neither founder nor protected and, for a sender who is a mere half-operator,
   not itself half-operator or above (kickable, C09_kickable).  Nobody without that rank, and no other command, removes
   anybody. *)
Theorem C09_removed_only_by_part_or_ranked_kick : forall cfg verify w i e w' o cl n u' n0 u ch, Inv w -> step cfg verify w i e = Ok (w', o, cl) ->
  users (sh w') !! n = Some u' -> users (sh w) !! n0 = Some u -> u_conn u = u_conn u' ->
  ch ∈ u_chans u -> ch ∉ u_chans u' ->
  exists c l msg, conns w !! i = Some c /\ c_auth c = true /\ e = EvLine l /\ tokenize l = inl msg /\
    ((u_conn u' = i /\ exists chs reason, command_of_message msg = inl (PART chs reason)) \/
     (exists vs comment, command_of_message msg = inl (KICK ch vs comment) /\ n = n0 /\ n ∈ vs /\
        exists kicker co r vr, c_nick c = Some kicker /\ chans (sh w) !! ch = Some co /\ ch_users co !! kicker = Some r /\
          rk_is_half_operator r = true /\ ch_users co !! n = Some vr /\ kickable r vr = true)).
Proof. exact removed_only_by_part_or_ranked_kick. Qed.

(* TOPIC OBEYS RANK, for every history: a channel whose topic differs after a step had it set by this event, a TOPIC line
   naming it, sent by a registered connection that - in the state before the line - was a member and, on a +t channel, held
   half-operator rank or above; the new topic is the text with the sender's nick (none for the empty text) *)
Theorem C09_topic_changed_only_by_rank : forall cfg verify w i e w' o cl ch co co', Inv w -> step cfg verify w i e = Ok (w', o, cl) ->
  chans (sh w) !! ch = Some co -> chans (sh w') !! ch = Some co' -> ch_topic co' <> ch_topic co ->
  exists c l msg t nick rk, conns w !! i = Some c /\ c_auth c = true /\ e = EvLine l /\ tokenize l = inl msg /\
    command_of_message msg = inl (TOPIC ch (Some t)) /\ c_nick c = Some nick /\ ch_users co !! nick = Some rk /\
    topic_allowed co rk = true /\ ch_topic co' = (if is_empty t then None else Some (t, nick)).
Proof. exact topic_changed_only_by_rank. Qed.

(* INVITE OBEYS RANK, for every history: a pending invitation that is new after a step was written by this event, an INVITE
   line naming that user and channel, sent by a registered connection that - before the line - was a member of the channel
   and, when the channel is invite-only, held the operator flag; the invited user was not on the channel *)
Theorem C09_invited_only_by_rank : forall cfg verify w i e w' o cl n u' n0 u ch, Inv w -> step cfg verify w i e = Ok (w', o, cl) ->
  users (sh w') !! n = Some u' -> users (sh w) !! n0 = Some u -> u_conn u = u_conn u' ->
  ch ∈ u_invited u' -> ch ∉ u_invited u ->
  exists c l msg nick co rk, conns w !! i = Some c /\ c_auth c = true /\ e = EvLine l /\ tokenize l = inl msg /\
    command_of_message msg = inl (INVITE n ch) /\ c_nick c = Some nick /\ chans (sh w) !! ch = Some co /\
    ch_users co !! nick = Some rk /\ (cm_invite_only (ch_modes co) = true -> r_operator rk = true) /\ n ∉ dom (ch_users co).
Proof. exact invited_only_by_rank. Qed.

(* a KICK that selects nobody, as a whole step of the server after any history: absent channel, sender not on it, sender below
   half-operator, or no named member the sender's rank may remove - the state and every connection record are unchanged, nobody
   is closed, only the sender hears anything (its 403 / 442 / 482 / 441) *)
Theorem C09_kick_refused_step : forall cfg verify w i l msg ch vs comment c nick w' o cl, Inv w ->
  step cfg verify w i (EvLine l) = Ok (w', o, cl) ->
  conns w !! i = Some c -> c_auth c = true -> c_nick c = Some nick -> tokenize l = inl msg ->
  command_of_message msg = inl (KICK ch vs comment) -> (kick_decide (sh w) nick (client_name c) ch vs).1 = [] ->
  sh w' = sh w /\ conns w' = conns w /\ Forall (fun x => x.1 = i) o.
Proof. exact kick_refused_step. Qed.

Print Assumptions C09_kickable.
Print Assumptions C09_kick_refused_step.
Print Assumptions C09_topic_changed_only_by_rank.
Print Assumptions C09_invited_only_by_rank.
Print Assumptions C09_removed_only_by_part_or_ranked_kick.
Print Assumptions C09_kick_decision.
Print Assumptions C09_kick_refused_inert.
Print Assumptions C09_kick_effect.
Print Assumptions C09_topic.
Print Assumptions C09_invite.
Print Assumptions C09_invitation_admits.
Print Assumptions C09_invitation_used_once.
Print Assumptions C09_refused_join_keeps_invitation.
Print Assumptions C09_topic_changes_only_by_topic.
Print Assumptions C09_invitation_gained_only_by_invite.
Print Assumptions C09_invitation_lost_only_by_own_join.
