(* C07 - JOIN admits exactly those whom key, bans, invitation, limit and quota allow.
   Statements only; proofs in IRCP.JoinP, IRCP.JoinP2, IRCP.BanP. *)
From IRC Require Import Str Wild Glob Parse Reply State Handlers Step.
From IRCP Require Import BanP JoinP JoinP2 JoinListP InvDefs AdmitGlobal.
From stdpp Require Import gmap.

Section C07.
Context (cfg : config) (i : nat).

(* the channel-side rule: key equal to +k when set; no ban mask globs the source unless an
   exception mask does; not +i, or invited, or an invite-exception mask globs the source; member
   count below +l when set.  The check phase accepts iff the rule holds, and on refusal reports
   exactly the first failing condition in the order 475, 474, 473, 471 *)
Theorem C07_check_iff : forall s c u nick client chname key co,
  chans s !! chname = Some co -> nick ∉ dom (ch_users co) ->
  let r := join_check s c u nick client chname key in
  r.1.2 = false /\
  (r.1.1 = true <-> join_allowed co u chname (c_source c) key) /\
  (r.1.1 = true -> r.2 = []) /\
  (r.1.1 = false ->
     (~ key_ok co key /\ r.2 = [err_badchannelkey client chname]) \/
     (key_ok co key /\ banned (ch_modes co) (c_source c) = true /\ r.2 = [err_bannedfromchan client chname]) \/
     (key_ok co key /\ banned (ch_modes co) (c_source c) = false /\ ~ invite_allows co u chname (c_source c)
        /\ r.2 = [err_inviteonlychan client chname]) \/
     (key_ok co key /\ banned (ch_modes co) (c_source c) = false /\ invite_allows co u chname (c_source c)
        /\ ~ below_limit co /\ r.2 = [err_channelisfull client chname])).
Proof. exact join_check_spec. Qed.

(* the whole command for one existing channel and a non-member: it succeeds iff the channel rule
   and the max_joins quota allow it; success makes the user a member with the configured default
   ranks and uses up the invitation; refusal changes nothing, tells nobody else, and answers the
   sender with a non-empty list of errors *)
Theorem C07_single_channel : forall s c ch keys r nick u co,
  c_nick c = Some nick -> users s !! nick = Some u -> chans s !! ch = Some co ->
  nick ∉ dom (ch_users co) -> (forall ks, keys = Some ks -> length ks = 1%nat) ->
  process_join cfg i s c [ch] keys = Ok r ->
  h_conn r = c /\ h_quit r = false /\
  ((join_allowed co u ch (c_source c) (supplied_key keys) /\ quota_ok cfg u) ->
     users (h_sh r) = <[nick := u_set_invited (fun v => v ∖ {[ch]}) (u_set_chans (fun cs => {[ch]} ∪ cs) u)]> (users s)
     /\ chans (h_sh r) = <[ch := chan_add_user nick co]> (chans s)) /\
  (~ (join_allowed co u ch (c_source c) (supplied_key keys) /\ quota_ok cfg u) ->
     h_sh r = s /\ h_out r <> [] /\ Forall (fun x => x.1 = i) (h_out r)).
Proof. exact (process_join_single cfg i). Qed.

(* state effect of one accepted list entry (used for comma lists: the plan is applied entry by entry) *)
Theorem C07_accepted_effect : forall nick s ch s' u co,
  users s !! nick = Some u -> chans s !! ch = Some co ->
  join_insert nick s (ch, (true, false)) = Ok s' ->
  users s' = <[nick := u_set_invited (fun v => v ∖ {[ch]}) (u_set_chans (fun cs => {[ch]} ∪ cs) u)]> (users s) /\
  chans s' = <[ch := chan_add_user nick co]> (chans s) /\
  wallops s' = wallops s /\ inv_count s' = inv_count s /\ op_count s' = op_count s /\
  max_users s' = max_users s /\ histories s' = histories s.
Proof. exact join_insert_existing. Qed.

Theorem C07_refused_effect : forall nick s ch create, join_insert nick s (ch, (false, create)) = Ok s.
Proof. exact join_insert_refused. Qed.

(* comma lists, with repeats: the plan of decisions is the one the statement prescribes - every
   entry is judged by the admission rule (C07_check_iff) against the state at the START of the
   command, with the key at its own position; a channel accepted earlier in the same list is skipped
   (no second join, no second announcement); the quota compares max_joins with the channels already
   held plus the entries accepted so far - and the new state is that plan applied entry by entry
   (C07_accepted_effect, C07_refused_effect, C16_create_effect) *)
Theorem C07_comma_list : forall s c chs keys r nick u,
  c_nick c = Some nick -> users s !! nick = Some u -> process_join cfg i s c chs keys = Ok r ->
  exists plan, plan_ok cfg s c u nick (client_name c) keys [] (N.of_nat (size (u_chans u))) 0 chs plan /\
    rfold (join_insert nick) plan s = Ok (h_sh r) /\ h_conn r = c /\ h_quit r = false.
Proof. exact (process_join_plan cfg i). Qed.

End C07.

(* EXACTLY THOSE WHOM THE RULE ALLOWS, for every history.  Over every event of every connection: a user that holds a
   membership after the step which the same connection's user did not hold before it is the sender of this event, the event
   is its JOIN line, the channel stands at some position k of its list, the quota had room (channels held before the line
   < max_joins), and - when the channel existed - the channel as it was BEFORE the line admitted this user with the key at
   position k: key, bans and exceptions, invitation, limit (join_allowed, the rule of C07_check_iff).  No other command and
   nobody else's command makes anybody a member; an operator's neither. *)
Theorem C07_member_only_if_admitted : forall cfg verify w i e w' o cl n u' n0 u ch, Inv w -> step cfg verify w i e = Ok (w', o, cl) ->
  users (sh w') !! n = Some u' -> users (sh w) !! n0 = Some u -> u_conn u = u_conn u' ->
  ch ∈ u_chans u' -> ch ∉ u_chans u ->
  exists c l msg chs0 keys k key, conns w !! i = Some c /\ c_auth c = true /\ u_conn u' = i /\ n0 = n /\ c_nick c = Some n /\
    e = EvLine l /\ tokenize l = inl msg /\ command_of_message msg = inl (JOIN chs0 keys) /\
    nth_error chs0 k = Some ch /\ key_at keys k = Some key /\ quota_ok cfg u /\
    forall co, chans (sh w) !! ch = Some co -> join_allowed co u ch (c_source c) key.
Proof. exact gained_only_if_admitted. Qed.

Print Assumptions C07_check_iff.
Print Assumptions C07_member_only_if_admitted.
Print Assumptions C07_comma_list.
Print Assumptions C07_single_channel.
Print Assumptions C07_accepted_effect.
Print Assumptions C07_refused_effect.
