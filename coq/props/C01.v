(* C01 - messages reach exactly the addressed audience, once, truly attributed.
   Statements only; proofs in IRCP.MsgP. *)
From IRC Require Import Str Wild Parse Reply State Handlers Step.
From IRCP Require Import MsgP Reach IdentP InvDefs MsgGlobal.
From stdpp Require Import gmap.

Section C01.
Context (cfg : config) (i : nat).

(* the line every recipient gets: the sender's current nick!user@host, the verb, the target
   as sent and the text as sent *)
Theorem C01_line_shape : forall c notice target text,
  msg_line c notice target text =
  (c_colon :: c_source c) ++ (c_space :: (if notice then lit "NOTICE " else lit "PRIVMSG ")
                                          ++ target ++ lit " :" ++ text).
Proof. reflexivity. Qed.

(* who is addressed by a channel target: without status prefix the members, with status
   prefixes the union of the named rank lists *)
Theorem C01_audience : forall ty co n,
  n ∈ audience ty co <->
  if tt_special ty then
    (tt_founder ty = true /\ n ∈ cm_founders (ch_modes co)) \/
    (tt_protected ty = true /\ n ∈ cm_protecteds (ch_modes co)) \/
    (tt_oper ty = true /\ n ∈ cm_operators (ch_modes co)) \/
    (tt_half ty = true /\ n ∈ cm_half_operators (ch_modes co)) \/
    (tt_voice ty = true /\ n ∈ cm_voices (ch_modes co))
  else n ∈ dom (ch_users co).
Proof. exact audience_elem. Qed.

(* an accepted channel target: the queued lines are, in one-to-one correspondence, the audience
   members other than the sender (a duplicate-free list) - one copy each, to the connection that
   owns that nickname, nobody else, the sender excluded *)
Theorem C01_channel_exactly_once : forall s c nick text notice target ty ch co o d,
  privmsg_one cfg i s c nick text notice target = Ok (o, d) ->
  target_type target = (ty, ch) -> tt_channel ty = true -> chans s !! ch = Some co ->
  can_send co nick (c_source c) = true ->
  d = true /\
  exists rcpts, NoDup rcpts /\ (forall n, n ∈ rcpts <-> n ∈ audience ty co /\ n <> nick) /\
                Forall2 (delivered s (msg_line c notice target text)) rcpts o.
Proof. exact (privmsg_one_channel_ok cfg i). Qed.

(* a nickname target: exactly the connection owning that nickname *)
Theorem C01_nick_target : forall s c nick text notice target ty ch o d,
  privmsg_one cfg i s c nick text notice target = Ok (o, d) ->
  target_type target = (ty, ch) -> tt_channel ty = false ->
  match users s !! target with
  | Some u => d = true /\
              o = (u_conn u, msg_line c notice target text) ::
                  (if notice then [] else
                     match u_away u with
                     | Some a => [(i, srv cfg (rpl_away (client_name c) target a))]
                     | None => [] end)
  | None => d = false /\ o = if notice then [] else [(i, srv cfg (err_nosuchnick (client_name c) target))]
  end.
Proof. exact (privmsg_one_nick cfg i). Qed.

(* the whole command: every DISTINCT target is handled exactly once (duplicates in the target
   list do not multiply deliveries), the shared state and the connection are unchanged *)
Theorem C01_command : forall s c targets text notice r,
  process_privmsg_notice cfg i s c targets text notice = Ok r ->
  h_sh r = s /\ h_conn r = c /\ h_quit r = false /\
  exists nick outs, c_nick c = Some nick /\
    Forall2 (fun t x => exists d1, privmsg_one cfg i s c nick text notice t = Ok (x, d1))
            (dedup_str targets) outs /\
    h_out r = concat outs.
Proof. exact (process_privmsg_notice_spec cfg i). Qed.

Theorem C01_distinct_targets : forall l,
  NoDup (dedup_str l) /\ forall x, x ∈ dedup_str l <-> x ∈ l.
Proof. intros l. split; [apply dedup_str_nodup|intros x; apply dedup_str_elem]. Qed.

End C01.

(* "truly attributed": in every reachable world - whatever the order of NICK and USER at registration, and
   however many nick changes followed - the source string of a registered user, which is the prefix of
   every copy it originates (C01_line_shape), is nick!~user@host with the nick it is registered under now,
   the user name it gave and its host; the connection that owns the record is registered under that nick
   and caches the same string *)
Theorem C01_true_attribution : forall cfg verify w n u, reachable cfg verify w -> users (sh w) !! n = Some u ->
  u_source u = n ++ [c_excl] ++ (c_tilde :: u_name u) ++ (c_at :: u_host u) /\
  exists c, conns w !! u_conn u = Some c /\ c_auth c = true /\ c_nick c = Some n /\ c_source c = u_source u.
Proof. exact source_is_identity. Qed.

(* AND NO COPY REACHES ANYBODY ELSE: a PRIVMSG / NOTICE line of a registered connection as a whole step of the server - after
   any history.  The state is unchanged, no connection is closed, and EVERYTHING that is sent in the step, to any connection, is
   the concatenation over the distinct targets of the line of what the one-target rule prescribes (C01_channel_exactly_once /
   C01_nick_target: one copy to the owner of each audience member other than the sender; for PRIVMSG the sender's 301 / 401 / 404
   numerics): there is no other delivery and no other line *)
Theorem C01_message_step : forall cfg verify w i l msg targets text (notice : bool) c w' o cl, Inv w ->
  step cfg verify w i (EvLine l) = Ok (w', o, cl) ->
  conns w !! i = Some c -> c_auth c = true -> tokenize l = inl msg ->
  command_of_message msg = inl (if notice then NOTICE targets text else PRIVMSG targets text) ->
  sh w' = sh w /\ conns w' = conns w /\ cl = [] /\
  exists nick outs, c_nick c = Some nick /\
    Forall2 (fun t x => exists d1, privmsg_one cfg i (sh w) c nick text notice t = Ok (x, d1)) (dedup_str targets) outs /\
    o = concat outs.
Proof. exact message_step. Qed.

Print Assumptions C01_line_shape.
Print Assumptions C01_message_step.
Print Assumptions C01_audience.
Print Assumptions C01_channel_exactly_once.
Print Assumptions C01_nick_target.
Print Assumptions C01_command.
Print Assumptions C01_distinct_targets.
Print Assumptions C01_true_attribution.
