(* C12 - secret channels stay hidden from outsiders.  Statements only; proofs in IRCP.SecretP.
   The full two-world statement (all four query forms, comma lists, wildcard masks, invisible
   users) is decided on every run by the two-world differential check (level L2); the theorems
   below are the part carried by proof, hence the names ending in _partial.  One query form
   FAILS the property on the unchanged code and is proved to fail: C12_names_explicit_refuted
   (recorded finding names-explicit-secret-silence). *)
From IRC Require Import Str Wild Glob Parse Reply State Handlers Step.
From IRCP Require Import InvDefs SecretP ViewsP InvisibleP InvisibleKeep.
From Coq Require Import Lia.
From stdpp Require Import gmap.

Section C12.
Context (cfg : config) (verify : str -> str -> bool) (i : nat).

(* LIST #a,#b,...: the answer is the same as in the world without the secret channel *)
Theorem C12_list_explicit_partial : forall s c chs ch co,
  chans s !! ch = Some co -> cm_secret (ch_modes co) = true -> is_empty chs = false ->
  outs (process_list cfg i (without ch s) c chs None) = outs (process_list cfg i s c chs None).
Proof. exact (list_explicit_hides cfg i). Qed.

(* LIST: the same lines as in the world without the secret channel (body up to order) *)
Theorem C12_list_all_partial : forall s c ch co,
  chans s !! ch = Some co -> cm_secret (ch_modes co) = true ->
  exists body body', body ≡ₚ body' /\
    outs (process_list cfg i s c [] None) = Some (mine cfg i ([rpl_liststart (client_name c)] ++ body ++ [rpl_listend (client_name c)])) /\
    outs (process_list cfg i (without ch s) c [] None) = Some (mine cfg i ([rpl_liststart (client_name c)] ++ body' ++ [rpl_listend (client_name c)])).
Proof. exact (list_all_hides cfg i). Qed.

(* NAMES: a secret channel yields no line at all (no 353, no member name) for a non-member *)
Theorem C12_names_no_members_partial : forall s c client nick ch co with_end,
  cm_secret (ch_modes co) = true -> nick ∉ dom (ch_users co) ->
  names_lines s c client nick ch co with_end = Ok [].
Proof. exact names_secret_outsider. Qed.

(* NAMES #secret from an outsider is silent, whereas NAMES for a channel that does not exist
   answers 366: the existence of the secret channel is revealed - for EVERY such state *)
Theorem C12_names_explicit_refuted : forall s c nick ch co,
  c_nick c = Some nick -> chans s !! ch = Some co -> cm_secret (ch_modes co) = true -> nick ∉ dom (ch_users co) ->
  outs (process_names cfg i s c [ch]) = Some [] /\
  outs (process_names cfg i (without ch s) c [ch]) = Some [(i, srv cfg (rpl_endofnames (client_name c) ch))].
Proof. exact (names_explicit_refuted cfg i). Qed.

(* WHO #secret from an outsider: the bare 315 in both worlds *)
Theorem C12_who_channel_partial : forall s c nick viewer ch co,
  c_nick c = Some nick -> users s !! nick = Some viewer ->
  contains c_star ch || contains c_qmark ch = false -> validate_channel ch = true ->
  chans s !! ch = Some co -> cm_secret (ch_modes co) = true -> nick ∉ dom (ch_users co) ->
  outs (process_who cfg i s c ch) = Some [(i, srv cfg (rpl_endofwho (client_name c) ch))] /\
  outs (process_who cfg i (without ch s) c ch) = Some [(i, srv cfg (rpl_endofwho (client_name c) ch))].
Proof. exact (who_channel_hides cfg i). Qed.

(* WHO with ANY mask - wildcards, nicknames, other channels, the secret channel's own name: an
   outsider gets the same answer as in the world without the secret channel *)
Theorem C12_who_any_mask_partial : forall s c nick ch co mask,
  c_nick c = Some nick -> chans s !! ch = Some co -> cm_secret (ch_modes co) = true -> nick ∉ dom (ch_users co) ->
  outs (process_who cfg i (without ch s) c mask) = outs (process_who cfg i s c mask).
Proof. exact (who_hides cfg i). Qed.

(* WHOIS never names a secret channel: every entry of its channel list comes from a non-secret
   channel of the user's membership set - whoever asks *)
Theorem C12_whois_never_lists_secret_partial : forall s c n u e,
  e ∈ concat (chunks 30 (List.map (whois_chan_entry s c n) (List.filter (whois_chan_visible s) (elements (u_chans u))))) ->
  exists ch co, ch ∈ u_chans u /\ chans s !! ch = Some co /\ cm_secret (ch_modes co) = false /\ e = whois_chan_entry s c n ch.
Proof.
  intros s c n u e H. rewrite concat_chunks in H by lia. apply elem_of_list_In, in_map_iff in H as [ch [<- Hf]].
  apply filter_In in Hf as [Hin Hv]. apply elem_of_list_In, elem_of_elements in Hin.
  unfold whois_chan_visible in Hv. destruct (chans s !! ch) as [co|] eqn:Hco; [|discriminate].
  exists ch, co. repeat split; auto. now apply negb_true_iff in Hv.
Qed.

(* an invisible user who shares no channel with the asker: WHOIS answers nothing about it, and
   NAMES of a channel the asker is not on does not list it *)
Theorem C12_invisible_hidden_partial : forall s c client viewer n u r0, InvS s -> users s !! n = Some u ->
  um_invisible (u_modes u) = true -> sets_disjoint (u_chans u) (u_chans viewer) = true ->
  whois_one cfg s c client viewer n = Ok r0 -> r0 = [].
Proof.
  intros s c client viewer n u r0 I Hu Hi Hd H.
  destruct (whois_channels_spec cfg s c client viewer n u r0 I Hu H) as [[_ E]|[E _]]; [exact E|].
  rewrite Hi, Hd in E. discriminate.
Qed.

Theorem C12_invisible_not_in_names_partial : forall s n u r,
  users s !! n = Some u -> um_invisible (u_modes u) = true -> name_visible s false (n, r) = false.
Proof. intros s n u r Hu Hi. unfold name_visible. cbn. rewrite Hu, Hi. reflexivity. Qed.

(* WHO and the invisible user: its entry in every WHO answer (by nick, by mask, through a channel) of a client sharing no
   channel with it is empty; *)
Theorem C12_who_entry_of_invisible_is_empty_partial : forall c client channel unick u viewer,
  um_invisible (u_modes u) = true -> sets_disjoint (u_chans u) (u_chans viewer) = true ->
  who_line cfg c client channel unick u viewer = [].
Proof. exact (who_line_invisible cfg). Qed.

(* a wildcard WHO is answered - up to the order of the 352 lines - as in the world where the user is not connected, *)
Theorem C12_who_wildcard_hides_invisible_partial : forall s c nick viewer mask n u,
  c_nick c = Some nick -> users s !! nick = Some viewer -> n <> nick -> users s !! n = Some u ->
  um_invisible (u_modes u) = true -> sets_disjoint (u_chans u) (u_chans viewer) = true ->
  contains c_star mask || contains c_qmark mask = true ->
  exists body body', body ≡ₚ body' /\
    outs (process_who cfg i s c mask) = Some (mine cfg i (body ++ [rpl_endofwho (client_name c) mask])) /\
    outs (process_who cfg i (without_user n s) c mask) = Some (mine cfg i (body' ++ [rpl_endofwho (client_name c) mask])).
Proof. exact (who_wildcard_hides_invisible cfg i). Qed.

(* and WHO <its nick> exactly as for a nick that is not connected *)
Theorem C12_who_nick_hides_invisible_partial : forall s c nick viewer n u,
  c_nick c = Some nick -> users s !! nick = Some viewer -> n <> nick -> users s !! n = Some u ->
  um_invisible (u_modes u) = true -> sets_disjoint (u_chans u) (u_chans viewer) = true ->
  contains c_star n || contains c_qmark n = false -> validate_channel n = false ->
  outs (process_who cfg i (without_user n s) c n) = outs (process_who cfg i s c n).
Proof. exact (who_nick_hides_invisible cfg i). Qed.

(* NAMES without argument: the same lines - up to the order of the channels - as in the world without the secret channel *)
Theorem C12_names_all_hides_partial : forall s c nick ch co r r',
  c_nick c = Some nick -> chans s !! ch = Some co -> cm_secret (ch_modes co) = true -> nick ∉ dom (ch_users co) ->
  process_names cfg i s c [] = Ok r -> process_names cfg i (without ch s) c [] = Ok r' ->
  exists body body', body ≡ₚ body' /\
    h_out r = mine cfg i (body ++ [rpl_endofnames (client_name c) (lit "*")]) /\
    h_out r' = mine cfg i (body' ++ [rpl_endofnames (client_name c) (lit "*")]).
Proof. exact (names_all_hides cfg i). Qed.

(* WHOIS - explicit nicks, comma lists, wildcard masks - from a client sharing no channel with an invisible user: the same
   lines, up to the order of the answered users, as in the world where that user is not connected *)
Theorem C12_whois_hides_invisible_partial : forall s c nick viewer masks n u r r',
  c_nick c = Some nick -> users s !! nick = Some viewer -> n <> nick -> users s !! n = Some u ->
  um_invisible (u_modes u) = true -> sets_disjoint (u_chans u) (u_chans viewer) = true ->
  process_whois cfg i s c None masks = Ok r -> process_whois cfg i (without_user n s) c None masks = Ok r' ->
  exists body body', body ≡ₚ body' /\
    h_out r = mine cfg i (body ++ [rpl_endofwhois (client_name c) (Str.join [c_comma] masks)]) /\
    h_out r' = mine cfg i (body' ++ [rpl_endofwhois (client_name c) (Str.join [c_comma] masks)]).
Proof. exact (whois_hides_invisible cfg i). Qed.

End C12.

(* WHO IS INVISIBLE stays what the user set: a MODE <own nick> command whose mode strings do not contain the letter 'i' - dropping
   or being refused operator status (-o, -O, +o, +O), +w / -w, +r / -r, unknown letters, any number of groups and sign switches -
   leaves the user's invisible flag as it is (together with C11_modes_follow_commands: nothing but the user's own MODE / OPER line
   touches its modes at all, and OPER sets operator flags only) *)
Theorem C12_mode_without_i_keeps_invisible_partial : forall cfg i s c nick modes r u, users s !! nick = Some u ->
  Forall (fun g : str * list str => 105%N ∉ g.1) modes ->
  process_mode_user cfg i s c nick modes = Ok r ->
  exists u', users (h_sh r) !! nick = Some u' /\ um_invisible (u_modes u') = um_invisible (u_modes u).
Proof. exact mode_user_keeps_invisible. Qed.

Print Assumptions C12_list_explicit_partial.
Print Assumptions C12_mode_without_i_keeps_invisible_partial.
Print Assumptions C12_list_all_partial.
Print Assumptions C12_names_no_members_partial.
Print Assumptions C12_names_explicit_refuted.
Print Assumptions C12_who_channel_partial.
Print Assumptions C12_who_any_mask_partial.
Print Assumptions C12_whois_never_lists_secret_partial.
Print Assumptions C12_invisible_hidden_partial.
Print Assumptions C12_invisible_not_in_names_partial.
Print Assumptions C12_who_entry_of_invisible_is_empty_partial.
Print Assumptions C12_who_wildcard_hides_invisible_partial.
Print Assumptions C12_who_nick_hides_invisible_partial.
Print Assumptions C12_names_all_hides_partial.
Print Assumptions C12_whois_hides_invisible_partial.
