(* C16 - channels are born with a founder, die with the last member, or come from config.
   Statements only; proofs in IRCP.JoinP and IRCP.ChanP. *)
From IRC Require Import Str Wild Glob Parse Reply State Handlers Step.
From IRCP Require Import JoinP ChanP InvDefs InvStep Reach PreconfP BornFrame.
From stdpp Require Import gmap.

(* a name that is not a channel: the check phase always says (join, create) - only the quota can refuse *)
Theorem C16_create_decision : forall s c u nick client chname key,
  chans s !! chname = None -> join_check s c u nick client chname key = ((true, true), []).
Proof. exact join_check_new. Qed.

Theorem C16_create_effect : forall nick s ch s' u,
  users s !! nick = Some u ->
  join_insert nick s (ch, (true, true)) = Ok s' ->
  users s' = <[nick := u_set_invited (fun v => v ∖ {[ch]}) (u_set_chans (fun cs => {[ch]} ∪ cs) u)]> (users s) /\
  chans s' = <[ch := chan_new nick]> (chans s).
Proof. exact join_insert_create. Qed.

(* the new channel has no restrictions and the joiner is its founder and operator *)
Theorem C16_fresh_channel : forall nick,
  let co := chan_new nick in
  ch_topic co = None /\ ch_preconf co = false /\ ch_baninfo co = ∅ /\
  ch_users co = {[nick := rank_creator]} /\
  cm_founders (ch_modes co) = {[nick]} /\ cm_operators (ch_modes co) = {[nick]} /\
  cm_protecteds (ch_modes co) = ∅ /\ cm_half_operators (ch_modes co) = ∅ /\ cm_voices (ch_modes co) = ∅ /\
  cm_ban (ch_modes co) = ∅ /\ cm_exception (ch_modes co) = ∅ /\ cm_invex (ch_modes co) = ∅ /\
  cm_key (ch_modes co) = None /\ cm_limit (ch_modes co) = None /\
  cm_invite_only (ch_modes co) = false /\ cm_moderated (ch_modes co) = false /\
  cm_secret (ch_modes co) = false /\ cm_protected_topic (ch_modes co) = false /\
  cm_noext (ch_modes co) = false /\
  r_founder rank_creator = true /\ r_operator rank_creator = true.
Proof. exact chan_new_spec. Qed.

(* the last member leaves by any means (PART, KICK and every session end all remove a member
   through remove_user_from_channel): an ordinary channel ceases to exist - a later JOIN then
   creates C16_fresh_channel again -, a preconfigured one persists, empty, with its topic *)
Theorem C16_last_member_leaves : forall ch nick s s' co,
  st_remove_user_from_channel ch nick s = Ok s' ->
  chans s !! ch = Some co -> dom (ch_users co) = {[nick]} ->
  if ch_preconf co then exists co', chans s' !! ch = Some co' /\ ch_users co' = ∅ /\ ch_topic co' = ch_topic co
  else chans s' !! ch = None.
Proof. exact last_member_leaves. Qed.

Theorem C16_other_member_stays : forall ch nick s s' co other,
  st_remove_user_from_channel ch nick s = Ok s' ->
  chans s !! ch = Some co -> other ∈ dom (ch_users co) -> other <> nick ->
  exists co', chans s' !! ch = Some co' /\ ch_users co' = delete nick (ch_users co).
Proof. exact other_member_stays. Qed.

(* channels of the configuration exist from start-up as configured, empty, marked preconfigured *)
Theorem C16_preconfigured_at_startup : forall cfg name,
  chans (shared_init cfg) !! name =
  option_map chan_of_cfg (find_last (fun c => str_eqb (cc_name c) name) (cfg_channels cfg)).
Proof. exact shared_init_chans. Qed.

Theorem C16_preconfigured_settings : forall c,
  let co := chan_of_cfg c in
  ch_preconf co = true /\ ch_users co = ∅ /\ ch_baninfo co = ∅ /\
  ch_topic co = option_map (fun t => (t, [])) (cc_topic c) /\
  cm_key (ch_modes co) = cm_key (cc_modes c) /\ cm_limit (ch_modes co) = cm_limit (cc_modes c) /\
  cm_ban (ch_modes co) = cm_ban (cc_modes c) /\ cm_exception (ch_modes co) = cm_exception (cc_modes c) /\
  cm_invex (ch_modes co) = cm_invex (cc_modes c) /\
  cm_invite_only (ch_modes co) = cm_invite_only (cc_modes c) /\
  cm_moderated (ch_modes co) = cm_moderated (cc_modes c) /\
  cm_secret (ch_modes co) = cm_secret (cc_modes c) /\
  cm_protected_topic (ch_modes co) = cm_protected_topic (cc_modes c) /\
  cm_noext (ch_modes co) = cm_noext (cc_modes c) /\
  cm_founders (ch_modes co) = ∅ /\ cm_protecteds (ch_modes co) = ∅ /\ cm_operators (ch_modes co) = ∅ /\
  cm_half_operators (ch_modes co) = ∅ /\ cm_voices (ch_modes co) = ∅ /\
  d_founders (ch_default co) = cm_founders (cc_modes c) /\
  d_protecteds (ch_default co) = cm_protecteds (cc_modes c) /\
  d_operators (ch_default co) = cm_operators (cc_modes c) /\
  d_half_operators (ch_default co) = cm_half_operators (cc_modes c) /\
  d_voices (ch_default co) = cm_voices (cc_modes c).
Proof. exact chan_of_cfg_spec. Qed.

(* whoever joins an existing channel gets exactly the ranks the configuration lists for that nick *)
Theorem C16_configured_ranks_on_join : forall nick co,
  let co' := chan_add_user nick co in
  exists r, ch_users co' = <[nick := r]> (ch_users co) /\
    (forall l, rank_get l r = bool_decide (nick ∈ d_get l (ch_default co))) /\
    ch_topic co' = ch_topic co /\ ch_preconf co' = ch_preconf co /\ ch_default co' = ch_default co.
Proof. exact chan_add_user_default. Qed.

(* in every reachable world - after any history of joins, parts, kicks, quits, kills, closes - a
   channel that is not preconfigured has at least one member: channels die with their last member *)
Theorem C16_no_empty_channel : forall cfg verify w ch co, reachable cfg verify w ->
  chans (sh w) !! ch = Some co -> ch_preconf co = false -> ch_users co <> ∅.
Proof.
  intros cfg verify w ch co R Hco Hp. destruct (reachable_inv cfg verify w R) as [I _].
  exact (is_ne (sh w) (iw_s w I) ch co Hco Hp).
Qed.

(* PERSIST WHILE EMPTY AND GIVE THE CONFIGURED RANKS WHENEVER THE LISTED NICKNAMES JOIN, in every reachable world: after
   any history of events every channel of the configuration still exists, is still marked preconfigured (so it is never
   dropped when it empties) and still carries the rank lists of the configuration, from which a joiner's ranks are read
   (C16_configured_ranks_on_join) - no JOIN, PART, KICK, NICK, TOPIC, MODE or session end removes or forgets them *)
Theorem C16_configured_channels_persist : forall cfg verify w name cc, reachable cfg verify w ->
  find_last (fun c => str_eqb (cc_name c) name) (cfg_channels cfg) = Some cc ->
  exists co, chans (sh w) !! name = Some co /\ ch_preconf co = true /\ ch_default co = ch_default (chan_of_cfg cc).
Proof. exact configured_channels_persist. Qed.

(* one step: a preconfigured channel is still there afterwards, with its mark and its configured rank lists *)
Theorem C16_preconfigured_kept_by_every_step : forall cfg verify w i e w' o cl, Inv w -> step cfg verify w i e = Ok (w', o, cl) ->
  forall ch co, chans (sh w) !! ch = Some co -> ch_preconf co = true ->
  exists co', chans (sh w') !! ch = Some co' /\ ch_preconf co' = true /\ ch_default co' = ch_default co.
Proof. exact step_pkeeps. Qed.

(* BORN WITH A FOUNDER, for every history.  Over every event of every connection: a channel that is there after the step and was
   not there before it was named in a JOIN line of a registered connection - this very event - and is that connection's fresh
   channel: the joiner its only member, founder and operator, no topic, default settings, empty lists - also when the JOIN
   list repeats the name or mixes fresh names with existing channels.  No other command, no registration, no session end
   and no KILL creates a channel. *)
Theorem C16_channel_born_only_by_join : forall cfg verify w i e w' o cl ch co', Inv w -> step cfg verify w i e = Ok (w', o, cl) ->
  chans (sh w) !! ch = None -> chans (sh w') !! ch = Some co' ->
  exists c nick l chs0, conns w !! i = Some c /\ c_auth c = true /\ c_nick c = Some nick /\ e = EvLine l /\
    (exists msg keys, tokenize l = inl msg /\ command_of_message msg = inl (JOIN chs0 keys)) /\ ch ∈ chs0 /\
    co' = chan_new nick /\ ch_users co' = {[nick := rank_creator]} /\ r_founder rank_creator = true /\ r_operator rank_creator = true /\
    cm_founders (ch_modes co') = {[nick]} /\ cm_operators (ch_modes co') = {[nick]} /\ ch_topic co' = None /\ ch_preconf co' = false.
Proof.
  intros cfg verify w i e w' o cl ch co' I H Hf Hc.
  destruct (channel_born_only_by_join cfg verify w i e w' o cl ch co' I H Hf Hc) as [c [nick [l [chs0 [H1 [H2 [H3 [H4 [H5 [H6 ->]]]]]]]]]].
  exists c, nick, l, chs0. repeat (split; [assumption|]). split; [reflexivity|]. cbn. repeat split.
Qed.

(* a command of a registered connection other than JOIN creates no channel *)
Theorem C16_other_commands_create_no_channel : forall cfg verify i s c cmd msg r,
  InvS s -> conn_ok i s c -> c_auth c = true -> dispatch cfg verify i s c cmd msg = Ok r ->
  (forall chs0 keys, cmd <> JOIN chs0 keys) -> forall ch, chans s !! ch = None -> chans (h_sh r) !! ch = None.
Proof. exact dispatch_nborn. Qed.

Print Assumptions C16_no_empty_channel.
Print Assumptions C16_channel_born_only_by_join.
Print Assumptions C16_other_commands_create_no_channel.
Print Assumptions C16_create_decision.
Print Assumptions C16_create_effect.
Print Assumptions C16_fresh_channel.
Print Assumptions C16_last_member_leaves.
Print Assumptions C16_other_member_stays.
Print Assumptions C16_preconfigured_at_startup.
Print Assumptions C16_preconfigured_settings.
Print Assumptions C16_configured_ranks_on_join.
Print Assumptions C16_configured_channels_persist.
Print Assumptions C16_preconfigured_kept_by_every_step.
