(* C15 - a nick change moves the whole identity and nothing else.  Statements only; proofs in
   IRCP.NickP / IRCP.InvNick. *)
From IRC Require Import Str Wild Glob Parse Reply State Handlers Step.
From IRCP Require Import InvDefs InvNick InvHandlers NickP NickGlobal.
From stdpp Require Import gmap.
Open Scope N_scope.

Section C15.
Context (cfg : config) (verify : str -> str -> bool) (i : nat).

(* accepted change old -> nick (nick free, different): the user record is re-keyed with only its
   source prefix rewritten, the old key is gone (free for others), every channel the user is on
   is renamed in place and every other channel is untouched, the WALLOPS audience is re-keyed,
   one WHOWAS entry is appended under the OLD nick, the counters do not move, and the NICK line
   with the old source goes to every registered user (a superset of the user itself and
   everyone sharing a channel with it) *)
Theorem C15_accepted : forall s c nick msg old u,
  InvS s -> c_auth c = true -> c_nick c = Some old -> users s !! old = Some u ->
  nick <> old -> users s !! nick = None ->
  let u' := u_set_source (c_source (c_with_nick nick c)) u in
  exists r, process_nick cfg verify i s c nick msg = Ok r /\ h_conn r = c_with_nick nick c /\ h_quit r = false /\
    users (h_sh r) = <[nick := u']> (delete old (users s)) /\
    (forall ch, chans (h_sh r) !! ch =
       if bool_decide (ch ∈ u_chans u) then option_map (chan_renamed old nick) (chans s !! ch) else chans s !! ch) /\
    wallops (h_sh r) = (if bool_decide (old ∈ wallops s) then {[nick]} ∪ (wallops s ∖ {[old]}) else wallops s) /\
    histories (h_sh r) = <[old := default [] (histories s !! old) ++ [u_hist u]]> (histories s) /\
    inv_count (h_sh r) = inv_count s /\ op_count (h_sh r) = op_count s /\ max_users (h_sh r) = max_users s /\
    server_quit (h_sh r) = server_quit s /\
    h_out r = List.map (fun '(_, v) => (u_conn v, to_string_with_source msg (c_source c))) (map_to_list (users (h_sh r))).
Proof. exact (process_nick_effect cfg verify i). Qed.

(* what travels: owner connection, user modes (operator status, +w, +i), away text, memberships,
   pending invitations, host, user and real name *)
Theorem C15_identity_moves : forall src u,
  let u' := u_set_source src u in
  u_conn u' = u_conn u /\ u_modes u' = u_modes u /\ u_away u' = u_away u /\ u_chans u' = u_chans u /\
  u_invited u' = u_invited u /\ u_host u' = u_host u /\ u_name u' = u_name u /\ u_real u' = u_real u /\ u_source u' = src.
Proof. exact moved_record. Qed.

(* in each of its channels the member keeps its rank record under the new name, the old name is
   no member any more, every other member is untouched, and the five rank lists are re-keyed *)
Theorem C15_channel_follows : forall old new co, old ∈ dom (ch_users co) -> new ∉ dom (ch_users co) -> new <> old ->
  ch_users (chan_renamed old new co) !! new = ch_users co !! old /\
  ch_users (chan_renamed old new co) !! old = None /\
  (forall n, n <> old -> n <> new -> ch_users (chan_renamed old new co) !! n = ch_users co !! n) /\
  (forall l, cm_get_rankset l (ch_modes (chan_renamed old new co)) = rename_in_set old new (cm_get_rankset l (ch_modes co))) /\
  ch_topic (chan_renamed old new co) = ch_topic co /\ ch_preconf (chan_renamed old new co) = ch_preconf co.
Proof. exact chan_renamed_spec. Qed.

(* a nick held by another user: exactly 433 to the sender, nothing changes *)
Theorem C15_taken_refused : forall s c nick msg old x,
  c_auth c = true -> c_nick c = Some old -> nick <> old -> users s !! nick = Some x ->
  process_nick cfg verify i s c nick msg = hr s c [(i, srv cfg (err_nicknameinuse (client_name c) nick))].
Proof. exact (process_nick_refused cfg verify i). Qed.

(* the own current nick: nothing at all *)
Theorem C15_same_is_noop : forall s c msg old,
  c_auth c = true -> c_nick c = Some old -> process_nick cfg verify i s c old msg = hr s c [].
Proof. exact (process_nick_same cfg verify i). Qed.

(* a syntactically invalid nick never reaches the handler: the parser answers and the state stays *)
Theorem C15_invalid_refused : forall s c l msg e, tokenize l = inl msg -> command_of_message msg = inr e ->
  process_line cfg verify i s c l = hr s c [(i, srv cfg (cmd_error_reply (client_name c) e))].
Proof. intros s c l msg e Ht He. unfold process_line. now rewrite Ht, He. Qed.

(* the invariant (C02/C04/C19) survives the change: see InvNick.InvS_rename and C05_invariant *)

End C15.

(* "and nothing else", for every history.  Over every event of every connection: a connection that is there before and after
   the step carries the same nickname unless the event is that connection's own NICK line; every other command of its own
   - and every command of anybody else, also an operator's - leaves it alone *)
Theorem C15_nick_changes_only_by_own_nick : forall cfg verify w i e w' o cl j c c', Inv w -> step cfg verify w i e = Ok (w', o, cl) ->
  conns w !! j = Some c -> conns w' !! j = Some c' ->
  c_nick c' = c_nick c \/ (j = i /\ exists l, e = EvLine l /\ exists msg n, tokenize l = inl msg /\ command_of_message msg = inl (NICK n)).
Proof. exact nick_changes_only_by_own_nick. Qed.

(* the same on the user table: the key a user is found under after a step is the key the same connection's user had before
   it, unless the event is the owner's own NICK line or the line completing its registration *)
Theorem C15_user_key_changes_only_by_own_nick : forall cfg verify w i e w' o cl n u', Inv w -> step cfg verify w i e = Ok (w', o, cl) ->
  users (sh w') !! n = Some u' ->
  (exists u, users (sh w) !! n = Some u /\ u_conn u = u_conn u') \/
  (u_conn u' = i /\ exists l, e = EvLine l /\
     ((exists msg n, tokenize l = inl msg /\ command_of_message msg = inl (NICK n)) \/ exists c, conns w !! i = Some c /\ c_auth c = false)).
Proof. exact user_key_changes_only_by_own_nick. Qed.

(* a registered connection's command other than NICK leaves nick and source prefix of its own record alone *)
Theorem C15_other_commands_keep_nick : forall cfg verify i s c cmd msg r,
  InvS s -> conn_ok i s c -> c_auth c = true -> (forall n, cmd <> NICK n) ->
  dispatch cfg verify i s c cmd msg = Ok r -> c_nick (h_conn r) = c_nick c /\ c_source (h_conn r) = c_source c.
Proof.
  intros cfg verify i s c cmd msg r I C A NN H.
  assert (is_nick cmd = false) as E by (destruct cmd; try reflexivity; exfalso; eapply NN; reflexivity).
  pose proof (dispatch_conn_nick cfg verify i s c cmd msg r I C A E H) as F. unfold cnick in F. split; congruence.
Qed.

Print Assumptions C15_accepted.
Print Assumptions C15_identity_moves.
Print Assumptions C15_channel_follows.
Print Assumptions C15_taken_refused.
Print Assumptions C15_same_is_noop.
Print Assumptions C15_invalid_refused.
Print Assumptions C15_nick_changes_only_by_own_nick.
Print Assumptions C15_user_key_changes_only_by_own_nick.
Print Assumptions C15_other_commands_keep_nick.
