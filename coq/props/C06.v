(* C06 - every way a session ends leaves no trace in the live state.  Statements only; proofs
   in IRCP.InvPrims / IRCP.InvStep / IRCP.Reach.  Every ending (QUIT, EOF / reset, bad text,
   over-long line, pong timeout, KILL, DIE) goes through [teardown] in the model (Step.v). *)
From IRC Require Import Str Wild Glob Parse Reply State Handlers Step.
From IRCP Require Import InvDefs InvPrims InvStep Reach CloseP EndP CloseGlobal.
From stdpp Require Import gmap.

Section C06.
Context (cfg : config) (verify : str -> str -> bool).

(* the teardown of a registered connection: the user record is deleted (the nick is free), the
   WALLOPS audience loses it, a WHOWAS entry is appended, every channel it was not on is
   untouched, every channel it was on loses exactly this member (other members and their rank
   records are the same: chan_remove_user, C16) or vanishes when that leaves it empty and it is
   not preconfigured; all OTHER user records (memberships, modes, invitations) are identical
   because the new user map is the old one minus this nick; the slot is freed *)
Theorem C06_teardown : forall w i c n, InvK w -> conns w !! i = Some c -> c_auth c = true -> c_nick c = Some n ->
  exists u w', users (sh w) !! n = Some u /\ u_conn u = i /\ teardown i w = Ok w' /\ InvK w' /\
    conns w' = delete i (conns w) /\ (nconns w' + 1 = nconns w)%N /\
    users (sh w') = delete n (users (sh w)) /\
    wallops (sh w') = wallops (sh w) ∖ {[n]} /\
    histories (sh w') = <[n := default [] (histories (sh w) !! n) ++ [u_hist u]]> (histories (sh w)) /\
    server_quit (sh w') = server_quit (sh w) /\
    (forall ch, ch ∉ u_chans u -> chans (sh w') !! ch = chans (sh w) !! ch) /\
    (forall ch co, ch ∈ u_chans u -> chans (sh w) !! ch = Some co ->
       exists co', chan_remove_user n co = Ok co' /\ chans (sh w') !! ch = chan_after_leave co').
Proof. exact teardown_registered. Qed.

(* what a departed member leaves behind in a channel: the same members minus itself, the five
   rank lists minus itself, topic and preconfigured flag untouched *)
Theorem C06_channel_after : forall n co co', chan_remove_user n co = Ok co' ->
  ch_users co' = delete n (ch_users co) /\
  (forall l, cm_get_rankset l (ch_modes co') = cm_get_rankset l (ch_modes co) ∖ {[n]}) /\
  ch_preconf co' = ch_preconf co /\ ch_topic co' = ch_topic co /\ n ∈ dom (ch_users co).
Proof. exact chan_remove_user_full. Qed.

(* a nick that names no user is in no roster, no rank list and not in the WALLOPS audience *)
Theorem C06_no_trace : forall s n, InvS s -> users s !! n = None ->
  n ∉ wallops s /\ forall ch co, chans s !! ch = Some co -> n ∉ dom (ch_users co) /\ forall l, n ∉ cm_get_rankset l (ch_modes co).
Proof. exact absent_everywhere. Qed.

(* the teardown of a connection that never registered touches nothing but the slot *)
Theorem C06_unregistered_end : forall w i c e w' o cl, Inv w -> conns w !! i = Some c -> c_auth c = false ->
  (e = EvClose \/ e = EvBadUtf8 \/ e = EvTooLong \/ e = EvPongTimeout) ->
  step cfg verify w i e = Ok (w', o, cl) -> sh w' = sh w.
Proof.
  intros w i c e w' o cl I Hc A He H. destruct (unregistered_inert cfg verify w i c e w' o cl I Hc A H) as [E|[nick [u [c' [Hc' _]]]]]; [exact E|].
  exfalso. destruct (step_frame cfg verify w i e w' o cl I H) as [_ [_ [_ [_ [Hgone _]]]]].
  assert (i ∈ cl) as Hi.
  { unfold step in H. destruct He as [-> | [-> | [-> | ->]]]; cbn [step_raw] in H; rewrite Hc in H;
      (destruct (teardown i w) as [w1|]; [|discriminate]); cbn [rbind] in H;
      (destruct (deliver_kills cfg w1) as [[[w2 o2] c2]|]; [|discriminate]); cbn [rbind] in H; injection H as _ _ <-;
      cbn [app]; apply elem_of_list_here. }
  rewrite (Hgone i Hi) in Hc'. discriminate.
Qed.

(* in every reachable world all of the above preconditions hold *)
Theorem C06_reachable : forall w, reachable cfg verify w -> InvK w.
Proof. intros w R. apply InvK_of_Inv. exact (proj1 (reachable_inv cfg verify w R)). Qed.

(* whole steps.  A closing event of a registered connection - EOF / reset at any moment, invalid
   text, an over-long line, the pong timeout - IS the teardown of that connection and nothing else:
   exactly its own connection is closed, no pending KILL is involved, and the new world is the
   teardown result with all the clauses of C06_teardown *)
Theorem C06_closing_event : forall w i e c n w' o cl,
  Inv w -> conns w !! i = Some c -> c_auth c = true -> c_nick c = Some n -> closing_event e = true ->
  step cfg verify w i e = Ok (w', o, cl) ->
  exists u, users (sh w) !! n = Some u /\ u_conn u = i /\ cl = [i] /\
    teardown i w = Ok w' /\
    conns w' = delete i (conns w) /\ (nconns w' + 1 = nconns w)%N /\
    users (sh w') = delete n (users (sh w)) /\
    wallops (sh w') = wallops (sh w) ∖ {[n]} /\
    histories (sh w') = <[n := default [] (histories (sh w) !! n) ++ [u_hist u]]> (histories (sh w)) /\
    (forall ch, ch ∉ u_chans u -> chans (sh w') !! ch = chans (sh w) !! ch) /\
    (forall ch co, ch ∈ u_chans u -> chans (sh w) !! ch = Some co ->
       exists co', chan_remove_user n co = Ok co' /\ chans (sh w') !! ch = chan_after_leave co').
Proof. exact (closing_event_effect cfg verify). Qed.

(* QUIT: the ERROR line, exactly the own connection closed, exactly the own user removed *)
Theorem C06_quit : forall w i c n l msg w' o cl,
  Inv w -> conns w !! i = Some c -> c_auth c = true -> c_nick c = Some n ->
  tokenize l = inl msg -> command_of_message msg = inl QUIT ->
  step cfg verify w i (EvLine l) = Ok (w', o, cl) ->
  cl = [i] /\ o = [(i, srv cfg (lit "ERROR: Closing connection"))] /\
  users (sh w') = delete n (users (sh w)) /\ conns w' = delete i (conns w).
Proof. exact (quit_effect cfg verify). Qed.

(* EVERY WAY, one statement over every event after any history: whichever connection a step closes - the sender of QUIT, of an
   over-long or ill-encoded line, a peer that closed, reset or timed out, a connection refused at the limit or after DIE, the
   victim of an operator's KILL, everybody at DIE - has no connection record afterwards, owns no user, and every name on every
   channel's roster (hence on every rank list: C04) belongs to a live user owned by somebody else *)
Theorem C06_closed_leaves_nothing : forall w i e w' o cl j, Inv w -> step cfg verify w i e = Ok (w', o, cl) -> j ∈ cl ->
  conns w' !! j = None /\
  (forall n u, users (sh w') !! n = Some u -> u_conn u <> j) /\
  (forall ch co n, chans (sh w') !! ch = Some co -> n ∈ dom (ch_users co) ->
     exists u, users (sh w') !! n = Some u /\ u_conn u <> j).
Proof. exact (closed_leaves_nothing cfg verify). Qed.

End C06.

Print Assumptions C06_teardown.
Print Assumptions C06_closed_leaves_nothing.
Print Assumptions C06_channel_after.
Print Assumptions C06_no_trace.
Print Assumptions C06_unregistered_end.
Print Assumptions C06_reachable.
Print Assumptions C06_closing_event.
Print Assumptions C06_quit.
