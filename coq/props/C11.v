(* C11 - operator status comes only from OPER and operator commands require it.  Statements
   only; proofs in IRCP.OperP, IRCP.ModesFrame, IRCP.OperGlobal and IRCP.InvStep (delivery of
   pending KILLs). *)
From IRC Require Import Str Wild Glob Parse Reply State Handlers Step.
From IRCP Require Import MsgP InvDefs InvStep OperP ModesFrame OperGlobal ModesGlobal KillP DieP MsgGlobal.
From stdpp Require Import gmap.

(* THE global statement.  For every step of every connection i from a world satisfying the
   invariant - any line, any event, registered or not -: a user who is an operator afterwards
   either was one before (on the same connection, possibly under another nick), or belongs to
   the acting connection itself and the line was an OPER that names a configured operator, with
   the verifying password, from a matching source - or the connection has just registered and the
   configured default user modes contain +o.  No other command sequence confers it. *)
Theorem C11_operator_only_from_oper : forall cfg verify w i e w' o cl,
  Inv w -> step cfg verify w i e = Ok (w', o, cl) ->
  forall n u', users (sh w') !! n = Some u' -> um_oper (u_modes u') = true ->
  (exists n0 u, users (sh w) !! n0 = Some u /\ u_conn u = u_conn u' /\ um_oper (u_modes u) = true) \/
  (u_conn u' = i /\ exists c l, conns w !! i = Some c /\ e = EvLine l /\
     ((c_auth c = true /\ exists msg name pw, tokenize l = inl msg /\ command_of_message msg = inl (OPER name pw) /\
                                               oper_accepted cfg verify c name pw = true) \/
      (c_auth c = false /\ um_oper (cfg_default_umodes cfg) = true))).
Proof. exact oper_only_from_oper. Qed.

(* every command of a registered connection other than OPER creates neither an operator nor a
   local operator (all 40 other commands, by case analysis) *)
Theorem C11_no_other_command_confers : forall cfg verify i s c cmd msg r,
  InvS s -> conn_ok i s c -> c_auth c = true ->
  dispatch cfg verify i s c cmd msg = Ok r -> (forall name pw, cmd <> OPER name pw) ->
  no_new_oper s (h_sh r) /\ no_new_local_oper s (h_sh r).
Proof. exact dispatch_no_new_oper. Qed.

(* NO USER CAN CHANGE ANOTHER USER'S MODES, over every event of every connection: a user record found after a
   step carries the user modes of a record of the same connection before it (under the same nick or - NICK - the old
   one), unless the event is a line of a registered connection whose command is MODE (then only the sender's own
   record may differ) or OPER (only the sender's own record, the operator flag is not cleared and the local-operator
   flag not touched), or the record was just created by a completed registration with the configured defaults *)
Theorem C11_modes_follow_commands : forall cfg verify w i e w' o cl, Inv w -> step cfg verify w i e = Ok (w', o, cl) ->
  forall n u', users (sh w') !! n = Some u' -> step_modes_source cfg w i e n u'.
Proof. exact modes_follow_commands. Qed.

(* LOSES IT BY REMOVING THE MODE OR DISCONNECTING: a user who stays connected and is no longer an operator after a
   step has sent a MODE command itself in that step - nobody else's command, and no other command of its own
   (NICK, OPER with a wrong password, AWAY, ...) takes operator status away *)
Theorem C11_oper_lost_only_by_own_mode : forall cfg verify w i e w' o cl n u' n0 u, Inv w -> step cfg verify w i e = Ok (w', o, cl) ->
  users (sh w') !! n = Some u' -> users (sh w) !! n0 = Some u -> u_conn u = u_conn u' ->
  um_oper (u_modes u) = true -> um_oper (u_modes u') = false ->
  u_conn u' = i /\ exists c l msg target modes, conns w !! i = Some c /\ c_auth c = true /\ e = EvLine l /\ tokenize l = inl msg /\
                                                 command_of_message msg = inl (MODE target modes).
Proof. exact oper_lost_only_by_own_mode. Qed.

(* JOIN, PART, KICK, TOPIC, INVITE, channel MODE, KILL, DIE, AWAY leave every user's owner and
   user modes as they were (records may lose memberships / gain marks, never modes) *)
Theorem C11_modes_untouched_by_channel_commands : forall cfg i s c chs keys r,
  process_join cfg i s c chs keys = Ok r -> keeps s (h_sh r).
Proof. exact join_keeps. Qed.

(* a whole step: KILL by an operator closes exactly the named user's connection, sends it the
   ERROR line naming the killer and the comment, removes exactly that user record (every other
   record is untouched), and leaves every channel the victim was not on as it was *)
Theorem C11_kill_effect : forall cfg verify w i c l msg target comment nick u v w' o cl,
  Inv w -> conns w !! i = Some c -> c_auth c = true -> c_nick c = Some nick ->
  users (sh w) !! nick = Some u -> um_oper (u_modes u) = true ->
  users (sh w) !! target = Some v ->
  tokenize l = inl msg -> command_of_message msg = inl (KILL target comment) ->
  step cfg verify w i (EvLine l) = Ok (w', o, cl) ->
  cl = [u_conn v] /\
  o = [(u_conn v, srv cfg (lit "ERROR :User killed by " ++ nick ++ lit ": " ++ comment))] /\
  users (sh w') = delete target (users (sh w)) /\
  conns w' = delete (u_conn v) (<[i := c]> (conns w)) /\
  (forall ch, ch ∉ u_chans v -> chans (sh w') !! ch = chans (sh w) !! ch).
Proof. exact kill_effect. Qed.

(* a whole step: DIE by an operator ends all sessions - no user and no registered connection is left *)
Theorem C11_die_ends_all : forall cfg verify w i c l msg m nick u w' o cl,
  Inv w -> conns w !! i = Some c -> c_auth c = true -> c_nick c = Some nick ->
  users (sh w) !! nick = Some u -> um_oper (u_modes u) = true ->
  tokenize l = inl msg -> command_of_message msg = inl (DIE m) ->
  step cfg verify w i (EvLine l) = Ok (w', o, cl) ->
  users (sh w') = ∅ /\ (forall j c', conns w' !! j = Some c' -> c_auth c' = false).
Proof. exact die_ends_all. Qed.

Section C11.
Context (cfg : config) (verify : str -> str -> bool) (i : nat).

(* OPER: operator status is conferred iff the name is configured, the password verifies against
   that operator's hash and its mask (if any) matches the source; then only the own record's
   operator flag is set; otherwise 464 / 491 and the state is identical *)
Theorem C11_oper : forall s c name password nick u,
  c_nick c = Some nick -> users s !! nick = Some u ->
  exists r, process_oper cfg verify i s c name password = Ok r /\ h_conn r = c /\ h_quit r = false /\
    if oper_accepted cfg verify c name password
    then users (h_sh r) = <[nick := u_set_modes {| um_invisible := um_invisible (u_modes u); um_oper := true;
                                                    um_local_oper := um_local_oper (u_modes u);
                                                    um_registered := um_registered (u_modes u);
                                                    um_wallops := um_wallops (u_modes u) |} u]> (users s)
         /\ chans (h_sh r) = chans s /\ h_out r = [(i, srv cfg (rpl_youreoper (client_name c)))]
    else h_sh r = s /\ exists e, h_out r = [(i, srv cfg e)] /\
           (e = err_passwdmismatch (client_name c) \/ e = err_nooperhost (client_name c)).
Proof. exact (oper_spec cfg verify i). Qed.

(* MODE on the own nick, any letters and signs, any number of groups: only the own record's mode
   field changes and neither operator flag is ever turned on *)
Theorem C11_mode_never_grants : forall s c nick modes r u,
  users s !! nick = Some u -> process_mode_user cfg i s c nick modes = Ok r ->
  exists m', users (h_sh r) = <[nick := u_set_modes m' u]> (users s) /\ chans (h_sh r) = chans s /\
             no_grant (u_modes u) m' /\ h_conn r = c /\ h_quit r = false.
Proof. exact (mode_user_no_grant cfg i). Qed.

(* MODE naming another user's nick: 502 (or 401), nothing changes *)
Theorem C11_foreign_modes_untouchable : forall s c nick target modes,
  c_nick c = Some nick -> validate_channel target = false -> nick <> target ->
  process_mode cfg i s c target modes =
  hr s c [(i, srv cfg (match users s !! target with
                       | Some _ => err_usersdontmatch (client_name c)
                       | None => err_nosuchnick (client_name c) target end))].
Proof. exact (mode_foreign_inert cfg i). Qed.

(* KILL: from a non-operator 481 and nothing happens; from an operator exactly the named user is
   marked (with the killer's nick and the comment, which C11_kill_delivery turns into its ERROR
   line and disconnection); an unknown nick gives 401 *)
Theorem C11_kill : forall s c nick u target comment,
  c_nick c = Some nick -> users s !! nick = Some u ->
  process_kill cfg i s c target comment =
  if um_oper (u_modes u) then
    match users s !! target with
    | Some v => match u_kill v with
                | None => hr (set_users (fun us => <[target := u_set_kill (Some (nick, comment)) v]> us) s) c []
                | Some _ => hr s c []
                end
    | None => hr s c [(i, srv cfg (err_nosuchnick (client_name c) target))]
    end
  else hr s c [(i, srv cfg (err_noprivileges (client_name c)))].
Proof. exact (kill_spec cfg i). Qed.

(* the delivery: exactly the connections owning a marked user are closed, every unmarked user
   and every other connection survives unchanged *)
Theorem C11_kill_delivery : forall w, InvK w ->
  exists w' o cl, deliver_kills cfg w = Ok (w', o, cl) /\ Inv w' /\
    (forall n u, users (sh w') !! n = Some u -> users (sh w) !! n = Some u /\ u_kill u = None) /\
    (forall n u, users (sh w) !! n = Some u -> u_kill u = None -> users (sh w') !! n = Some u) /\
    (forall j, j ∈ cl <-> kill_pending (sh w) j) /\
    (forall j, j ∉ cl -> conns w' !! j = conns w !! j) /\
    (forall j, j ∈ cl -> conns w' !! j = None).
Proof. exact (deliver_kills_ok cfg). Qed.

(* DIE / SQUIT: from a non-operator 483 and nothing happens; from an operator every user is
   marked and the server stops accepting *)
Theorem C11_die : forall s c nick u message,
  c_nick c = Some nick -> users s !! nick = Some u ->
  process_die cfg i s c message =
  if um_oper (u_modes u) then
    hr (set_server_quit true
          (set_users (fmap (fun v => match u_kill v with
                                     | None => u_set_kill (Some (nick, default (lit "Quitting from DIE") message)) v
                                     | Some _ => v end)) s)) c []
  else hr s c [(i, srv cfg (err_cantkillserver (client_name c)))].
Proof. exact (die_spec cfg i). Qed.

Theorem C11_squit : forall s c server comment,
  process_squit cfg i s c server comment =
  if bool_decide (cfg_name cfg = server) then process_die cfg i s c (Some comment)
  else hr s c [(i, srv cfg (err_unknownerror (client_name c) "SQUIT"))].
Proof. exact (squit_spec cfg i). Qed.

(* WALLOPS: from a (local) operator one copy to exactly the users with +w (C19/C04 invariant:
   the audience set IS the set of +w users), otherwise 481; the state never changes *)
Theorem C11_wallops : forall s c nick u msg r,
  c_nick c = Some nick -> users s !! nick = Some u -> process_wallops cfg i s c msg = Ok r ->
  h_sh r = s /\ h_conn r = c /\ h_quit r = false /\
  if is_local_oper (u_modes u)
  then Forall2 (delivered s (to_string_with_source msg (c_source c))) (elements (wallops s)) (h_out r)
  else h_out r = [(i, srv cfg (err_noprivileges (client_name c)))].
Proof. exact (wallops_spec cfg i). Qed.

Theorem C11_wallops_audience : forall s n, InvS s ->
  (n ∈ wallops s <-> exists u, users s !! n = Some u /\ um_wallops (u_modes u) = true).
Proof. intros s n I. exact (is_wl s I n). Qed.

Theorem C11_stats : forall s c nick u q,
  c_nick c = Some nick -> users s !! nick = Some u -> is_local_oper (u_modes u) = false ->
  process_stats cfg i s c q None = hr s c [(i, srv cfg (err_noprivileges (client_name c)))].
Proof. exact (stats_unprivileged cfg i). Qed.

End C11.

(* WALLOPS REQUIRES OPERATOR STATUS, as a whole step of the server after any history: a registered connection's WALLOPS line leaves
   the state unchanged and closes nobody; from a (local) operator everything sent in the step is one copy to each user with +w;
   from anybody else it is the one ERR_NOPRIVILEGES to the sender - and nothing reaches anybody else *)
Theorem C11_wallops_step : forall cfg verify w i l msg text c w' o cl, Inv w -> step cfg verify w i (EvLine l) = Ok (w', o, cl) ->
  conns w !! i = Some c -> c_auth c = true -> tokenize l = inl msg -> command_of_message msg = inl (WALLOPS text) ->
  sh w' = sh w /\ cl = [] /\
  exists nick u, c_nick c = Some nick /\ users (sh w) !! nick = Some u /\
    if is_local_oper (u_modes u)
    then Forall2 (delivered (sh w) (to_string_with_source msg (c_source c))) (elements (wallops (sh w))) o
    else o = [(i, srv cfg (err_noprivileges (client_name c)))].
Proof. exact wallops_step. Qed.

(* KILL AND DIE REQUIRE OPERATOR STATUS, as whole steps after any history: from a registered connection whose user is not an
   operator the step sends the one privilege error to the sender and nothing to anybody else, closes nobody and leaves the
   state and every connection record as they are *)
Theorem C11_kill_refused_step : forall cfg verify w i l msg target comment c nick u w' o cl, Inv w ->
  step cfg verify w i (EvLine l) = Ok (w', o, cl) ->
  conns w !! i = Some c -> c_auth c = true -> c_nick c = Some nick -> users (sh w) !! nick = Some u -> um_oper (u_modes u) = false ->
  tokenize l = inl msg -> command_of_message msg = inl (KILL target comment) ->
  sh w' = sh w /\ conns w' = conns w /\ cl = [] /\ o = [(i, srv cfg (err_noprivileges (client_name c)))].
Proof. exact kill_refused_step. Qed.

Theorem C11_die_refused_step : forall cfg verify w i l msg message c nick u w' o cl, Inv w ->
  step cfg verify w i (EvLine l) = Ok (w', o, cl) ->
  conns w !! i = Some c -> c_auth c = true -> c_nick c = Some nick -> users (sh w) !! nick = Some u -> um_oper (u_modes u) = false ->
  tokenize l = inl msg -> command_of_message msg = inl (DIE message) ->
  sh w' = sh w /\ conns w' = conns w /\ cl = [] /\ o = [(i, srv cfg (err_cantkillserver (client_name c)))].
Proof. exact die_refused_step. Qed.

Print Assumptions C11_operator_only_from_oper.
Print Assumptions C11_no_other_command_confers.
Print Assumptions C11_modes_follow_commands.
Print Assumptions C11_oper_lost_only_by_own_mode.
Print Assumptions C11_modes_untouched_by_channel_commands.
Print Assumptions C11_kill_effect.
Print Assumptions C11_die_ends_all.
Print Assumptions C11_oper.
Print Assumptions C11_mode_never_grants.
Print Assumptions C11_foreign_modes_untouchable.
Print Assumptions C11_kill.
Print Assumptions C11_kill_delivery.
Print Assumptions C11_die.
Print Assumptions C11_squit.
Print Assumptions C11_wallops.
Print Assumptions C11_wallops_step.
Print Assumptions C11_kill_refused_step.
Print Assumptions C11_die_refused_step.
Print Assumptions C11_wallops_audience.
Print Assumptions C11_stats.
