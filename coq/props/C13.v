(* C13 - lines are parsed by the IRC grammar, and relays re-parse identically.  Statements only;
   proofs in IRCP.RoundP, IRCP.ParseP and IRCP.FrameP.  The framing model (Frame.v: split at LF,
   strip one CR, the 2000-byte limit) is the one the extracted program runs on every raw-byte
   trace against the real LinesCodec; the CRLF termination of emitted lines is decided per run
   by the CRLF oracle (L2). *)
From IRC Require Import Str Wild Glob Parse Reply State Handlers Step.
From IRC Require Import Frame.
From IRCP Require Import RoundP ParseP FrameP RelayP NoLfP.
From Coq Require Import List Arith Lia.
Import ListNotations.

(* every message that comes out of the tokenizer has a command and middle parameters that are
   non-empty, blank-free and do not start with ':' (only the last parameter is free text) *)
Theorem C13_tokens_wellformed : forall l m, tokenize l = inl m -> mid_ok (m_command m) /\ params_ok (m_params m).
Proof. exact tokenize_wellformed. Qed.

(* the grammar, generatively: ':'source SP command (SP middle)* [SP ':' trailing | SP last] is
   tokenised to exactly (source, command, parameters) - for EVERY trailing text (blanks, colons,
   empty, leading colon) *)
Theorem C13_serialise_parse : forall m src,
  nows src -> validate_source src = true -> mid_ok (m_command m) -> params_ok (m_params m) ->
  tokenize (to_string_with_source m src) =
  inl {| m_source := Some src; m_command := m_command m; m_params := m_params m |}.
Proof. exact roundtrip. Qed.

(* the grammar itself, with blanks of every kind: any leading (Unicode) blanks, optional ':'source
   and a blank run, the command, middle parameters each preceded by a run of ASCII blanks of any
   length, then either a blank run, ':' and ANY trailing text, or only trailing blanks - is
   tokenised to exactly (source, command, middles [++ trailing]) *)
Theorem C13_grammar_complete : forall lead (src : option (str * str)) cmd mids (trailing : option (str * str)) tailws,
  forallb is_unicode_ws lead = true ->
  match src with Some (sn, sep0) => nows sn /\ validate_source sn = true /\ ws_run sep0 | None => True end ->
  mid_ok cmd -> (src = None -> match cmd with c :: _ => is_unicode_ws c = false | [] => True end) ->
  Forall sep_tok_ok mids ->
  match trailing with Some (sep, _) => ws_run sep /\ tailws = [] | None => forallb is_ascii_ws tailws = true end ->
  tokenize (lead ++ match src with Some (sn, sep0) => (c_colon :: sn) ++ sep0 | None => [] end
                 ++ cmd ++ spw mids
                 ++ match trailing with Some (sep, tr) => sep ++ c_colon :: tr | None => tailws end)
  = inl {| m_source := option_map fst src; m_command := cmd;
           m_params := map snd mids ++ match trailing with Some (_, tr) => [tr] | None => [] end |}.
Proof. exact grammar_complete. Qed.

(* hence a relayed command (PRIVMSG, NOTICE, TOPIC, NICK, INVITE, WALLOPS are relayed through
   to_string_with_source), re-parsed by its receiver, has the command and parameters the
   originator's line was parsed to *)
Theorem C13_relay_reparses : forall l m src, tokenize l = inl m -> nows src -> validate_source src = true ->
  tokenize (to_string_with_source m src) =
  inl {| m_source := Some src; m_command := m_command m; m_params := m_params m |}.
Proof. exact relay_reparses. Qed.

(* the relays that are built by formatting (PART, KICK, PRIVMSG / NOTICE; `from_` is the
   ':'source SP body` of the handlers) re-parse on the receiver's side to the verb, target(s) and
   text they were built from - for EVERY text: blanks, colons, empty, leading colon *)
Theorem C13_relay_part : forall src ch reason, nows src -> validate_source src = true -> mid_ok ch ->
  tokenize (from_ src (lit "PART " ++ ch ++ lit " :" ++ reason))
  = inl {| m_source := Some src; m_command := lit "PART"; m_params := [ch; reason] |}.
Proof. exact relay_part. Qed.

Theorem C13_relay_kick : forall src ch victim comment, nows src -> validate_source src = true -> mid_ok ch -> mid_ok victim ->
  tokenize (from_ src (lit "KICK " ++ ch ++ [c_space] ++ victim ++ lit " :" ++ comment))
  = inl {| m_source := Some src; m_command := lit "KICK"; m_params := [ch; victim; comment] |}.
Proof. exact relay_kick. Qed.

Theorem C13_relay_msg : forall src verb target text, nows src -> validate_source src = true -> mid_ok verb -> mid_ok target ->
  tokenize (from_ src (verb ++ [c_space] ++ target ++ lit " :" ++ text))
  = inl {| m_source := Some src; m_command := verb; m_params := [target; text] |}.
Proof. exact relay_msg. Qed.

(* classification: a verb outside the table is answered 421 with the upper-cased name ... *)
Theorem C13_unknown_is_421 : forall m,
  verb_of_name (to_ascii_upper (m_command m)) = None ->
  command_of_message m = inr (UnknownCommand (to_ascii_upper (m_command m))).
Proof. exact unknown_verb. Qed.

(* ... a known verb (compared case-insensitively) with fewer parameters than its arity is answered 461 ... *)
Theorem C13_too_few_is_461 : forall m v,
  verb_of_name (to_ascii_upper (m_command m)) = Some v -> (length (m_params m) < min_params v)%nat ->
  command_of_message m = inr (NeedMoreParams v).
Proof. exact too_few_params. Qed.

(* ... and with enough parameters it is either executed as exactly that verb or answered with a
   parameter-specific error (wrong parameter k, unknown subcommand, 472, 501, 696), never 421/461 *)
Theorem C13_executed_as_named : forall m v c,
  verb_of_name (to_ascii_upper (m_command m)) = Some v -> command_of_message m = inl c -> verb_of_command c = v.
Proof. exact executed_as_named. Qed.

Theorem C13_specific_error : forall m v e,
  verb_of_name (to_ascii_upper (m_command m)) = Some v -> (min_params v <= length (m_params m))%nat ->
  command_of_message m = inr e -> specific e.
Proof. exact enough_params_specific. Qed.

(* framing does not depend on how the byte stream is cut into TCP segments: feeding a then b (the
   pending bytes carried over) frames exactly what feeding a ++ b frames - several lines per
   segment, lines split across segments, any cut; once a line exceeds the limit the connection is
   closed and nothing after it is framed, however the bytes arrived *)
Theorem C13_segmentation_invariant : forall pending a b,
  let '(f1, r1) := feed pending a in
  let '(f2, r2) := feed r1 b in
  let '(f, r) := feed pending (a ++ b) in
  if closed f1 then f = f1 else (f = f1 ++ f2 /\ r = r2).
Proof. exact feed_split. Qed.

(* a received line is ONE line: no framed line contains LF (and one trailing CR is stripped) *)
Theorem C13_received_lines_have_no_lf : forall pending seg l, In (FLine l) (fst (feed pending seg)) -> nolf l.
Proof. exact framed_lines_nolf. Qed.

(* an over-long line is reported as such and never as a line: no part of it is executed *)
Theorem C13_overlong_not_executed : forall ls l rest,
  (length l > max_len)%nat -> Forall (fun x => (length x <= max_len)%nat) ls ->
  frames_of (ls ++ l :: rest) [] = List.map (fun x => FLine (strip_cr x)) ls ++ [FTooLong].
Proof.
  intros ls l rest Hl Hs. induction ls as [|x ls IH]; cbn [app frames_of List.map].
  - destruct (Nat.leb_spec (length l) max_len); [lia|reflexivity].
  - inversion Hs; subst. destruct (Nat.leb_spec (length x) max_len); [|lia]. now rewrite IH.
Qed.

Section C13.
Context (cfg : config) (verify : str -> str -> bool) (i : nat).

(* a line that does not parse is answered and changes nothing; an empty line is ignored *)
Theorem C13_error_is_inert : forall s c l msg e, tokenize l = inl msg -> command_of_message msg = inr e ->
  process_line cfg verify i s c l = hr s c [(i, srv cfg (cmd_error_reply (client_name c) e))].
Proof. intros s c l msg e Ht He. unfold process_line. now rewrite Ht, He. Qed.

Theorem C13_empty_ignored : forall s c l, tokenize l = inr MEmpty -> process_line cfg verify i s c l = hr s c [].
Proof. intros s c l Ht. unfold process_line. now rewrite Ht. Qed.

(* the numeric of each error class *)
Theorem C13_error_numerics : forall client name v ix ch chn t p d,
  cmd_error_reply client (UnknownCommand name) = err_unknowncommand client name /\
  cmd_error_reply client (NeedMoreParams v) = err_needmoreparams client (verb_name v) /\
  cmd_error_reply client (UnknownMode ix ch chn) = err_unknownmode client ch chn /\
  cmd_error_reply client (UnknownUModeFlag ix) = err_umodeunknownflag client /\
  cmd_error_reply client (InvalidModeParam t ch p d) = err_invalidmodeparam client t ch p d.
Proof. intros. repeat split. Qed.

(* EVERY LINE THE SERVER EMITS IS ONE CRLF-TERMINATED MESSAGE: what the encoder writes for any list of LF-free lines
   (each shorter than the receiving codec's limit) - line, CR, LF - is framed by the same codec into exactly those
   lines, in order, nothing left over; also for lines that contain or end in CR *)
Theorem C13_encode_decode : forall ls, Forall (fun l => nolf l /\ (length l < max_len)%nat) ls ->
  feed [] (concat (List.map encode ls)) = (List.map FLine ls, []).
Proof. exact decode_encode. Qed.

(* bytes not terminated by LF are never executed: a read that leaves the buffer without LF hands no line to the command
   layer - whatever the bytes say; they stay pending and go away with the connection (C06: close in mid-line) *)
Theorem C13_unterminated_not_executed : forall pending seg l, nolf (pending ++ seg) -> ~ In (FLine l) (fst (feed pending seg)).
Proof. exact unterminated_yields_no_line. Qed.

(* ... and it IS one line: every character of every part of a tokenised message is a character of the received line, the
   codec hands over lines without LF, so what the relay serialiser writes for it - with the LF-free source of a registered
   user - contains no LF; by C13_encode_decode the receiver's codec frames it as exactly one message *)
Theorem C13_relayed_line_has_no_lf : forall pending seg l m src,
  In (FLine l) (fst (feed pending seg)) -> tokenize l = inl m -> nolf src -> nolf (to_string_with_source m src).
Proof. exact relayed_line_nolf. Qed.

End C13.

Print Assumptions C13_tokens_wellformed.
Print Assumptions C13_serialise_parse.
Print Assumptions C13_grammar_complete.
Print Assumptions C13_relay_reparses.
Print Assumptions C13_relay_part.
Print Assumptions C13_relay_kick.
Print Assumptions C13_relay_msg.
Print Assumptions C13_unknown_is_421.
Print Assumptions C13_too_few_is_461.
Print Assumptions C13_executed_as_named.
Print Assumptions C13_specific_error.
Print Assumptions C13_error_is_inert.
Print Assumptions C13_empty_ignored.
Print Assumptions C13_error_numerics.
Print Assumptions C13_segmentation_invariant.
Print Assumptions C13_overlong_not_executed.
Print Assumptions C13_received_lines_have_no_lf.
Print Assumptions C13_encode_decode.
Print Assumptions C13_unterminated_not_executed.
Print Assumptions C13_relayed_line_has_no_lf.
