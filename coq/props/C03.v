(* C03 - nothing works before registration; registration needs the right password.
   Statements only; proofs in IRCP.RegP. *)
From stdpp Require Import gmap.
From IRC Require Import Str Wild Parse Reply State Handlers Step.
From IRCP Require Import RegP InvDefs Reach AuthGlobal.

Section C03.
Context (cfg : config) (verify : str -> str -> bool) (i : nat).

(* every command other than CAP, AUTHENTICATE, PASS, NICK, USER, QUIT from an unregistered
   connection: exactly ERR_NOTREGISTERED, nothing changes, nobody else hears anything *)
Theorem C03_gate : forall s c l msg cmd,
  c_auth c = false -> tokenize l = inl msg -> command_of_message msg = inl cmd ->
  needs_registration cmd = true ->
  process_line cfg verify i s c l =
  Ok {| h_sh := s; h_conn := c; h_out := [(i, srv cfg (err_notregistered (client_name c)))];
        h_quit := false |}.
Proof. exact (gate_451 cfg verify i). Qed.

(* "neither changes nor reveals": for every line outside the six verbs (parsing or not) the
   answer is a function of the connection alone - the same in any two worlds *)
Theorem C03_no_reveal : forall s1 s2 c l,
  c_auth c = false -> gated l = true ->
  exists o, process_line cfg verify i s1 c l = Ok {| h_sh := s1; h_conn := c; h_out := o; h_quit := false |}
         /\ process_line cfg verify i s2 c l = Ok {| h_sh := s2; h_conn := c; h_out := o; h_quit := false |}.
Proof.
  intros s1 s2 c l Ha Hg. exists (gated_reply cfg i c l).
  split; apply gated_no_reveal; assumption.
Qed.

(* registration completes only when capability negotiation is closed, NICK and USER are known,
   the mask of a configured user matches, the applicable password verifies and the nick is free;
   the new user is keyed by that nick and owned by this connection *)
Theorem C03_registration_only_if : forall s c l r,
  c_auth c = false -> process_line cfg verify i s c l = Ok r -> c_auth (h_conn r) = true ->
  exists c' nick name u,
    c_host c' = c_host c /\ c_capneg c' = false /\ c_nick c' = Some nick /\ c_name c' = Some name /\
    mask_ok cfg c' name = true /\ password_ok cfg verify c' name = true /\
    users s !! nick = None /\ users (h_sh r) = <[nick := u]> (users s) /\ u_conn u = i /\
    chans (h_sh r) = chans s.
Proof.
  intros s c l r Ha H Ht.
  destruct (process_line_registers cfg verify i s c l r Ha H Ht) as [c' [Hau [Ha' Hh]]].
  pose proof (authenticate_spec cfg verify i s c' r Ha' Hau) as Sp.
  destruct (c_nick c') as [nick|] eqn:Hn; [|destruct Sp as [_ [F _]]; congruence].
  destruct (c_name c') as [name|] eqn:Hm; [|destruct Sp as [_ [F _]]; congruence].
  destruct (c_capneg c') eqn:Hc; [destruct Sp as [_ [F _]]; congruence|].
  destruct (mask_ok cfg c' name) eqn:Hmo; cbn [negb] in Sp.
  2: { destruct Sp as [_ [E _]]. rewrite E in Ht. congruence. }
  destruct (password_ok cfg verify c' name) eqn:Hp; cbn [negb] in Sp;
    [|destruct Sp as [_ [F _]]; congruence].
  destruct (users s !! nick) eqn:Hu; [destruct Sp as [_ [F _]]; congruence|].
  destruct Sp as [_ [_ [u [Hus [Hc' [_ [_ Hch]]]]]]].
  exists c', nick, name, u. repeat split; assumption.
Qed.

(* ... and when they do hold, registration does complete *)
Theorem C03_registration_if : forall s c r nick name,
  c_auth c = false -> c_capneg c = false -> c_nick c = Some nick -> c_name c = Some name ->
  mask_ok cfg c name = true -> password_ok cfg verify c name = true -> users s !! nick = None ->
  authenticate cfg verify i s c = Ok r ->
  c_auth (h_conn r) = true /\ h_quit r = false /\ exists u, users (h_sh r) = <[nick := u]> (users s).
Proof.
  intros s c r nick name Ha Hc Hn Hm Hmo Hp Hu H.
  pose proof (authenticate_spec cfg verify i s c r Ha H) as Sp.
  rewrite Hn, Hm, Hc, Hmo, Hp, Hu in Sp. cbn in Sp.
  destruct Sp as [A [Q [u [Hus _]]]]. repeat split; try assumption. exists u. exact Hus.
Qed.

(* a wrong or missing password at the moment everything else is in place: 464, the connection
   is closed, no user is created, nothing changes *)
Theorem C03_bad_password_closes : forall s c r nick name,
  c_auth c = false -> c_capneg c = false -> c_nick c = Some nick -> c_name c = Some name ->
  mask_ok cfg c name = true -> password_ok cfg verify c name = false ->
  authenticate cfg verify i s c = Ok r ->
  h_sh r = s /\ c_auth (h_conn r) = false /\ h_quit r = true /\
  h_out r = [(i, srv cfg (err_passwdmismatch (client_name c)))].
Proof.
  intros s c r nick name Ha Hc Hn Hm Hmo Hp H.
  pose proof (authenticate_spec cfg verify i s c r Ha H) as Sp.
  rewrite Hn, Hm, Hc, Hmo, Hp in Sp. exact Sp.
Qed.

(* whatever an unregistered connection sends: unless that very line completes its own
   registration, the shared state is untouched and only the sender is answered *)
Theorem C03_refused_is_inert : forall s c l r,
  c_auth c = false -> process_line cfg verify i s c l = Ok r -> c_auth (h_conn r) = false ->
  h_sh r = s /\ Forall (fun x => x.1 = i) (h_out r).
Proof. exact (process_line_unauth_inert cfg verify i). Qed.

(* for every history: in every reachable world whoever is in the user table - whatever the order of PASS / NICK / USER /
   CAP, however many refused attempts, nick changes and other people's commands came before - is owned by a connection that
   is marked registered, carries that nick and the user name it registered under, and holds a password that verifies against
   the hash applying to that name (the configured user's, else the server's); with no hash configured there is nothing to
   verify *)
Theorem C03_registered_only_with_password : forall w n u, reachable cfg verify w -> users (sh w) !! n = Some u ->
  exists c, conns w !! u_conn u = Some c /\ c_auth c = true /\ c_nick c = Some n /\ c_name c = Some (u_name u) /\
    match applicable_password cfg (u_name u) with
    | Some hash => exists p, c_pass c = Some p /\ verify p hash = true
    | None => True
    end.
Proof. exact (registered_users_passed cfg verify). Qed.

(* ... because the mark "registered" implies "password verified" before and after every event of every connection *)
Theorem C03_password_mark_kept_by_every_step : forall w j e w' o cl, Inv w -> AuthW cfg verify w ->
  step cfg verify w j e = Ok (w', o, cl) -> AuthW cfg verify w'.
Proof. exact (step_auth cfg verify). Qed.

End C03.

Print Assumptions C03_gate.
Print Assumptions C03_no_reveal.
Print Assumptions C03_registration_only_if.
Print Assumptions C03_registration_if.
Print Assumptions C03_bad_password_closes.
Print Assumptions C03_refused_is_inert.
Print Assumptions C03_registered_only_with_password.
Print Assumptions C03_password_mark_kept_by_every_step.
