(* C14 - mask matching is exact glob semantics and always terminates with an answer.
   Statements only; proofs are in IRCP.WildP and IRCP.MaskP. *)
From Coq Require Import List NArith.
From IRC Require Import Str Wild Glob Mask.
From IRCP Require Import WildP MaskP.
Import ListNotations.

(* whole-text match; '*' any possibly empty run; '?' exactly one character; all else itself *)
Theorem C14_glob : forall p t : str, wild_match p t = glob p t.
Proof. exact wild_match_glob. Qed.

Theorem C14_glob_relation : forall p t : str, wild_match p t = true <-> matches p t.
Proof. intros p t. rewrite wild_match_glob. apply glob_matches. Qed.

(* an answer for every mask and every text: wild_match is a total Gallina function (no fuel,
   no error value), so this is immediate - the content is that the kernel accepted the
   structural recursion of the model *)
Theorem C14_total : forall p t : str, wild_match p t = true \/ wild_match p t = false.
Proof. intros p t. destruct (wild_match p t); [left|right]; reflexivity. Qed.

(* list masks are completed: nick -> nick!*@*, nick@host -> nick!*@host, nick!user -> nick!user@*,
   complete masks are kept *)
Theorem C14_normalize_forms : forall m : str,
  (~ In c_excl m -> ~ In c_at m -> normalize_mask m = m ++ lit "!*@*") /\
  (forall n h, ~ In c_excl m -> m = n ++ c_at :: h -> ~ In c_at n ->
               normalize_mask m = n ++ lit "!*" ++ c_at :: h) /\
  (forall n u, m = n ++ c_excl :: u -> ~ In c_excl n -> ~ In c_at u ->
               normalize_mask m = m ++ lit "@*") /\
  (complete_mask m -> normalize_mask m = m).
Proof. exact normalize_forms. Qed.

Theorem C14_normalize_complete : forall m : str, complete_mask (normalize_mask m).
Proof. exact normalize_is_complete. Qed.

Theorem C14_normalize_idempotent : forall m : str,
  normalize_mask (normalize_mask m) = normalize_mask m.
Proof. exact normalize_idempotent. Qed.

(* non-vacuity: concrete instances, evaluated by the kernel *)
Example C14_ex1 : wild_match (lit "a*bcd") (lit "ab") = false /\
                  wild_match (lit "*aaaaaaaa") (lit "bob") = false /\
                  wild_match [c_qmark] [233 (* é *)]%N = true /\
                  wild_match (lit "*b*") [233; 98]%N = true /\
                  wild_match (lit "a?c") [97; 233; 99]%N = true /\
                  wild_match (lit "*!*@127.0.0.*") (lit "bob!~b@127.0.0.1") = true.
Proof. vm_compute. repeat split. Qed.
Example C14_ex2 : normalize_mask (lit "bob") = lit "bob!*@*" /\
                  normalize_mask (lit "bob@h") = lit "bob!*@h" /\
                  normalize_mask (lit "bob!u") = lit "bob!u@*".
Proof. vm_compute. repeat split. Qed.

Print Assumptions C14_glob.
Print Assumptions C14_glob_relation.
Print Assumptions C14_total.
Print Assumptions C14_normalize_forms.
Print Assumptions C14_normalize_complete.
Print Assumptions C14_normalize_idempotent.
