(* C02 - one owner per nickname; a connection only ever acts as itself.  Statements only;
   proofs in IRCP.InvStep / IRCP.Reach. *)
From IRC Require Import Str Wild Glob Parse Reply State Handlers Step.
From IRCP Require Import InvDefs InvStep Reach ConcP OthersFrame OthersGlobal.
From stdpp Require Import gmap.

Section C02.
Context (cfg : config) (verify : str -> str -> bool).

(* in every reachable world a registered nick is owned by exactly one live connection: the user
   record names it, that connection is registered under exactly this nick, and no other
   registered connection carries the nick *)
Theorem C02_one_owner : forall w n u, reachable cfg verify w -> users (sh w) !! n = Some u ->
  (exists c, conns w !! u_conn u = Some c /\ c_auth c = true /\ c_nick c = Some n) /\
  (forall j c', conns w !! j = Some c' -> c_auth c' = true -> c_nick c' = Some n -> j = u_conn u).
Proof.
  intros w n u R Hu. destruct (reachable_inv cfg verify w R) as [I _]. split; [exact (iw_uc w I n u Hu)|].
  intros j c' Hj A Hn. destruct (iw_cu w I j c' Hj A) as [n' [u' [Hn' [Hu' Hc']]]]. congruence.
Qed.

(* ... and a registered connection owns the user under its own nick *)
Theorem C02_connection_owns : forall w i c, reachable cfg verify w -> conns w !! i = Some c -> c_auth c = true ->
  exists n u, c_nick c = Some n /\ users (sh w) !! n = Some u /\ u_conn u = i.
Proof. intros w i c R Hc A. destruct (reachable_inv cfg verify w R) as [I _]. exact (iw_cu w I i c Hc A). Qed.

(* whatever connection i sends and however it ends, the nick -> connection map of every OTHER
   connection j is unchanged: j is never given a nick, never loses or changes one - except that
   its user is removed when j itself is closed by this step (KILL / DIE) *)
Theorem C02_acts_only_as_itself : forall w i e w' o cl, Inv w -> step cfg verify w i e = Ok (w', o, cl) ->
  (forall n j, j <> i -> owner (sh w') n = Some j -> owner (sh w) n = Some j) /\
  (forall n j, j <> i -> owner (sh w) n = Some j -> owner (sh w') n = Some j \/ j ∈ cl).
Proof. intros w i e w' o cl I H. destruct (step_frame cfg verify w i e w' o cl I H) as [_ [A [B _]]]. auto. Qed.

(* a connection that is not registered - refused (433, 464, mask mismatch) or never completed -
   has no effect on the shared state at all, whatever it sends and however it ends; the only
   other outcome is its own accepted registration under a nick nobody owned *)
Theorem C02_unregistered_inert : forall w i c e w' o cl, Inv w -> conns w !! i = Some c -> c_auth c = false ->
  step cfg verify w i e = Ok (w', o, cl) ->
  sh w' = sh w \/
  exists nick u c', conns w' !! i = Some c' /\ c_auth c' = true /\ c_nick c' = Some nick /\
    users (sh w) !! nick = None /\ users (sh w') = <[nick := u]> (users (sh w)) /\ u_conn u = i.
Proof. exact (unregistered_inert cfg verify). Qed.

(* schedules and faults: a KILL only marks its victim; the victim's own task tears the session down when it
   gets to run - possibly much later (a task stuck writing to a client that does not read), possibly never.
   For EVERY sequence of events processed without delivering pending KILLs, interleaved with the moments
   [LDeliver j] at which connection j's task ends: no abort, every nick has exactly one owner - a live
   registered connection carrying that nick - and every registered connection owns the record under its nick
   (so a killed connection that has not yet noticed still holds its nick and a newcomer is refused) *)
Theorem C02_deferred_kill_ownership : forall xs,
  exists w, lazy_run cfg verify (world_init cfg) xs = Ok w /\
    (forall n u, users (sh w) !! n = Some u ->
       exists c, conns w !! u_conn u = Some c /\ c_auth c = true /\ c_nick c = Some n) /\
    (forall i c, conns w !! i = Some c -> c_auth c = true ->
       exists n u, c_nick c = Some n /\ users (sh w) !! n = Some u /\ u_conn u = i).
Proof. exact (deferred_kill_ownership cfg verify). Qed.

(* ... and the late end of a connection removes the record it owns and nobody else's *)
Theorem C02_late_teardown_own_only : forall w j c w', InvK w -> conns w !! j = Some c ->
  lazy_step cfg verify w (LDeliver j) = Ok w' ->
  (forall n u, users (sh w') !! n = Some u -> users (sh w) !! n = Some u /\ u_conn u <> j) /\
  (forall n u, users (sh w) !! n = Some u -> u_conn u <> j -> users (sh w') !! n = Some u).
Proof. exact (late_teardown_own_only cfg verify). Qed.

(* CAN MODIFY ONLY THE USER IT REGISTERED ITSELF, over every event of every connection i - any line, registered or
   not, and however the connection ends: every user record that does not belong to i and exists afterwards existed
   before under the same nick with the same owner, host, user name, real name, source prefix, user modes, away text
   and WHOWAS data.  (What a foreign command can reach in such a record is its membership set - KICK, C04 -, its
   pending invitations - INVITE, C09 - and the KILL mark of an operator's KILL / DIE - C11; the record disappears
   only with its own session - C05 / C06.) *)
Theorem C02_cannot_modify_others : forall w i e w' o cl, Inv w -> step cfg verify w i e = Ok (w', o, cl) ->
  forall n u', users (sh w') !! n = Some u' -> u_conn u' <> i ->
  exists u, users (sh w) !! n = Some u /\
    (u_conn u', u_host u', u_name u', u_real u', u_source u', u_modes u', u_away u', u_hist u') =
    (u_conn u, u_host u, u_name u, u_real u, u_source u, u_modes u, u_away u, u_hist u).
Proof. exact (others_untouched cfg verify). Qed.

End C02.

Print Assumptions C02_one_owner.
Print Assumptions C02_connection_owns.
Print Assumptions C02_acts_only_as_itself.
Print Assumptions C02_unregistered_inert.
Print Assumptions C02_deferred_kill_ownership.
Print Assumptions C02_late_teardown_own_only.
Print Assumptions C02_cannot_modify_others.
