(* C18 - per-connection order is kept and concurrent commands take effect atomically.
   Statements only; proofs in IRCP.ConcP, IRCP.InvStep, IRCP.Reach, IRCP.JoinP.
   What the theorems are about: the model executes whole commands one at a time, so a model
   history IS a serial order; the theorems hold for EVERY such history, i.e. for every interleaving
   of the connections' command sequences in which each command is one critical section.  That the
   implementation's handlers are one critical section each is read off the source
   (inventory/lock_shape.json, re-scanned on every run); the one handler with a separate
   check and update (unregistered NICK -> authenticate) is modelled in two phases and proved safe
   for every intermediate state.  Real schedules, tokio's RwLock fairness, the mpsc FIFO and the
   flush order of the connection loop are outside the model; they are exercised on every run by
   burst scenarios against the real multi-threaded binary (L2). *)
From IRC Require Import Str Wild Glob Parse Reply State Handlers Step.
From IRCP Require Import InvDefs InvHandlers InvStep Reach ConcP JoinP.
From stdpp Require Import gmap.
Open Scope N_scope.

Section C18.
Context (cfg : config) (verify : str -> str -> bool).

(* every interleaving of whole commands of any number of connections runs to the end and leaves
   a world that satisfies the invariant *)
Theorem C18_every_interleaving : forall evs,
  exists w outs, run cfg verify (world_init cfg) evs = Ok (w, outs) /\ Inv w.
Proof. intros evs. exact (run_ok cfg verify evs (world_init cfg) (Inv_init cfg)). Qed.

(* of any number of claims to one nickname, in any order, at most one is the owner afterwards *)
Theorem C18_one_claim_wins : forall w n u, reachable cfg verify w -> users (sh w) !! n = Some u ->
  forall j c', conns w !! j = Some c' -> c_auth c' = true -> c_nick c' = Some n -> j = u_conn u.
Proof.
  intros w n u R Hu j c' Hj A Hn. destruct (reachable_inv cfg verify w R) as [I _].
  destruct (iw_cu w I j c' Hj A) as [n' [u' [Hn' [Hu' Hc']]]]. congruence.
Qed.

(* the unlocked look-up of an unregistered NICK followed by the commit under the write lock:
   whatever state the other connections produced in between, the outcome is inert or the
   registration of a nick that is free at commit time (never a second owner) *)
Theorem C18_registration_window_safe : forall i s_check s_commit c nick,
  InvS s_commit -> c_auth c = false -> c_sender_taken c = false ->
  exists r, split_nick cfg verify i s_check s_commit c nick = Ok r /\ unauth_result i s_commit r.
Proof. exact (split_nick_safe cfg verify). Qed.

Theorem C18_registration_window_sequential : forall i s c nick msg,
  c_auth c = false -> split_nick cfg verify i s s c nick = process_nick cfg verify i s c nick msg.
Proof. exact (split_nick_sequential cfg verify). Qed.

(* linearisation points of that handler: free at look-up and still free at commit - the sequential
   handler executed at commit time; taken at look-up - the sequential handler executed at look-up time *)
Theorem C18_linearises_at_commit : forall i s_check s_commit c nick msg,
  c_auth c = false -> users s_check !! nick = None -> users s_commit !! nick = None ->
  split_nick cfg verify i s_check s_commit c nick = process_nick cfg verify i s_commit c nick msg.
Proof. exact (split_nick_linearises_at_commit cfg verify). Qed.

Theorem C18_linearises_at_check : forall i s_check s_commit c nick msg x,
  c_auth c = false -> users s_check !! nick = Some x ->
  (exists r, split_nick cfg verify i s_check s_commit c nick = Ok r /\ h_sh r = s_commit /\ h_conn r = c) /\
  (exists r, process_nick cfg verify i s_check c nick msg = Ok r /\ h_sh r = s_check /\ h_conn r = c).
Proof. exact (split_nick_linearises_at_check cfg verify). Qed.

(* first JOINs: whoever comes first in the serial order creates the channel and is its founder;
   for everybody after, the channel exists and the check phase never answers "create" *)
Theorem C18_one_founder : forall s c u nick client chname key,
  (chans s !! chname = None -> join_check s c u nick client chname key = ((true, true), [])) /\
  (forall co, chans s !! chname = Some co -> nick ∉ dom (ch_users co) ->
     (join_check s c u nick client chname key).1.2 = false).
Proof.
  intros s c u nick client chname key. split.
  - apply join_check_new.
  - intros co Hco Hn. exact (proj1 (join_check_spec s c u nick client chname key co Hco Hn)).
Qed.

(* a +l limit: a JOIN is accepted only while the member count is below the limit in force *)
Theorem C18_limit_never_exceeded : forall s c u nick client chname key co,
  chans s !! chname = Some co -> nick ∉ dom (ch_users co) ->
  (join_check s c u nick client chname key).1.1 = true -> below_limit co.
Proof.
  intros s c u nick client chname key co Hco Hn Hj.
  destruct (join_check_spec s c u nick client chname key co Hco Hn) as [_ [Hiff _]].
  apply Hiff in Hj. unfold join_allowed in Hj. tauto.
Qed.

(* order: what a connection receives during a history is what it receives during any prefix
   followed by what it receives during the rest - replies and relays are never reordered across
   the commands of the serial order *)
Theorem C18_order_kept : forall a b w w' outs j,
  run cfg verify w (a ++ b) = Ok (w', outs) ->
  exists w1 o1 o2, run cfg verify w a = Ok (w1, o1) /\ run cfg verify w1 b = Ok (w', o2) /\
    conn_view j outs = conn_view j o1 ++ conn_view j o2.
Proof. exact (view_in_command_order cfg verify). Qed.

End C18.

Print Assumptions C18_every_interleaving.
Print Assumptions C18_one_claim_wins.
Print Assumptions C18_registration_window_safe.
Print Assumptions C18_registration_window_sequential.
Print Assumptions C18_linearises_at_commit.
Print Assumptions C18_linearises_at_check.
Print Assumptions C18_one_founder.
Print Assumptions C18_limit_never_exceeded.
Print Assumptions C18_order_kept.
