(* C08 - channel modes change only by members of sufficient rank, exactly as announced.
   Statements only; proofs in IRCP.ModeP.  The "exactly as announced" half (replaying the
   announcement over the old channel record gives the new one) is checked on every run by the
   correspondence oracle, not proved here: see DESIGN.md section 5 (C08). *)
From IRC Require Import Str Wild Glob Mask Parse Reply State Handlers Step.
From IRCP Require Import InvDefs ModeP AnnounceP SettingsFrame SettingsGlobal RankFrame RankGlobal PrefixP ModeRankGlobal.
From stdpp Require Import gmap.

Section C08.
Context (cfg : config) (i : nat).

(* absent channel: 403; not a member: 442; in both cases nothing changes.  A member's command is
   processed with the rank it holds when the command arrives *)
Theorem C08_outsider : forall s c target modes r nick,
  c_nick c = Some nick -> validate_channel target = true ->
  process_mode cfg i s c target modes = Ok r ->
  match chans s !! target with
  | None => h_sh r = s /\ h_conn r = c /\ h_out r = [(i, srv cfg (err_nosuchchannel (client_name c) target))]
  | Some co =>
      match ch_users co !! nick with
      | None => h_sh r = s /\ h_conn r = c /\ h_out r = [(i, srv cfg (err_notonchannel (client_name c) target))]
      | Some rk => process_mode_channel cfg i s c target nick co rk modes = Ok r
      end
  end.
Proof. exact (process_mode_outsider cfg i). Qed.

(* q needs founder; a needs founder or protected; o and h need operator or above; every other
   letter (v b e I k l i m t n s) needs half-operator or above.  A letter whose requirement the
   actor does not meet changes neither the channel nor the announcement being assembled *)
Theorem C08_insufficient_rank_changes_nothing :
  forall c client target nick r ch mode_set args m m' ms' args',
  is_mode_letter ch = true -> rank_sufficient ch r = false ->
  mode_char c client target nick r ch mode_set args m = Ok (m', ms', args') ->
  ms_chan m' = ms_chan m /\ ms_set m' = ms_set m /\ ms_unset m' = ms_unset m /\
  ms_params m' = ms_params m /\ ms' = mode_set.
Proof. exact mode_char_refused. Qed.

(* accepted flag letters and rank letters are applied as written *)
Theorem C08_flag_applied : forall c client target nick r ch mode_set args m m' ms' args',
  in_chars ch "imtns" = true -> rk_is_half_operator r = true ->
  mode_char c client target nick r ch mode_set args m = Ok (m', ms', args') ->
  ms_chan m' = ch_set_modes (cm_set_flag ch mode_set (ch_modes (ms_chan m))) (ms_chan m) /\
  args' = args /\ ms' = mode_set.
Proof. exact mode_char_flag_accepted. Qed.

Theorem C08_rank_applied : forall c client target nick r ch rl mode_set arg args m m' ms' args',
  rankletter_of ch = Some rl -> rank_may rl r = true -> arg ∈ dom (ch_users (ms_chan m)) ->
  mode_char c client target nick r ch mode_set (arg :: args) m = Ok (m', ms', args') ->
  chan_set_rank rl mode_set arg (ms_chan m) = Ok (ms_chan m') /\ args' = args /\ ms' = mode_set.
Proof. exact mode_char_rank_accepted. Qed.

(* whatever the mode string: only the target channel's record is replaced; who is on the
   channel, its topic and its configured status are untouched; a query changes nothing *)
Theorem C08_scope : forall s c target nick co rk modes r,
  modes <> [] -> process_mode_channel cfg i s c target nick co rk modes = Ok r ->
  h_conn r = c /\ h_quit r = false /\
  exists co', h_sh r = set_chans (fun cs => <[target := co']> cs) s /\
    dom (ch_users co') = dom (ch_users co) /\ ch_topic co' = ch_topic co /\ ch_preconf co' = ch_preconf co.
Proof. exact (process_mode_channel_effect cfg i). Qed.

Theorem C08_query_inert : forall s c target nick co rk r,
  process_mode_channel cfg i s c target nick co rk [] = Ok r -> h_sh r = s /\ h_conn r = c.
Proof. exact (process_mode_channel_query cfg i). Qed.

(* "exactly as announced", the flag part: for a channel MODE with any number of groups, letters and
   sign switches, the '+' and '-' groups accumulated for the announcement satisfy - with respect to
   the channel the command started from - : a flag letter in the '+' group is set in the new channel,
   one in the '-' group is clear, (hence none is in both), and a flag that is not announced is as it
   was; the new channel is stored, and the announcement goes to every member of it *)
Theorem C08_flags_as_announced : forall s c target nick co rk modes r,
  is_empty modes = false -> process_mode_channel cfg i s c target nick co rk modes = Ok r ->
  exists m, h_sh r = set_chans (fun cs => <[target := ms_chan m]> cs) s /\ ann_inv co m /\
    match mode_announcement target m with
    | Some body => exists ann, send_all (h_sh r) (member_names (ms_chan m)) (from (c_source c) body) = Ok ann /\
                               h_out r = mine cfg i (ms_out m) ++ ann
    | None => h_out r = mine cfg i (ms_out m)
    end.
Proof. exact (mode_channel_announced cfg i). Qed.

Theorem C08_announcement_text : forall target m body, mode_announcement target m = Some body ->
  exists rest, body = lit "MODE " ++ target ++ [c_space] ++ rest /\
    (is_empty (ms_params m) = true ->
       rest = (if is_empty (ms_set m) then [] else c_plus :: ms_set m) ++ (if is_empty (ms_unset m) then [] else c_minus :: ms_unset m)).
Proof. exact announcement_text. Qed.

(* "exactly as announced", the parameter part, letter by letter: an accepted rank letter appends exactly
   " <sign><letter> <nick>" to the parameter part and touches neither flag group; one the actor may not use, or
   naming somebody who is not on the channel, announces nothing and changes nothing *)
Theorem C08_rank_announced : forall c client target nick r ch rl mode_set arg args m m' ms' args',
  rankletter_of ch = Some rl -> rank_may rl r = true -> arg ∈ dom (ch_users (ms_chan m)) ->
  mode_char c client target nick r ch mode_set (arg :: args) m = Ok (m', ms', args') ->
  ms_params m' = ms_params m ++ [c_space; (if mode_set then c_plus else c_minus); ch; c_space] ++ arg /\
  ms_set m' = ms_set m /\ ms_unset m' = ms_unset m /\ ms_out m' = ms_out m /\
  ms_limit_entry m' = ms_limit_entry m /\ ms_key_entry m' = ms_key_entry m.
Proof. exact mode_char_rank_announced. Qed.

Theorem C08_rank_silent : forall c client target nick r ch rl mode_set arg args m m' ms' args',
  rankletter_of ch = Some rl -> (rank_may rl r = false \/ arg ∉ dom (ch_users (ms_chan m))) ->
  mode_char c client target nick r ch mode_set (arg :: args) m = Ok (m', ms', args') ->
  ms_params m' = ms_params m /\ ms_set m' = ms_set m /\ ms_unset m' = ms_unset m /\ ms_chan m' = ms_chan m.
Proof. exact mode_char_rank_silent. Qed.

(* an accepted ban / exception / invite-exception edit changes exactly that list by exactly the normalised mask and
   appends exactly " <sign><letter> <normalised mask>"; a refused one (below half-operator) gives 482 to the sender,
   announces nothing and leaves the channel record as it is *)
Theorem C08_list_announced : forall c client target nick r ch ll mode_set mask args m m' ms' args',
  listletter_of ch = Some ll -> rk_is_half_operator r = true ->
  mode_char c client target nick r ch mode_set (mask :: args) m = Ok (m', ms', args') ->
  ms_params m' = ms_params m ++ [c_space; (if mode_set then c_plus else c_minus); ch; c_space] ++ Mask.normalize_mask mask /\
  ms_set m' = ms_set m /\ ms_unset m' = ms_unset m /\ ms_out m' = ms_out m /\
  cm_get_list ll (ch_modes (ms_chan m')) =
    (if mode_set then {[Mask.normalize_mask mask]} ∪ cm_get_list ll (ch_modes (ms_chan m))
     else cm_get_list ll (ch_modes (ms_chan m)) ∖ {[Mask.normalize_mask mask]}).
Proof. exact mode_char_list_announced. Qed.

Theorem C08_list_refused : forall c client target nick r ch ll mode_set mask args m m' ms' args',
  listletter_of ch = Some ll -> rk_is_half_operator r = false ->
  mode_char c client target nick r ch mode_set (mask :: args) m = Ok (m', ms', args') ->
  ms_params m' = ms_params m /\ ms_set m' = ms_set m /\ ms_unset m' = ms_unset m /\ ms_chan m' = ms_chan m /\
  ms_out m' = ms_out m ++ [err_chanoprivsneeded client target].
Proof. exact mode_char_list_refused. Qed.

(* key and limit: only the LAST applied state is announced - an earlier "+k x" / "+l n" entry of the same command is
   withdrawn from the parameter part and an earlier "-k" / "-l" from the '-' group, so the announcement never
   describes the opposite of the final state (the defect fixed in daaf145) *)
Theorem C08_key_announced : forall c client target nick r mode_set args m m' ms' args',
  rk_is_half_operator r = true ->
  mode_char c client target nick r 107 mode_set args m = Ok (m', ms', args') ->
  let params1 := match ms_key_entry m with Some e => remove_first_sub e (ms_params m) | None => ms_params m end in
  ms_set m' = ms_set m /\ ms_out m' = ms_out m /\ ms_limit_entry m' = ms_limit_entry m /\ ms' = mode_set /\
  if mode_set then
    exists arg, args = arg :: args' /\ cm_key (ch_modes (ms_chan m')) = Some arg /\
      ms_params m' = params1 ++ lit " +k " ++ arg /\ ms_key_entry m' = Some (lit " +k " ++ arg) /\
      ms_unset m' = remove_char 107 (ms_unset m)
  else
    args' = args /\ cm_key (ch_modes (ms_chan m')) = None /\ ms_params m' = params1 /\ ms_key_entry m' = None /\
    ms_unset m' = remove_char 107 (ms_unset m) ++ [107%N].
Proof. exact mode_char_key_announced. Qed.

Theorem C08_limit_announced : forall c client target nick r mode_set args m m' ms' args',
  rk_is_half_operator r = true ->
  mode_char c client target nick r 108 mode_set args m = Ok (m', ms', args') ->
  let params1 := match ms_limit_entry m with Some e => remove_first_sub e (ms_params m) | None => ms_params m end in
  ms_set m' = ms_set m /\ ms_out m' = ms_out m /\ ms_key_entry m' = ms_key_entry m /\ ms' = mode_set /\
  if mode_set then
    exists arg n, args = arg :: args' /\ parse_uint usize_max arg = inl n /\ cm_limit (ch_modes (ms_chan m')) = Some n /\
      ms_params m' = params1 ++ lit " +l " ++ arg /\ ms_limit_entry m' = Some (lit " +l " ++ arg) /\
      ms_unset m' = remove_char 108 (ms_unset m)
  else
    args' = args /\ cm_limit (ch_modes (ms_chan m')) = None /\ ms_params m' = params1 /\ ms_limit_entry m' = None /\
    ms_unset m' = remove_char 108 (ms_unset m) ++ [108%N].
Proof. exact mode_char_limit_announced. Qed.

End C08.

(* CHANGE ONLY THROUGH MODE, over every event of every connection (lines of any content, closes, timer events, KILL
   delivery): a channel that exists before and after a step has the same flags (i m s t n), key, limit, ban list,
   exception list and invite-exception list - unless the event is a line of a registered connection whose command is
   MODE naming that very channel (which then needs the rank of C08_insufficient_rank_changes_nothing).  JOIN, PART,
   KICK, NICK, TOPIC, INVITE and every way a session ends leave the settings of every surviving channel alone. *)
Theorem C08_settings_change_only_by_mode : forall cfg verify w i e w' o cl,
  Inv w -> step cfg verify w i e = Ok (w', o, cl) ->
  forall ch co co', chans (sh w) !! ch = Some co -> chans (sh w') !! ch = Some co' ->
  csettings (ch_modes co') = csettings (ch_modes co) \/
  exists c l, conns w !! i = Some c /\ e = EvLine l /\ c_auth c = true /\
              exists msg modes, tokenize l = inl msg /\ command_of_message msg = inl (MODE ch modes).
Proof. exact settings_change_only_by_mode. Qed.

(* the same per command: each of the 40 commands other than MODE keeps the settings of every channel it does not
   create or destroy *)
Theorem C08_other_commands_keep_settings : forall cfg verify i s c cmd msg r,
  InvS s -> conn_ok i s c -> c_auth c = true ->
  dispatch cfg verify i s c cmd msg = Ok r -> (forall target modes, cmd <> MODE target modes) ->
  forall ch co co', chans s !! ch = Some co -> chans (h_sh r) !! ch = Some co' -> csettings (ch_modes co') = csettings (ch_modes co).
Proof. exact dispatch_settings. Qed.

(* ... AND MEMBER RANKS: a user who is a member of a channel before and after a step - under the same nick - holds the same
   five rank flags unless the event is a registered connection's MODE line naming that channel.  Nobody's JOIN, PART, KICK,
   NICK, TOPIC, INVITE or session end changes the rank of a member who stays. *)
Theorem C08_ranks_change_only_by_mode : forall cfg verify w i e w' o cl,
  Inv w -> step cfg verify w i e = Ok (w', o, cl) ->
  forall ch co co' n r1 r2, chans (sh w) !! ch = Some co -> chans (sh w') !! ch = Some co' ->
  ch_users co !! n = Some r1 -> ch_users co' !! n = Some r2 ->
  r2 = r1 \/
  exists c l, conns w !! i = Some c /\ e = EvLine l /\ c_auth c = true /\
              exists msg modes, tokenize l = inl msg /\ command_of_message msg = inl (MODE ch modes).
Proof. exact ranks_change_only_by_mode. Qed.

(* SHOWN BY LATER NAMES / WHO QUERIES: the prefix a member is listed with is, for a client that negotiated multi-prefix, one
   character for EVERY rank it holds, in the order ~ & @ % + ; for any other client the first of these *)
Theorem C08_prefix_shows_every_rank : forall r,
  rank_prefix true r = all_prefixes r /\ rank_prefix false r = firstn 1 (all_prefixes r).
Proof. exact prefix_shows_every_rank. Qed.

(* ONLY BY MEMBERS OF SUFFICIENT RANK, for every history.  Over every event of every connection: a channel that exists before
   and after the step has the same flags, key, limit and mask lists, and every member who stays has the same rank flags, unless
   the event is a MODE line naming that channel sent by a registered connection that - in the state before the line - was a
   member of it holding half-operator rank or above (the least rank any letter accepts: rank_sufficient; which letters such a
   member may use beyond that is C08_insufficient_rank_changes_nothing).  A member below half-operator, an outsider, an IRC
   operator who is not a member: their MODE lines, whatever the mode string, leave the channel record as it is. *)
Theorem C08_settings_changed_only_by_ranked_mode : forall cfg verify w i e w' o cl ch co co', Inv w -> step cfg verify w i e = Ok (w', o, cl) ->
  chans (sh w) !! ch = Some co -> chans (sh w') !! ch = Some co' ->
  csettings (ch_modes co') = csettings (ch_modes co) \/
  exists c l nick rk, conns w !! i = Some c /\ e = EvLine l /\
    (c_auth c = true /\ exists msg modes, tokenize l = inl msg /\ command_of_message msg = inl (MODE ch modes)) /\
    c_nick c = Some nick /\ ch_users co !! nick = Some rk /\ rk_is_half_operator rk = true.
Proof. exact settings_changed_only_by_ranked_mode. Qed.

Theorem C08_ranks_changed_only_by_ranked_mode : forall cfg verify w i e w' o cl ch co co' n r1 r2, Inv w -> step cfg verify w i e = Ok (w', o, cl) ->
  chans (sh w) !! ch = Some co -> chans (sh w') !! ch = Some co' ->
  ch_users co !! n = Some r1 -> ch_users co' !! n = Some r2 ->
  r2 = r1 \/
  exists c l nick rk, conns w !! i = Some c /\ e = EvLine l /\
    (c_auth c = true /\ exists msg modes, tokenize l = inl msg /\ command_of_message msg = inl (MODE ch modes)) /\
    c_nick c = Some nick /\ ch_users co !! nick = Some rk /\ rk_is_half_operator rk = true.
Proof. exact ranks_changed_only_by_ranked_mode. Qed.

(* a member below half-operator: no letter of any class touches the channel record *)
Theorem C08_below_half_operator_changes_nothing : forall c client target nick r cs mode_set args m m',
  rk_is_half_operator r = false ->
  mode_chars c client target nick r cs mode_set args m = Ok m' -> ms_chan m' = ms_chan m.
Proof. exact mode_chars_below_half. Qed.

Print Assumptions C08_outsider.
Print Assumptions C08_settings_changed_only_by_ranked_mode.
Print Assumptions C08_ranks_changed_only_by_ranked_mode.
Print Assumptions C08_below_half_operator_changes_nothing.
Print Assumptions C08_flags_as_announced.
Print Assumptions C08_announcement_text.
Print Assumptions C08_insufficient_rank_changes_nothing.
Print Assumptions C08_flag_applied.
Print Assumptions C08_rank_applied.
Print Assumptions C08_scope.
Print Assumptions C08_query_inert.
Print Assumptions C08_rank_announced.
Print Assumptions C08_rank_silent.
Print Assumptions C08_list_announced.
Print Assumptions C08_list_refused.
Print Assumptions C08_key_announced.
Print Assumptions C08_limit_announced.
Print Assumptions C08_settings_change_only_by_mode.
Print Assumptions C08_other_commands_keep_settings.
Print Assumptions C08_ranks_change_only_by_mode.
Print Assumptions C08_prefix_shows_every_rank.
