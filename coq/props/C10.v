(* C10 - speaking restrictions (+n, +m, bans) hold and NOTICE is never answered.
   Statements only; proofs in IRCP.MsgP and IRCP.BanP. *)
From IRC Require Import Str Wild Glob Parse Reply State Handlers Step.
From IRCP Require Import MsgP BanP InvDefs AwayGlobal MsgGlobal.
From stdpp Require Import gmap.

Section C10.
Context (cfg : config) (i : nat).

(* may speak = member, or the channel takes outside messages (neither +n nor +s); and not banned
   (some ban mask globs the source and no exception mask does); and, if +m, voice or higher *)
Theorem C10_can_send_iff : forall co nick source,
  can_send co nick source = true <->
  (nick ∈ dom (ch_users co) \/ (cm_noext (ch_modes co) = false /\ cm_secret (ch_modes co) = false)) /\
  ~ (matches_any (cm_ban (ch_modes co)) source /\ ~ matches_any (cm_exception (ch_modes co)) source) /\
  (cm_moderated (ch_modes co) = false \/
   exists r, ch_users co !! nick = Some r /\ rk_is_voice r = true).
Proof. exact can_send_spec. Qed.

(* a channel target is delivered (to the audience of C01) if the sender may speak ... *)
Theorem C10_delivered_if_can_send : forall s c nick text notice target ty ch co o d,
  privmsg_one cfg i s c nick text notice target = Ok (o, d) ->
  target_type target = (ty, ch) -> tt_channel ty = true -> chans s !! ch = Some co ->
  can_send co nick (c_source c) = true ->
  d = true /\
  exists rcpts, NoDup rcpts /\ (forall n, n ∈ rcpts <-> n ∈ audience ty co /\ n <> nick) /\
                Forall2 (delivered s (msg_line c notice target text)) rcpts o.
Proof. exact (privmsg_one_channel_ok cfg i). Qed.

(* ... otherwise nobody receives it; a PRIVMSG sender gets exactly one 404, a NOTICE sender nothing *)
Theorem C10_refused_if_cannot_send : forall s c nick text notice target ty ch co o d,
  privmsg_one cfg i s c nick text notice target = Ok (o, d) ->
  target_type target = (ty, ch) -> tt_channel ty = true -> chans s !! ch = Some co ->
  can_send co nick (c_source c) = false ->
  d = false /\ o = if notice then [] else [(i, srv cfg (err_cannotsendtochan (client_name c) ch))].
Proof. exact (privmsg_one_channel_refused cfg i). Qed.

(* every line a NOTICE command queues - to anybody - is the relayed NOTICE itself: no numeric,
   no error, no away reply, whatever the targets and their outcome *)
Theorem C10_notice_silent : forall s c targets text r,
  process_privmsg_notice cfg i s c targets text true = Ok r ->
  Forall (fun x => exists t, t ∈ targets /\ x.2 = msg_line c true t text) (h_out r).
Proof. exact (notice_silent cfg i). Qed.

(* a PRIVMSG to an away user is answered with the away text, a NOTICE is not *)
Theorem C10_away : forall s c nick text notice target ty ch o d,
  privmsg_one cfg i s c nick text notice target = Ok (o, d) ->
  target_type target = (ty, ch) -> tt_channel ty = false ->
  match users s !! target with
  | Some u => d = true /\
              o = (u_conn u, msg_line c notice target text) ::
                  (if notice then [] else
                     match u_away u with
                     | Some a => [(i, srv cfg (rpl_away (client_name c) target a))]
                     | None => [] end)
  | None => d = false /\ o = if notice then [] else [(i, srv cfg (err_nosuchnick (client_name c) target))]
  end.
Proof. exact (privmsg_one_nick cfg i). Qed.

(* ... and "that user's away text" is the text of its LAST AWAY command: AWAY overwrites the stored text (an AWAY
   without text clears it), changes nothing else of the record and nobody else's, and answers 306 / 305 *)
Theorem C10_away_is_last_sent : forall s c text nick u,
  c_nick c = Some nick -> users s !! nick = Some u ->
  exists r, process_away cfg i s c text = Ok r /\ h_conn r = c /\ h_quit r = false /\
    users (h_sh r) = <[nick := u_set_away text u]> (users s) /\ chans (h_sh r) = chans s /\
    u_away (u_set_away text u) = text /\
    h_out r = [(i, srv cfg (match text with Some _ => rpl_nowaway (client_name c) | None => rpl_unaway (client_name c) end))].
Proof. exact (away_effect cfg i). Qed.

End C10.

(* THAT USER'S AWAY TEXT is the user's own: over every event of every connection, the away state of a record after a
   step is that of the same connection's record before it (under the same nick or, after NICK, the old one) unless the
   event is that connection's own AWAY line; a newly registered user is not away.  Nobody else's command - and no
   other command of its own: NICK, MODE, OPER, JOIN, ... - sets, changes or clears it. *)
Theorem C10_away_changes_only_by_own_away : forall cfg verify w i e w' o cl, Inv w -> step cfg verify w i e = Ok (w', o, cl) ->
  forall n u', users (sh w') !! n = Some u' ->
  (exists n0 u, users (sh w) !! n0 = Some u /\ u_conn u = u_conn u' /\ u_away u' = u_away u) \/
  (u_conn u' = i /\ exists c l, conns w !! i = Some c /\ e = EvLine l /\
     ((c_auth c = true /\ exists msg t, tokenize l = inl msg /\ command_of_message msg = inl (AWAY t)) \/
      (c_auth c = false /\ u_away u' = None))).
Proof. exact away_changes_only_by_own_away. Qed.

(* NOTICE IS NEVER ANSWERED, as a whole step of the server after any history: every line sent in the step of a registered
   connection's NOTICE line - to the sender or to anybody else - is the relayed NOTICE itself; no numeric, no error reply, no
   away reply; the state is unchanged and nobody is closed, whatever the targets (absent, forbidden by +n / +m / a ban, away) *)
Theorem C10_notice_step_silent : forall cfg verify w i l msg targets text c w' o cl, Inv w -> step cfg verify w i (EvLine l) = Ok (w', o, cl) ->
  conns w !! i = Some c -> c_auth c = true -> tokenize l = inl msg -> command_of_message msg = inl (NOTICE targets text) ->
  sh w' = sh w /\ cl = [] /\ Forall (fun x => exists t, t ∈ targets /\ x.2 = msg_line c true t text) o.
Proof. exact notice_step_silent. Qed.

Print Assumptions C10_can_send_iff.
Print Assumptions C10_notice_step_silent.
Print Assumptions C10_delivered_if_can_send.
Print Assumptions C10_refused_if_cannot_send.
Print Assumptions C10_notice_silent.
Print Assumptions C10_away.
Print Assumptions C10_away_is_last_sent.
Print Assumptions C10_away_changes_only_by_own_away.
