(* C05 - no input can crash a session handler or the server.  Statements only; proofs in
   IRCP.InvStep / IRCP.Reach.  `Panic p` is the model's rendering of every abort site of the
   implementation (unwrap / expect / index / checked arithmetic; inventory/panic_sites.json). *)
From IRC Require Import Str Wild Glob Parse Reply State Handlers Step.
From IRCP Require Import InvDefs InvStep Reach QuitP CloseP.
From stdpp Require Import gmap.

Section C05.
Context (cfg : config) (verify : str -> str -> bool).

(* every finite history of events (lines of any content, over-long lines, bad UTF-8, closes, timer
   ticks, new connections) on any number of connections runs to the end: no abort site is reached *)
Theorem C05_no_abort : forall evs, exists w outs, run cfg verify (world_init cfg) evs = Ok (w, outs).
Proof. exact (run_total cfg verify). Qed.

(* ... and from every reachable world every further event is handled (hence "keeps serving") *)
Theorem C05_keeps_serving : forall w i e, reachable cfg verify w ->
  exists w' o cl, step cfg verify w i e = Ok (w', o, cl) /\ reachable cfg verify w'.
Proof. exact (reachable_step cfg verify). Qed.

(* the invariant that makes the abort sites unreachable holds in every reachable world *)
Theorem C05_invariant : forall w, reachable cfg verify w -> Inv w.
Proof. intros w R. exact (proj1 (reachable_inv cfg verify w R)). Qed.

(* an event of connection i leaves every other connection that is not in the closed list as it
   was (same session record, hence still open and served), and a connection in the closed list is
   gone.  [cl] holds i itself (QUIT, failed password, over-long line, bad text, EOF, pong timeout,
   refused at the connection limit) and the owners of users with a KILL pending (KILL / DIE). *)
Theorem C05_others_untouched : forall w i e w' o cl, Inv w -> step cfg verify w i e = Ok (w', o, cl) ->
  (forall j, j <> i -> j ∉ cl -> conns w' !! j = conns w !! j) /\
  (forall j, j ∈ cl -> conns w' !! j = None).
Proof. intros w i e w' o cl I H. destruct (step_frame cfg verify w i e w' o cl I H) as [_ [_ [_ [A [B _]]]]]. auto. Qed.

(* in every reachable world every one of the 41 commands, with any parameters that pass the parser,
   from any registered connection, returns normally (the handler answers or ignores the line) *)
Theorem C05_every_command_answers : forall w i c cmd msg, reachable cfg verify w ->
  conns w !! i = Some c -> c_auth c = true -> command_of_message msg = inl cmd ->
  exists r, dispatch cfg verify i (sh w) c cmd msg = Ok r.
Proof.
  intros w i c cmd msg R Hc A Hcmd. destruct (reachable_inv cfg verify w R) as [I _].
  destruct (dispatch_auth_ok cfg verify i (sh w) c cmd msg (iw_s w I) (iw_cu w I i c Hc) A Hcmd) as [r [Hr _]]. eauto.
Qed.

(* the sending connection stays open unless the protocol itself ends it, and nobody else is
   closed except by an operator: a connection j closed by a step of connection i is either i itself -
   closed by an over-long line, invalid text, its own close, the pong timeout, the connection limit,
   or a line whose handler asked for it - or the line was KILL / DIE / SQUIT sent by an operator *)
Theorem C05_closed_only_by_protocol : forall w i e w' o cl j, Inv w -> step cfg verify w i e = Ok (w', o, cl) -> j ∈ cl ->
  (j = i /\ (closing_event e = true
             \/ (exists secure, e = EvOpen secure /\ conns w !! i = None)
             \/ (exists l c r, e = EvLine l /\ conns w !! i = Some c /\ process_line cfg verify i (sh w) c l = Ok r /\ h_quit r = true)))
  \/
  (exists l c, e = EvLine l /\ conns w !! i = Some c /\ operator_kill_line (sh w) c l).
Proof. exact (closed_only_by_protocol cfg verify). Qed.

(* ... and a handler asks for it only for QUIT, or for a failed password at the end of a
   registration (464, nothing else changes) - for all 41 commands, any parameters, any state *)
Theorem C05_quit_causes : forall i s c l r, process_line cfg verify i s c l = Ok r -> h_quit r = true ->
  exists msg cmd, tokenize l = inl msg /\ command_of_message msg = inl cmd /\
    (cmd = QUIT \/ (c_auth c = false /\ h_sh r = s /\ exists c', h_out r = [(i, srv cfg (err_passwdmismatch (client_name c')))])).
Proof. exact (line_quit cfg verify). Qed.

End C05.

Print Assumptions C05_no_abort.
Print Assumptions C05_keeps_serving.
Print Assumptions C05_invariant.
Print Assumptions C05_others_untouched.
Print Assumptions C05_every_command_answers.
Print Assumptions C05_closed_only_by_protocol.
Print Assumptions C05_quit_causes.
