(* Reply.v - the text of every reply (reply.rs Display) and of the fixed tables
   (ISUPPORT tokens, HELP topics). Model layer L1, no proofs. *)
From IRC Require Import Str.
Open Scope N_scope.

Definition sp (a b : str) : str := a ++ (c_space :: b).
Definition spj (l : list str) : str := join [c_space] l.

(* numeric + client + rest *)
Definition num (code : string) (client : str) (rest : str) : str :=
  lit code ++ (c_space :: client) ++ (c_space :: rest).
Definition num0 (code : string) (client : str) (rest : string) : str :=
  num code client (lit rest).

Definition rpl_welcome client network nick user host :=
  num "001" client (lit ":Welcome to the " ++ network ++ lit " Network, " ++ nick ++ lit "!~" ++ user ++ lit "@" ++ host).
Definition rpl_yourhost client server version :=
  num "002" client (lit ":Your host is " ++ server ++ lit ", running version " ++ version).
Definition rpl_created client datetime :=
  num "003" client (lit ":This server was created " ++ datetime).
Definition rpl_myinfo client server version :=
  num "004" client (spj [server; version; lit "Oiorw"; lit "Iabehiklmnopqstv"]).
Definition rpl_isupport client tokens :=
  num "005" client (tokens ++ lit " :are supported by this server").
Definition rpl_statscommands client command count :=
  num "212" client (sp command (dec count)).
Definition rpl_endofstats client (stat : N) :=
  num "219" client ([stat] ++ lit " :End of STATS report").
Definition rpl_umodeis client modes := num "221" client modes.
Definition rpl_luserclient client users inv :=
  num "251" client (lit ":There are " ++ dec users ++ lit " users and " ++ dec inv ++ lit " invisible on 1 servers").
Definition rpl_luserop client n := num "252" client (dec n ++ lit " :operator(s) online").
Definition rpl_luserunknown client := num0 "253" client "0 :unknown connection(s)".
Definition rpl_luserchannels client n := num "254" client (dec n ++ lit " :channels formed").
Definition rpl_luserme client n :=
  num "255" client (lit ":I have " ++ dec n ++ lit " clients and 1 servers").
Definition rpl_adminme client server := num "256" client (server ++ lit " :Administrative info").
Definition rpl_adminloc1 client info := num "257" client (c_colon :: info).
Definition rpl_adminloc2 client info := num "258" client (c_colon :: info).
Definition rpl_adminemail client email := num "259" client (c_colon :: email).
Definition rpl_localusers client n m :=
  num "265" client (dec n ++ [c_space] ++ dec m ++ lit " :Current local users " ++ dec n ++ lit ", max " ++ dec m).
Definition rpl_globalusers client n m :=
  num "266" client (dec n ++ [c_space] ++ dec m ++ lit " :Current global users " ++ dec n ++ lit ", max " ++ dec m).
Definition rpl_away client nick message := num "301" client (nick ++ lit " :" ++ message).
Definition rpl_userhost client (replies : list str) := num "302" client (c_colon :: spj replies).
Definition rpl_ison client (nicks : list str) := num "303" client (c_colon :: spj nicks).
Definition rpl_unaway client := num0 "305" client ":You are no longer marked as being away".
Definition rpl_nowaway client := num0 "306" client ":You have been marked as being away".
Definition rpl_whoisregnick client nick := num "307" client (nick ++ lit " :has identified for this nick").
Definition rpl_whoisuser client nick username host realname :=
  num "311" client (nick ++ lit " ~" ++ username ++ [c_space] ++ host ++ lit " * :" ++ realname).
Definition rpl_whoisserver client nick server info :=
  num "312" client (nick ++ [c_space] ++ server ++ lit " :" ++ info).
Definition rpl_whoisoperator client nick := num "313" client (nick ++ lit " :is an IRC operator").
Definition rpl_whowasuser client nick username host realname :=
  num "314" client (nick ++ lit " ~" ++ username ++ [c_space] ++ host ++ lit " * :" ++ realname).
Definition rpl_endofwho client mask := num "315" client (mask ++ lit " :End of WHO list").
(* idle seconds and signon time are clock values: rendered as "T" and masked by the harness *)
Definition rpl_whoisidle client nick :=
  num "317" client (nick ++ lit " T T :seconds idle, signon time").
Definition rpl_endofwhois client nick := num "318" client (nick ++ lit " :End of /WHOIS list").
Definition rpl_whoischannels client nick (chans : list str) :=
  num "319" client (nick ++ lit " :" ++ spj chans).
Definition rpl_liststart client := num0 "321" client "Channel :Users  Name".
Definition rpl_list client channel count topic :=
  num "322" client (channel ++ [c_space] ++ dec count ++ lit " :" ++ topic).
Definition rpl_listend client := num0 "323" client ":End of /LIST".
Definition rpl_channelmodeis client channel modestring :=
  num "324" client (sp channel modestring).
Definition rpl_creationtime client channel := num "329" client (channel ++ lit " T").
Definition rpl_notopic client channel := num "331" client (channel ++ lit " :No topic is set").
Definition rpl_topic client channel topic := num "332" client (channel ++ lit " :" ++ topic).
Definition rpl_topicwhotime client channel nick :=
  num "333" client (channel ++ [c_space] ++ nick ++ lit " T").
Definition rpl_inviting client nick channel := num "341" client (sp nick channel).
Definition rpl_invitelist client channel mask := num "346" client (sp channel mask).
Definition rpl_endofinvitelist client channel :=
  num "347" client (channel ++ lit " :End of channel invite list").
Definition rpl_exceptlist client channel mask := num "348" client (sp channel mask).
Definition rpl_endofexceptlist client channel :=
  num "349" client (channel ++ lit " :End of channel exception list").
Definition rpl_version client version server :=
  num "351" client (version ++ [c_space] ++ server ++ lit " :simple IRC server").
Definition rpl_whoreply client channel username host server nick flags realname :=
  num "352" client (channel ++ lit " ~" ++ username ++ [c_space] ++ host ++ [c_space] ++ server
                    ++ [c_space] ++ nick ++ [c_space] ++ flags ++ lit " :0 " ++ realname).
Definition rpl_namreply client symbol channel (names : list str) :=
  num "353" client (symbol ++ [c_space] ++ channel ++ lit " :" ++ spj names).
Definition rpl_links client server info :=
  num "364" client (server ++ [c_space] ++ server ++ lit " :0 " ++ info).
Definition rpl_endoflinks client := num0 "365" client "* :End of LINKS list".
Definition rpl_endofnames client channel := num "366" client (channel ++ lit " :End of /NAMES list").
Definition rpl_banlist client channel mask who :=
  num "367" client (channel ++ [c_space] ++ mask ++ [c_space] ++ who ++ lit " T").
Definition rpl_endofbanlist client channel :=
  num "368" client (channel ++ lit " :End of channel ban list").
Definition rpl_endofwhowas client nick := num "369" client (nick ++ lit " :End of WHOWAS").
Definition rpl_info client info := num "371" client (c_colon :: info).
Definition rpl_endofinfo client := num0 "374" client ":End of INFO list".
Definition rpl_motdstart client server :=
  num "375" client (lit ":- " ++ server ++ lit " Message of the day - ").
Definition rpl_motd client motd := num "372" client (c_colon :: motd).
Definition rpl_endofmotd client := num0 "376" client ":End of /MOTD command.".
Definition rpl_whoishost client nick host :=
  num "378" client (nick ++ lit " :is connecting from " ++ host).
Definition rpl_whoismodes client nick modes :=
  num "379" client (nick ++ lit " :is using modes " ++ modes).
Definition rpl_youreoper client := num0 "381" client ":You are now an IRC operator".
Definition rpl_time client server := num "391" client (server ++ lit " T"). (* masked *)
Definition err_unknownerror client (command : string) :=
  num "400" client (lit command ++ lit " :Server unsupported").
Definition err_nosuchnick client nick := num "401" client (nick ++ lit " :No such nick/channel").
Definition err_nosuchchannel client channel := num "403" client (channel ++ lit " :No such channel").
Definition err_cannotsendtochan client channel :=
  num "404" client (channel ++ lit " :Cannot send to channel").
Definition err_toomanychannels client channel :=
  num "405" client (channel ++ lit " :You have joined too many channels").
Definition err_wasnosuchnick client nick :=
  num "406" client (nick ++ lit " :There was no such nickname").
Definition err_inputtoolong client := num0 "417" client ":Input line was too long".
Definition err_unknowncommand client command :=
  num "421" client (command ++ lit " :Unknown command").
Definition err_nicknameinuse client nick :=
  num "433" client (nick ++ lit " :Nickname is already in use").
Definition err_usernotinchannel client nick channel :=
  num "441" client (nick ++ [c_space] ++ channel ++ lit " :They aren't on that channel").
Definition err_notonchannel client channel :=
  num "442" client (channel ++ lit " :You're not on that channel").
Definition err_useronchannel client nick channel :=
  num "443" client (nick ++ [c_space] ++ channel ++ lit " :is already on channel").
Definition err_notregistered client := num0 "451" client ":You have not registered".
Definition err_needmoreparams client command :=
  num "461" client (command ++ lit " :Not enough parameters").
Definition err_alreadyregistered client := num0 "462" client ":You may not reregister".
Definition err_passwdmismatch client := num0 "464" client ":Password incorrect".
Definition err_channelisfull client channel :=
  num "471" client (channel ++ lit " :Cannot join channel (+l)").
Definition err_unknownmode client (modechar : N) channel :=
  num "472" client ([modechar] ++ lit " :is unknown mode char for " ++ channel).
Definition err_inviteonlychan client channel :=
  num "473" client (channel ++ lit " :Cannot join channel (+i)").
Definition err_bannedfromchan client channel :=
  num "474" client (channel ++ lit " :Cannot join channel (+b)").
Definition err_badchannelkey client channel :=
  num "475" client (channel ++ lit " :Cannot join channel (+k)").
Definition err_noprivileges client :=
  num0 "481" client ":Permission Denied- You're not an IRC operator".
Definition err_chanoprivsneeded client channel :=
  num "482" client (channel ++ lit " :You're not channel operator").
Definition err_cantkillserver client := num0 "483" client ":You cant kill a server!".
Definition err_yourconnrestricted client := num0 "484" client ":Your connection is restricted!".
Definition err_nooperhost client := num0 "491" client ":No O-lines for your host".
Definition err_umodeunknownflag client := num0 "501" client ":Unknown MODE flag".
Definition err_usersdontmatch client := num0 "502" client ":Cant change mode for other users".
Definition err_helpnotfound client subject :=
  num "524" client (subject ++ lit " :No help available on this topic").
Definition rpl_whoissecure client nick :=
  num "671" client (nick ++ lit " :is using a secure connection").
Definition err_invalidmodeparam client target (modechar : N) param description :=
  num "696" client (target ++ [c_space; modechar] ++ (c_space :: param) ++ lit " :" ++ description).
Definition rpl_helpstart client subject line := num "704" client (subject ++ lit " :" ++ line).
Definition rpl_helptxt client subject line := num "705" client (subject ++ lit " :" ++ line).
Definition rpl_endofhelp client subject line := num "706" client (subject ++ lit " :" ++ line).
Definition err_cannotdocommand client := num0 "972" client ":Can not do command".

(* ---- ISUPPORT tokens (conn_cmds.rs), sorted as the code sorts them *)
Local Open Scope string_scope.
Definition isupport_fixed : list string :=
  [ "AWAYLEN=1000"; "CASEMAPPING=ascii"; "CHANMODES=Iabehiklmnopqstv"; "CHANNELLEN=1000";
    "CHANTYPES=&#"; "EXCEPTS=e"; "FNC"; "HOSTLEN=1000"; "INVEX=I"; "KEYLEN=1000";
    "KICKLEN=1000"; "LINELEN=2000"; "MAXLIST=beI:1000"; "MAXNICKLEN=200"; "MAXPARA=500";
    "MAXTARGETS=500"; "MODES=500"; "NICKLEN=200"; "PREFIX=(qaohv)~&@%+"; "SAFELIST";
    "STATUSMSG=~&@%+"; "TOPICLEN=1000"; "USERLEN=200"; "USERMODES=Oiorw" ].

Local Close Scope string_scope.

(* byte-wise (= code point wise) lexicographic comparison, as String::cmp *)
Fixpoint str_leb (a b : str) : bool :=
  match a, b with
  | [], _ => true
  | _ :: _, [] => false
  | x :: a', y :: b' => if N.ltb x y then true else if N.ltb y x then false else str_leb a' b'
  end.
Fixpoint insert_sorted (x : str) (l : list str) : list str :=
  match l with
  | [] => [x]
  | y :: l' => if str_leb x y then x :: l else y :: insert_sorted x l'
  end.
Definition sort_strs (l : list str) : list str := fold_right insert_sorted [] l.

Definition isupport_tokens (network : str) (max_joins : option N) : list str :=
  sort_strs ((lit "NETWORK=" ++ network) ::
             match max_joins with
             | Some m => [lit "CHANLIMIT=&#:" ++ dec m; lit "MAXCHANNELS=" ++ dec m]
             | None => []
             end ++ List.map lit isupport_fixed).

(* ---- HELP topics (help.rs) *)
Local Open Scope string_scope.
Definition help_commands : list string :=
  [ "List of commands:"; "ADMIN"; "AUTHENTICATE - unsupported"; "AWAY"; "CAP";
    "CONNECT - unsupported"; "DIE"; "HELP"; "INFO"; "INVITE"; "ISON"; "JOIN"; "KICK"; "KILL";
    "LINKS"; "LIST"; "LUSERS"; "MODE"; "MOTD"; "NAMES"; "NICK"; "NOTICE"; "OPER"; "PART";
    "PASS"; "PING"; "PONG"; "PRIVMSG"; "QUIT"; "REHASH"; "RESTART"; "SQUIT"; "STATS"; "TIME";
    "TOPIC"; "USER"; "USERHOST"; "VERSION"; "WALLOPS"; "WHO"; "WHOIS"; "WHOWAS" ].
Definition help_main : list string :=
  [ "This is Simple IRC Server."; "Use 'HELP COMMANDS' to list of commands.";
    "If you want get HELP about commands please refer to https://modern.ircdocs.horse/";
    "or https://datatracker.ietf.org/doc/html/rfc1459." ].
Local Close Scope string_scope.
Definition help_topic (subject : str) : option (list str) :=
  if str_eqb subject (lit "COMMANDS") then Some (List.map lit help_commands)
  else if str_eqb subject (lit "MAIN") then Some (List.map lit help_main)
  else None.
