(* Glob.v - the specification of mask matching: textbook glob semantics.
   '*' any possibly empty run, '?' exactly one character, everything else itself. *)
From IRC Require Import Str.
Open Scope N_scope.

Fixpoint glob (p : str) : str -> bool :=
  match p with
  | [] => fun t => is_empty t
  | c :: p' =>
      if N.eqb c c_star then
        fix any (t : str) : bool :=
          glob p' t || match t with [] => false | _ :: t' => any t' end
      else fun t =>
        match t with
        | [] => false
        | d :: t' => (N.eqb c c_qmark || N.eqb c d) && glob p' t'
        end
  end.

(* the same as a relation *)
Inductive matches : str -> str -> Prop :=
| m_nil : matches [] []
| m_star_skip p t : matches p t -> matches (c_star :: p) t
| m_star_eat p d t : matches (c_star :: p) t -> matches (c_star :: p) (d :: t)
| m_qmark p d t : matches p t -> matches (c_qmark :: p) (d :: t)
| m_char c p t : c <> c_star -> matches p t -> matches (c :: p) (c :: t).
