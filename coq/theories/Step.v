(* Step.v - model of state/mod.rs: process_internal for one event of one connection
   (tokenise, parse, error replies, registration gate, dispatch), the connection loop's
   exit path (remove_user + Drop), register_conn_state, and the delivery of pending KILLs. *)
From stdpp Require Import gmap.
From IRC Require Import Str Wild Mask Parse Reply State Handlers.
Open Scope N_scope.

Inductive event :=
| EvOpen (secure : bool)      (* a TCP connection is accepted *)
| EvLine (l : str)            (* a decoded line within the length limit *)
| EvTooLong                   (* the codec reports MaxLineLengthExceeded *)
| EvBadUtf8                   (* the codec reports invalid UTF-8 *)
| EvClose                     (* the peer closed or reset the connection *)
| EvPingTick                  (* the ping waker fired *)
| EvPongTimeout.              (* the pong timeout fired *)

Section step.
Context (cfg : config) (verify : str -> str -> bool).

Definition needs_registration (c : command) : bool :=
  match c with
  | CAP _ _ _ | AUTHENTICATE | PASS _ | NICK _ | USER _ _ _ _ | QUIT => false
  | _ => true
  end.

(* the numeric / ERROR answer to a command that does not parse or validate *)
Definition cmd_error_reply (client : str) (e : cmd_error) : str :=
  match e with
  | UnknownCommand name => err_unknowncommand client name
  | UnknownSubcommand _ _ | ParameterDoesntMatch _ _ | WrongParameter _ _ =>
      lit "ERROR :" ++ cmd_error_text e
  | NeedMoreParams v => err_needmoreparams client (verb_name v)
  | UnknownMode _ ch chn => err_unknownmode client ch chn
  | UnknownUModeFlag _ => err_umodeunknownflag client
  | InvalidModeParam t ch p d => err_invalidmodeparam client t ch p d
  end.

Definition process_line (i : nat) (s : shared) (c : conn) (l : str) : res hres :=
  match tokenize l with
  | inr MEmpty => hr s c []
  | inr MWrongSource => hr s c [(i, srv cfg (lit "ERROR :Wrong source"))]
  | inr MNoCommand => hr s c [(i, srv cfg (lit "ERROR :No command supplied"))]
  | inl msg =>
      match command_of_message msg with
      | inr e => hr s c [(i, srv cfg (cmd_error_reply (client_name c) e))]
      | inl cmd =>
          if needs_registration cmd && negb (c_auth c)
          then hr s c [(i, srv cfg (err_notregistered (client_name c)))]
          else dispatch cfg verify i s c cmd msg
      end
  end.

(* user_state_process after the loop: remove_user (registered connections only), then Drop *)
Definition teardown (i : nat) (w : world) : res world :=
  match conns w !! i with
  | None => Ok w
  | Some c =>
      let! s' := if c_auth c then
                   match c_nick c with
                   | Some n => st_remove_user n (sh w)
                   | None => Ok (sh w)
                   end
                 else Ok (sh w) in
      let! n := dec_counter (nconns w) in
      Ok {| sh := s'; conns := delete i (conns w); nconns := n |}
  end.

(* one event, without delivery of pending KILLs: new world, lines, closed connections *)
Definition step_raw (w : world) (i : nat) (e : event) : res (world * outl * list nat) :=
  match e with
  | EvOpen secure =>
      match conns w !! i with
      | Some _ => Ok (w, [], [])
      | None =>
          if server_quit (sh w) then Ok (w, [], [i]) else
          if match cfg_max_connections cfg with Some m => N.ltb (nconns w) m | None => true end
          then Ok ({| sh := sh w; conns := <[i := conn_new (lit "127.0.0.1") secure]> (conns w);
                      nconns := nconns w + 1 |}, [], [])
          else Ok (w, [], [i])
      end
  | _ =>
      match conns w !! i with
      | None => Ok (w, [], [])
      | Some c =>
          let client := client_name c in
          match e with
          | EvLine l =>
              let! r := process_line i (sh w) c l in
              let w1 := {| sh := h_sh r; conns := <[i := h_conn r]> (conns w);
                           nconns := nconns w |} in
              if h_quit r then let! w2 := teardown i w1 in Ok (w2, h_out r, [i])
              else Ok (w1, h_out r, [])
          | EvTooLong =>
              let! w1 := teardown i w in
              Ok (w1, [(i, srv cfg (err_inputtoolong client))], [i])
          | EvBadUtf8 | EvClose =>
              let! w1 := teardown i w in Ok (w1, [], [i])
          | EvPongTimeout =>
              let! w1 := teardown i w in
              Ok (w1, [(i, srv cfg (lit "ERROR :Pong timeout, connection will be closed."))], [i])
          | EvPingTick => Ok (w, [(i, srv cfg (lit "PING :LALAL"))], [])
          | EvOpen _ => Ok (w, [], [])
          end
      end
  end.

(* the quit_receiver branch of the victims' own loops: ERROR line, quit, teardown *)
Definition pending_kills (s : shared) : list (nat * str * str) :=
  omap (fun '(_, u) => match u_kill u with
                       | Some (killer, comment) => Some (u_conn u, killer, comment)
                       | None => None
                       end) (map_to_list (users s)).

Definition deliver_kills (w : world) : res (world * outl * list nat) :=
  rfold (fun '(w, o, cl) '(j, killer, comment) =>
           let! w' := teardown j w in
           Ok (w', o ++ [(j, srv cfg (lit "ERROR :User killed by " ++ killer ++ lit ": " ++ comment))],
               cl ++ [j]))
        (pending_kills (sh w)) (w, [], []).

Definition step (w : world) (i : nat) (e : event) : res (world * outl * list nat) :=
  let! (w1, o1, c1) := step_raw w i e in
  let! (w2, o2, c2) := deliver_kills w1 in
  Ok (w2, o1 ++ o2, c1 ++ c2).

Fixpoint run (w : world) (evs : list (nat * event)) : res (world * list (outl * list nat)) :=
  match evs with
  | [] => Ok (w, [])
  | (i, e) :: evs' =>
      let! (w1, o, cl) := step w i e in
      let! (w2, rest) := run w1 evs' in
      Ok (w2, (o, cl) :: rest)
  end.

End step.
