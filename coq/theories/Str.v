(* Str.v - characters are Unicode scalar values (N), strings are lists of them.
   Model layer L1, Stdlib only, no proofs. *)
From Coq Require Export Ascii String.
From Coq Require Export List NArith Bool.
Export ListNotations.
Open Scope N_scope.

Definition ch := N.
Definition str := list N.

Definition lit (s : string) : str := List.map N_of_ascii (list_ascii_of_string s).

Fixpoint str_eqb (a b : str) : bool :=
  match a, b with
  | [], [] => true
  | x :: a', y :: b' => N.eqb x y && str_eqb a' b'
  | _, _ => false
  end.

Definition is_empty {A} (l : list A) : bool := match l with [] => true | _ => false end.

Definition c_space := 32.  Definition c_colon := 58.  Definition c_comma := 44.
Definition c_dot := 46.    Definition c_star := 42.   Definition c_qmark := 63.
Definition c_excl := 33.   Definition c_at := 64.     Definition c_hash := 35.
Definition c_amp := 38.    Definition c_tilde := 126. Definition c_percent := 37.
Definition c_plus := 43.   Definition c_minus := 45.  Definition c_eq := 61.

Definition contains (c : N) (s : str) : bool := existsb (N.eqb c) s.

(* char::is_ascii_whitespace / split_ascii_whitespace: SP, TAB, LF, FF, CR *)
Definition is_ascii_ws (c : N) : bool :=
  N.eqb c 32 || N.eqb c 9 || N.eqb c 10 || N.eqb c 12 || N.eqb c 13.

(* char::is_whitespace (Unicode White_Space), used by str::trim_start *)
Definition is_unicode_ws (c : N) : bool :=
  (N.leb 9 c && N.leb c 13) || N.eqb c 32 || N.eqb c 133 || N.eqb c 160 || N.eqb c 5760
  || (N.leb 8192 c && N.leb c 8202) || N.eqb c 8232 || N.eqb c 8233 || N.eqb c 8239
  || N.eqb c 8287 || N.eqb c 12288.

Fixpoint trim_start (s : str) : str :=
  match s with
  | c :: s' => if is_unicode_ws c then trim_start s' else s
  | [] => []
  end.

Definition to_ascii_upper_c (c : N) : N := if N.leb 97 c && N.leb c 122 then c - 32 else c.
Definition to_ascii_upper (s : str) : str := List.map to_ascii_upper_c s.

(* split on a separator character: "a,b" -> ["a";"b"], "" -> [""] (str::split) *)
Fixpoint split_on (sep : N) (s : str) : list str :=
  match s with
  | [] => [[]]
  | c :: s' =>
      if N.eqb c sep then [] :: split_on sep s'
      else match split_on sep s' with
           | w :: ws => (c :: w) :: ws
           | [] => [[c]]
           end
  end.

(* split_ascii_whitespace: maximal runs of non-whitespace *)
Fixpoint words_aux (s : str) (cur : str) : list str :=
  match s with
  | [] => if is_empty cur then [] else [rev cur]
  | c :: s' =>
      if is_ascii_ws c then (if is_empty cur then words_aux s' [] else rev cur :: words_aux s' [])
      else words_aux s' (c :: cur)
  end.
Definition words (s : str) : list str := words_aux s [].

Fixpoint join (sep : str) (l : list str) : str :=
  match l with
  | [] => []
  | [x] => x
  | x :: l' => x ++ sep ++ join sep l'
  end.

(* split at the first occurrence of c: (before, Some after) *)
Fixpoint split_first (c : N) (s : str) : str * option str :=
  match s with
  | [] => ([], None)
  | d :: s' => if N.eqb d c then ([], Some s')
               else let '(a, b) := split_first c s' in (d :: a, b)
  end.

Definition starts_with_c (c : N) (s : str) : bool :=
  match s with d :: _ => N.eqb c d | [] => false end.

(* decimal rendering of a number *)
Fixpoint dec_aux (fuel : nat) (n : N) (acc : str) : str :=
  match fuel with
  | O => acc
  | S f => let acc' := (48 + N.modulo n 10) :: acc in
           let q := N.div n 10 in
           if N.eqb q 0 then acc' else dec_aux f q acc'
  end.
Definition dec (n : N) : str := dec_aux (S (N.size_nat n)) n [].

(* Rust's <unsigned>::from_str: optional '+', then one or more decimal digits, value <= max *)
Inductive parse_err := PEmpty | PInvalid | POverflow.
Fixpoint digits_val (s : str) (acc : N) : option N :=
  match s with
  | [] => Some acc
  | c :: s' => if N.leb 48 c && N.leb c 57 then digits_val s' (acc * 10 + (c - 48)) else None
  end.
Definition parse_uint (max : N) (s : str) : N + parse_err :=
  match s with
  | [] => inr PEmpty
  | c :: s' =>
      let body := if N.eqb c c_plus then s' else s in
      if is_empty body then inr PInvalid
      else match digits_val body 0 with
           | None => inr PInvalid
           | Some v => if N.leb v max then inl v else inr POverflow
           end
  end.
Definition usize_max := 18446744073709551615.
Definition u32_max := 4294967295.
Definition u16_max := 65535.
Definition parse_err_text (e : parse_err) : str :=
  match e with
  | PEmpty => lit "cannot parse integer from empty string"
  | PInvalid => lit "invalid digit found in string"
  | POverflow => lit "number too large to fit in target type"
  end.

(* number of bytes of the UTF-8 encoding (str::len) *)
Definition utf8_len_c (c : N) : N :=
  if N.ltb c 128 then 1 else if N.ltb c 2048 then 2 else if N.ltb c 65536 then 3 else 4.
Definition utf8_len (s : str) : N := fold_left (fun a c => a + utf8_len_c c) s 0.

Fixpoint chunks_aux {A} (fuel : nat) (n : nat) (l : list A) : list (list A) :=
  match fuel with
  | O => []
  | S f => match l with
           | [] => []
           | _ => firstn n l :: chunks_aux f n (skipn n l)
           end
  end.
(* slice::chunks(n), n > 0 *)
Definition chunks {A} (n : nat) (l : list A) : list (list A) := chunks_aux (length l) n l.

Fixpoint dedup_str (l : list str) : list str :=
  match l with
  | [] => []
  | x :: l' => if existsb (str_eqb x) l' then dedup_str l' else x :: dedup_str l'
  end.
Definition mem_str (x : str) (l : list str) : bool := existsb (str_eqb x) l.
