(* Frame.v - model of the line framing of the connection (tokio_util LinesCodec with
   max_length = 2000, as IRCLinesCodec uses it): bytes are split at LF, one trailing CR is
   stripped, a line whose LF lies beyond max_length bytes - or a buffer that exceeds
   max_length without LF - is MaxLineLengthExceeded, after which the server closes the
   connection.  The decoder state between segments is the bytes after the last LF.
   No proofs. *)
From Coq Require Import List NArith Arith.
Import ListNotations.
Open Scope N_scope.

Definition max_len : nat := 2000.
Definition LF : N := 10.
Definition CR : N := 13.

Inductive framed := FLine (l : list N) | FTooLong.

(* complete lines (without their LF) and the bytes after the last LF *)
Fixpoint lines_of (s : list N) : list (list N) * list N :=
  match s with
  | [] => ([], [])
  | c :: s' =>
      let '(ls, r) := lines_of s' in
      if N.eqb c LF then ([] :: ls, r)
      else match ls with
           | [] => ([], c :: r)
           | l :: ls' => ((c :: l) :: ls', r)
           end
  end.

Definition strip_cr (l : list N) : list N :=
  match rev l with
  | c :: r => if N.eqb c CR then rev r else l
  | [] => l
  end.

(* frames in order; everything after the first over-long line is dropped with the connection *)
Fixpoint frames_of (ls : list (list N)) (rest : list N) : list framed :=
  match ls with
  | [] => if Nat.ltb max_len (length rest) then [FTooLong] else []
  | l :: ls' => if Nat.leb (length l) max_len then FLine (strip_cr l) :: frames_of ls' rest
                else [FTooLong]
  end.

(* one read: the pending bytes, the new segment -> frames, new pending bytes *)
Definition feed (pending seg : list N) : list framed * list N :=
  let '(ls, r) := lines_of (pending ++ seg) in (frames_of ls r, r).

Definition closed (fs : list framed) : bool := existsb (fun f => match f with FTooLong => true | _ => false end) fs.

(* the encoder side of the codec (IRCLinesCodec::encode): the line followed by CR LF *)
Definition encode (l : list N) : list N := l ++ [CR; LF].
