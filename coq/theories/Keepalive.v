(* Keepalive.v - timed model of the keep-alive logic of one registered connection
   (structs.rs run_ping_waker / run_pong_timeout / pong_client_timeout, conn_cmds.rs process_pong,
   the PING and timeout branches of mod.rs process_internal).  Time is a natural number (the
   harness uses milliseconds).  The ping waker fires at registration + k * ping_timeout, k >= 1;
   each firing sends PING and starts the pong timer unless one is already running; a PONG (any
   token) cancels the running timer; a timer that reaches its deadline closes the connection.
   No proofs. *)
From Coq Require Import List NArith.
Import ListNotations.
Open Scope N_scope.

Inductive kev := KPing | KPong | KOther.

(* dl: the deadline of the running pong timer; events carry their time; the result is the time
   at which the connection is closed by the timer, if it is closed up to the horizon *)
Fixpoint ka_run (pt : N) (dl : option N) (evs : list (N * kev)) (horizon : N) : option N :=
  match evs with
  | [] => match dl with
          | Some d => if N.leb d horizon then Some d else None
          | None => None
          end
  | (t, e) :: evs' =>
      match dl with
      | Some d =>
          if N.leb d t then Some d
          else match e with
               | KPong => ka_run pt None evs' horizon
               | _ => ka_run pt (Some d) evs' horizon
               end
      | None =>
          match e with
          | KPing => ka_run pt (Some (t + pt)) evs' horizon
          | _ => ka_run pt None evs' horizon
          end
      end
  end.

(* the k-th PING after registration at time r *)
Definition ping_time (r ping_timeout : N) (k : N) : N := r + ping_timeout * k.
