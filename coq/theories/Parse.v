(* Parse.v - model of command.rs: Message::from_shared_str, Command::parse_from_message,
   Command::validate, and of the validators in utils.rs. No proofs. *)
From IRC Require Import Str.
Open Scope N_scope.

(* ------------------------------------------------------------------ validators (utils.rs) *)

Fixpoint index_of (c : N) (s : str) : option nat :=
  match s with
  | [] => None
  | d :: s' => if N.eqb d c then Some O else option_map S (index_of c s')
  end.

Definition validate_source (s : str) : bool :=
  if contains c_colon s then false
  else match index_of c_excl s, index_of c_at s with
       | Some e, Some a => Nat.ltb e a
       | _, _ => true
       end.

Inductive uname_err := UEmptyOrWs | UChanPrefix | UBadChar.

Definition validate_username_e (s : str) : option uname_err :=
  if is_empty s || existsb is_ascii_ws s then Some UEmptyOrWs
  else if starts_with_c c_hash s || starts_with_c c_amp s then Some UChanPrefix
  else if negb (contains c_dot s) && negb (contains c_colon s) && negb (contains c_comma s)
       then None else Some UBadChar.
Definition validate_username (s : str) : bool :=
  match validate_username_e s with None => true | Some _ => false end.

Definition uname_err_text (e : uname_err) : str :=
  lit "Validation error: " ++
  (match e with
   | UEmptyOrWs => lit "Username must not be empty or contain whitespaces."
   | UChanPrefix => lit "Username must not have channel prefix."
   | UBadChar => lit "Username must not contains '.', ',' or ':'."
   end) ++ lit " [{}]".

Definition validate_channel (s : str) : bool :=
  negb (is_empty s) && negb (contains c_colon s) && negb (contains c_comma s)
  && negb (existsb is_ascii_ws s)
  && (starts_with_c c_hash s || starts_with_c c_amp s).

Definition validate_server (s : str) : bool := contains c_dot s.
Definition validate_server_mask (s : str) : bool := contains c_dot s || contains c_star s.

Definition is_status_prefix (c : N) : bool :=
  N.eqb c c_tilde || N.eqb c c_at || N.eqb c c_percent || N.eqb c c_plus.

(* the byte loop of validate_prefixed_channel *)
Fixpoint vpc_loop (s : str) (last_amp : bool) : bool :=
  match s with
  | [] => false
  | c :: s' =>
      if is_status_prefix c then vpc_loop s' false
      else if N.eqb c c_amp then vpc_loop s' true
      else if N.eqb c c_hash then negb (is_empty s')
      else last_amp
  end.
Definition validate_prefixed_channel (s : str) : bool :=
  negb (is_empty s) && negb (contains c_colon s) && negb (contains c_comma s)
  && negb (existsb is_ascii_ws s) && vpc_loop s false.

(* ------------------------------------------------------------------ Message *)

Record message := { m_source : option str; m_command : str; m_params : list str }.
Inductive msg_error := MEmpty | MWrongSource | MNoCommand.

(* scan for the first ':' preceded by ASCII whitespace; acc is the reversed prefix *)
Fixpoint find_trailing (prev : N) (s : str) (acc : str) : str * option str :=
  match s with
  | [] => (rev acc, None)
  | c :: s' => if N.eqb c c_colon && is_ascii_ws prev then (rev acc, Some s')
               else find_trailing c s' (c :: acc)
  end.

Definition tokenize (input : str) : message + msg_error :=
  match trim_start input with
  | [] => inr MEmpty
  | c0 :: s1 =>
      let '(rest, last) := find_trailing c0 s1 [c0] in
      let ws := words rest in
      let with_cmd (src : option str) (ws : list str) :=
        match ws with
        | [] => inr MNoCommand
        | cmd :: ps =>
            inl {| m_source := src; m_command := cmd;
                   m_params := ps ++ match last with Some lp => [lp] | None => [] end |}
        end in
      if N.eqb c0 c_colon then
        match ws with
        | [] => inr MNoCommand (* unreachable: rest starts with ':' *)
        | w :: ws' =>
            let s := tl w in
            if validate_source s then with_cmd (Some s) ws' else inr MWrongSource
        end
      else with_cmd None ws
  end.

(* Message::to_string_with_source *)
Fixpoint join_middle (ps : list str) : str * option str :=
  match ps with
  | [] => ([], None)
  | [p] => ([], Some p)
  | p :: ps' => let '(a, l) := join_middle ps' in ((c_space :: p) ++ a, l)
  end.
Definition needs_trailing (last : str) : bool :=
  existsb (fun c => N.eqb c c_colon || is_ascii_ws c) last || is_empty last.
Definition to_string_with_source (m : message) (source : str) : str :=
  (c_colon :: source) ++ (c_space :: m_command m) ++
  match join_middle (m_params m) with
  | (mid, Some last) =>
      mid ++ (if needs_trailing last then lit " :" else [c_space]) ++ last
  | (mid, None) => mid
  end.

(* ------------------------------------------------------------------ Command *)

Inductive verb :=
| VCAP | VAUTHENTICATE | VPASS | VNICK | VUSER | VPING | VPONG | VOPER | VQUIT | VJOIN | VPART
| VTOPIC | VNAMES | VLIST | VINVITE | VKICK | VMOTD | VVERSION | VADMIN | VCONNECT | VLUSERS
| VTIME | VSTATS | VLINKS | VHELP | VINFO | VMODE | VPRIVMSG | VNOTICE | VWHO | VWHOIS | VWHOWAS
| VKILL | VREHASH | VRESTART | VSQUIT | VAWAY | VUSERHOST | VWALLOPS | VISON | VDIE.

Definition all_verbs : list verb :=
  [VCAP; VAUTHENTICATE; VPASS; VNICK; VUSER; VPING; VPONG; VOPER; VQUIT; VJOIN; VPART;
   VTOPIC; VNAMES; VLIST; VINVITE; VKICK; VMOTD; VVERSION; VADMIN; VCONNECT; VLUSERS;
   VTIME; VSTATS; VLINKS; VHELP; VINFO; VMODE; VPRIVMSG; VNOTICE; VWHO; VWHOIS; VWHOWAS;
   VKILL; VREHASH; VRESTART; VSQUIT; VAWAY; VUSERHOST; VWALLOPS; VISON; VDIE].

Definition verb_name (v : verb) : str :=
  lit match v with
  | VCAP => "CAP" | VAUTHENTICATE => "AUTHENTICATE" | VPASS => "PASS" | VNICK => "NICK"
  | VUSER => "USER" | VPING => "PING" | VPONG => "PONG" | VOPER => "OPER" | VQUIT => "QUIT"
  | VJOIN => "JOIN" | VPART => "PART" | VTOPIC => "TOPIC" | VNAMES => "NAMES"
  | VLIST => "LIST" | VINVITE => "INVITE" | VKICK => "KICK" | VMOTD => "MOTD"
  | VVERSION => "VERSION" | VADMIN => "ADMIN" | VCONNECT => "CONNECT" | VLUSERS => "LUSERS"
  | VTIME => "TIME" | VSTATS => "STATS" | VLINKS => "LINKS" | VHELP => "HELP"
  | VINFO => "INFO" | VMODE => "MODE" | VPRIVMSG => "PRIVMSG" | VNOTICE => "NOTICE"
  | VWHO => "WHO" | VWHOIS => "WHOIS" | VWHOWAS => "WHOWAS" | VKILL => "KILL"
  | VREHASH => "REHASH" | VRESTART => "RESTART" | VSQUIT => "SQUIT" | VAWAY => "AWAY"
  | VUSERHOST => "USERHOST" | VWALLOPS => "WALLOPS" | VISON => "ISON" | VDIE => "DIE"
  end.

Definition verb_of_name (s : str) : option verb :=
  find (fun v => str_eqb (verb_name v) s) all_verbs.

Inductive capsub := CapLS | CapLIST | CapREQ | CapEND.

Inductive command :=
| CAP (sub : capsub) (caps : option (list str)) (version : option N)
| AUTHENTICATE
| PASS (password : str)
| NICK (nickname : str)
| USER (username hostname servername realname : str)
| PING (token : str)
| PONG (token : str)
| OPER (name password : str)
| QUIT
| JOIN (channels : list str) (keys : option (list str))
| PART (channels : list str) (reason : option str)
| TOPIC (channel : str) (topic : option str)
| NAMES (channels : list str)
| LIST (channels : list str) (server : option str)
| INVITE (nickname channel : str)
| KICK (channel : str) (users : list str) (comment : option str)
| MOTD (target : option str)
| VERSION (target : option str)
| ADMIN (target : option str)
| CONNECT (target_server : str) (port : option N) (remote_server : option str)
| LUSERS
| TIME (server : option str)
| STATS (query : N) (server : option str)
| LINKS (remote_server server_mask : option str)
| HELP (subject : option str)
| INFO
| MODE (target : str) (modes : list (str * list str))
| PRIVMSG (targets : list str) (text : str)
| NOTICE (targets : list str) (text : str)
| WHO (mask : str)
| WHOIS (target : option str) (nickmasks : list str)
| WHOWAS (nickname : str) (count : option N) (server : option str)
| KILL (nickname comment : str)
| REHASH
| RESTART
| SQUIT (server comment : str)
| AWAY (text : option str)
| USERHOST (nicknames : list str)
| WALLOPS (text : str)
| ISON (nicknames : list str)
| DIE (message : option str).

Definition verb_of_command (c : command) : verb :=
  match c with
  | CAP _ _ _ => VCAP | AUTHENTICATE => VAUTHENTICATE | PASS _ => VPASS | NICK _ => VNICK
  | USER _ _ _ _ => VUSER | PING _ => VPING | PONG _ => VPONG | OPER _ _ => VOPER
  | QUIT => VQUIT | JOIN _ _ => VJOIN | PART _ _ => VPART | TOPIC _ _ => VTOPIC
  | NAMES _ => VNAMES | LIST _ _ => VLIST | INVITE _ _ => VINVITE | KICK _ _ _ => VKICK
  | MOTD _ => VMOTD | VERSION _ => VVERSION | ADMIN _ => VADMIN | CONNECT _ _ _ => VCONNECT
  | LUSERS => VLUSERS | TIME _ => VTIME | STATS _ _ => VSTATS | LINKS _ _ => VLINKS
  | HELP _ => VHELP | INFO => VINFO | MODE _ _ => VMODE | PRIVMSG _ _ => VPRIVMSG
  | NOTICE _ _ => VNOTICE | WHO _ => VWHO | WHOIS _ _ => VWHOIS | WHOWAS _ _ _ => VWHOWAS
  | KILL _ _ => VKILL | REHASH => VREHASH | RESTART => VRESTART | SQUIT _ _ => VSQUIT
  | AWAY _ => VAWAY | USERHOST _ => VUSERHOST | WALLOPS _ => VWALLOPS | ISON _ => VISON
  | DIE _ => VDIE
  end.

Inductive cmd_error :=
| UnknownCommand (name : str)
| UnknownSubcommand (v : verb) (sub : str)
| NeedMoreParams (v : verb)
| ParameterDoesntMatch (v : verb) (i : N)
| WrongParameter (v : verb) (i : N)
| UnknownMode (i : N) (c : N) (channel : str)
| UnknownUModeFlag (i : N)
| InvalidModeParam (target : str) (modechar : N) (param description : str).

Definition nth_opt {A} (l : list A) (n : nat) : option A := nth_error l n.

(* MODE: group the parameters after the target into (modestring, args) *)
Definition is_modestring (s : str) : bool := starts_with_c c_plus s || starts_with_c c_minus s.
Fixpoint group_modes (cur : str) (args_rev : list str) (ps : list str) : list (str * list str) :=
  match ps with
  | [] => [(cur, rev args_rev)]
  | p :: ps' => if is_modestring p then (cur, rev args_rev) :: group_modes p [] ps'
                else group_modes cur (p :: args_rev) ps'
  end.

Definition parse_command (m : message) : command + cmd_error :=
  let ps := m_params m in
  let up := to_ascii_upper (m_command m) in
  match verb_of_name up with
  | None => inr (UnknownCommand up)
  | Some v =>
    match v with
    | VCAP =>
        match ps with
        | [] => inr (NeedMoreParams VCAP)
        | p0 :: rest =>
            let u := to_ascii_upper p0 in
            if str_eqb u (lit "LS") then
              match rest with
              | [] => inl (CAP CapLS None None)
              | s :: _ => match parse_uint u32_max s with
                          | inl n => inl (CAP CapLS None (Some n))
                          | inr _ => inr (WrongParameter VCAP 1)
                          end
              end
            else if str_eqb u (lit "LIST") then inl (CAP CapLIST None None)
            else if str_eqb u (lit "REQ") then
              inl (CAP CapREQ (option_map words (nth_opt rest 0)) None)
            else if str_eqb u (lit "END") then inl (CAP CapEND None None)
            else inr (UnknownSubcommand VCAP p0)
        end
    | VAUTHENTICATE => inl AUTHENTICATE
    | VPASS => match ps with p :: _ => inl (PASS p) | [] => inr (NeedMoreParams VPASS) end
    | VNICK => match ps with p :: _ => inl (NICK p) | [] => inr (NeedMoreParams VNICK) end
    | VUSER => match ps with
               | a :: b :: c :: d :: _ => inl (USER a b c d)
               | _ => inr (NeedMoreParams VUSER)
               end
    | VPING => match ps with p :: _ => inl (PING p) | [] => inr (NeedMoreParams VPING) end
    | VPONG => match ps with p :: _ => inl (PONG p) | [] => inr (NeedMoreParams VPONG) end
    | VOPER => match ps with a :: b :: _ => inl (OPER a b) | _ => inr (NeedMoreParams VOPER) end
    | VQUIT => inl QUIT
    | VJOIN =>
        match ps with
        | [] => inr (NeedMoreParams VJOIN)
        | p0 :: rest =>
            let chans := split_on c_comma p0 in
            match rest with
            | [] => inl (JOIN chans None)
            | k :: _ => let keys := split_on c_comma k in
                        if Nat.eqb (length keys) (length chans) then inl (JOIN chans (Some keys))
                        else inr (ParameterDoesntMatch VJOIN 1)
            end
        end
    | VPART => match ps with
               | [] => inr (NeedMoreParams VPART)
               | p0 :: rest => inl (PART (split_on c_comma p0) (nth_opt rest 0))
               end
    | VTOPIC => match ps with
                | [] => inr (NeedMoreParams VTOPIC)
                | p0 :: rest => inl (TOPIC p0 (nth_opt rest 0))
                end
    | VNAMES => match ps with
                | [] => inl (NAMES [])
                | p0 :: _ => inl (NAMES (split_on c_comma p0))
                end
    | VLIST => match ps with
               | [] => inl (LIST [] None)
               | p0 :: rest => inl (LIST (split_on c_comma p0) (nth_opt rest 0))
               end
    | VINVITE => match ps with a :: b :: _ => inl (INVITE a b) | _ => inr (NeedMoreParams VINVITE) end
    | VKICK => match ps with
               | a :: b :: rest => inl (KICK a (split_on c_comma b) (nth_opt rest 0))
               | _ => inr (NeedMoreParams VKICK)
               end
    | VMOTD => inl (MOTD (nth_opt ps 0))
    | VVERSION => inl (VERSION (nth_opt ps 0))
    | VADMIN => inl (ADMIN (nth_opt ps 0))
    | VCONNECT =>
        match ps with
        | [] => inr (NeedMoreParams VCONNECT)
        | ts :: rest =>
            match rest with
            | [] => inl (CONNECT ts None None)
            | p :: rest' => match parse_uint u16_max p with
                            | inl n => inl (CONNECT ts (Some n) (nth_opt rest' 0))
                            | inr _ => inr (WrongParameter VCONNECT 1)
                            end
            end
        end
    | VLUSERS => inl LUSERS
    | VTIME => inl (TIME (nth_opt ps 0))
    | VSTATS =>
        match ps with
        | [] => inr (NeedMoreParams VSTATS)
        | q :: rest =>
            match q with
            | [c] => if N.ltb c 128 then inl (STATS c (nth_opt rest 0))
                     else inr (WrongParameter VSTATS 0)   (* query_str.len() == 1 counts bytes *)
            | _ => inr (WrongParameter VSTATS 0)
            end
        end
    | VLINKS =>
        match ps with
        | [a; b] => inl (LINKS (Some a) (Some b))
        | [a] => inl (LINKS None (Some a))
        | _ => inl (LINKS None None)
        end
    | VHELP => inl (HELP (nth_opt ps 0))
    | VINFO => inl INFO
    | VMODE =>
        match ps with
        | [] => inr (NeedMoreParams VMODE)
        | t :: rest =>
            match rest with
            | [] => inl (MODE t [])
            | s :: rest' => if is_modestring s then inl (MODE t (group_modes s [] rest'))
                            else inr (WrongParameter VMODE 1)
            end
        end
    | VPRIVMSG => match ps with
                  | a :: b :: _ => inl (PRIVMSG (split_on c_comma a) b)
                  | _ => inr (NeedMoreParams VPRIVMSG)
                  end
    | VNOTICE => match ps with
                 | a :: b :: _ => inl (NOTICE (split_on c_comma a) b)
                 | _ => inr (NeedMoreParams VNOTICE)
                 end
    | VWHO => match ps with p :: _ => inl (WHO p) | [] => inr (NeedMoreParams VWHO) end
    | VWHOIS => match ps with
                | [] => inr (NeedMoreParams VWHOIS)
                | [a] => inl (WHOIS None (split_on c_comma a))
                | a :: b :: _ => inl (WHOIS (Some a) (split_on c_comma b))
                end
    | VWHOWAS =>
        match ps with
        | [] => inr (NeedMoreParams VWHOWAS)
        | n :: rest =>
            match rest with
            | [] => inl (WHOWAS n None None)
            | c :: rest' => match parse_uint usize_max c with
                            | inl k => inl (WHOWAS n (Some k) (nth_opt rest' 0))
                            | inr _ => inr (WrongParameter VWHOWAS 1)
                            end
            end
        end
    | VKILL => match ps with a :: b :: _ => inl (KILL a b) | _ => inr (NeedMoreParams VKILL) end
    | VREHASH => inl REHASH
    | VRESTART => inl RESTART
    | VSQUIT => match ps with a :: b :: _ => inl (SQUIT a b) | _ => inr (NeedMoreParams VSQUIT) end
    | VAWAY => inl (AWAY (nth_opt ps 0))
    | VUSERHOST => match ps with [] => inr (NeedMoreParams VUSERHOST) | _ => inl (USERHOST ps) end
    | VWALLOPS => match ps with p :: _ => inl (WALLOPS p) | [] => inr (NeedMoreParams VWALLOPS) end
    | VISON => match ps with [] => inr (NeedMoreParams VISON) | _ => inl (ISON ps) end
    | VDIE => inl (DIE (nth_opt ps 0))
    end
  end.

(* ------------------------------------------------------------------ validation *)

Definition is_umode_char (c : N) : bool :=
  N.eqb c c_plus || N.eqb c c_minus || N.eqb c 105 (* i *) || N.eqb c 111 (* o *)
  || N.eqb c 79 (* O *) || N.eqb c 114 (* r *) || N.eqb c 119 (* w *).

Fixpoint validate_usermodes (idx : N) (modes : list (str * list str)) : option cmd_error :=
  match modes with
  | [] => None
  | (ms, margs) :: rest =>
      if is_empty ms then Some (WrongParameter VMODE idx)
      else if negb (forallb is_umode_char ms) then Some (UnknownUModeFlag idx)
      else if negb (is_empty margs) then Some (WrongParameter VMODE idx)
      else validate_usermodes (idx + 1) rest
  end.

Definition in_chars (c : N) (s : string) : bool := contains c (lit s).

(* the classes of channel-mode characters, as the two match statements over them distinguish *)
Inductive mclass := MPlus | MMinus | MListC | MRankC | MLimitC | MKeyC | MFlagC | MOtherC.
Definition classify_mode (c : N) : mclass :=
  if N.eqb c c_plus then MPlus
  else if N.eqb c c_minus then MMinus
  else if in_chars c "beI" then MListC
  else if in_chars c "ovhqa" then MRankC
  else if N.eqb c 108 (* l *) then MLimitC
  else if N.eqb c 107 (* k *) then MKeyC
  else if in_chars c "imtns" then MFlagC
  else MOtherC.

(* the closure over ms.chars() with the shared argument iterator *)
Fixpoint vcm_chars (target : str) (idx : N) (cs : str) (mode_set : bool) (args : list str)
  : option cmd_error :=
  match cs with
  | [] => None
  | c :: cs' =>
      match classify_mode c with
      | MPlus => vcm_chars target idx cs' true args
      | MMinus => vcm_chars target idx cs' false args
      | MListC => vcm_chars target idx cs' mode_set (tl args)
      | MRankC =>
          match args with
          | a :: args' =>
              match validate_username_e a with
              | None => vcm_chars target idx cs' mode_set args'
              | Some e => Some (InvalidModeParam target c a (uname_err_text e))
              end
          | [] => Some (InvalidModeParam target c [] (lit "No argument"))
          end
      | MLimitC =>
          if mode_set then
            match args with
            | a :: args' =>
                match parse_uint usize_max a with
                | inl _ => vcm_chars target idx cs' mode_set args'
                | inr e => Some (InvalidModeParam target c a (parse_err_text e))
                end
            | [] => Some (InvalidModeParam target c [] (lit "No argument"))
            end
          else match args with
               | a :: _ => Some (InvalidModeParam target c a (lit "Unexpected argument"))
               | [] => vcm_chars target idx cs' mode_set args
               end
      | MKeyC =>
          if mode_set then
            match args with
            | _ :: args' => vcm_chars target idx cs' mode_set args'
            | [] => Some (InvalidModeParam target c [] (lit "No argument"))
            end
          else match args with
               | a :: _ => Some (InvalidModeParam target c a (lit "Unexpected argument"))
               | [] => vcm_chars target idx cs' mode_set args
               end
      | MFlagC => vcm_chars target idx cs' mode_set args
      | MOtherC => Some (UnknownMode idx c target)
      end
  end.

Fixpoint validate_channelmodes (target : str) (idx : N) (modes : list (str * list str))
  : option cmd_error :=
  match modes with
  | [] => None
  | (ms, margs) :: rest =>
      if is_empty ms then Some (WrongParameter VMODE idx)
      else match vcm_chars target idx ms false margs with
           | Some e => Some e
           | None => validate_channelmodes target (idx + N.of_nat (length margs) + 1) rest
           end
  end.

Definition first_err {A} (f : A -> bool) (e : cmd_error) (l : list A) : option cmd_error :=
  if forallb f l then None else Some e.

Fixpoint userhost_check (i : N) (l : list str) : option cmd_error :=
  match l with
  | [] => None
  | n :: l' => if validate_username n then userhost_check (i + 1) l'
               else Some (WrongParameter VUSERHOST i)
  end.

Definition opt_ok (f : str -> bool) (o : option str) : bool :=
  match o with Some s => f s | None => true end.

Definition validate_command (c : command) : option cmd_error :=
  match c with
  | CAP _ _ (Some v) => if N.ltb v 302 then Some (WrongParameter VCAP 1) else None
  | NICK n => if validate_username n then None else Some (WrongParameter VNICK 0)
  | USER u _ _ _ => if validate_username u then None else Some (WrongParameter VUSER 0)
  | OPER n _ => if validate_username n then None else Some (WrongParameter VOPER 0)
  | JOIN chans _ => first_err validate_channel (WrongParameter VJOIN 0) chans
  | PART chans _ => first_err validate_channel (WrongParameter VPART 0) chans
  | TOPIC ch _ => if validate_channel ch then None else Some (WrongParameter VTOPIC 0)
  | NAMES chans => first_err validate_channel (WrongParameter VNAMES 0) chans
  | LIST chans server =>
      if negb (forallb validate_channel chans) then Some (WrongParameter VLIST 0)
      else if opt_ok validate_server server then None else Some (WrongParameter VLIST 1)
  | INVITE n ch =>
      if negb (validate_username n) then Some (WrongParameter VINVITE 0)
      else if validate_channel ch then None else Some (WrongParameter VINVITE 1)
  | KICK ch users _ =>
      if negb (validate_channel ch) then Some (WrongParameter VKICK 0)
      else first_err validate_username (WrongParameter VKICK 1) users
  | MOTD t => if opt_ok validate_server_mask t then None else Some (WrongParameter VMOTD 0)
  | VERSION t => if opt_ok validate_server_mask t then None else Some (WrongParameter VVERSION 0)
  | ADMIN t => if opt_ok validate_server_mask t then None else Some (WrongParameter VADMIN 0)
  | CONNECT ts _ rs =>
      if negb (validate_server ts) then Some (WrongParameter VCONNECT 0)
      else if opt_ok validate_server rs then None else Some (WrongParameter VCONNECT 1)
  | TIME s => if opt_ok validate_server s then None else Some (WrongParameter VTIME 0)
  | STATS q s =>
      if in_chars q "chiklmouy" then
        (if opt_ok validate_server s then None else Some (WrongParameter VSTATS 1))
      else Some (WrongParameter VSTATS 0)
  | LINKS rs sm =>
      match rs with
      | Some s => if negb (validate_server s) then Some (WrongParameter VLINKS 0)
                  else if opt_ok validate_server_mask sm then None
                  else Some (WrongParameter VLINKS 1)
      | None => if opt_ok validate_server_mask sm then None else Some (WrongParameter VLINKS 0)
      end
  | MODE target modes =>
      if validate_channel target then validate_channelmodes target 1 modes
      else if validate_username target then validate_usermodes 1 modes
      else Some (WrongParameter VMODE 0)
  | PRIVMSG targets _ =>
      first_err (fun n => validate_username n || validate_prefixed_channel n)
                (WrongParameter VPRIVMSG 0) targets
  | NOTICE targets _ =>
      first_err (fun n => validate_username n || validate_prefixed_channel n)
                (WrongParameter VNOTICE 0) targets
  | WHOIS target masks =>
      match target with
      | Some t => if negb (validate_server t) then Some (WrongParameter VWHOIS 0)
                  else first_err validate_username (WrongParameter VWHOIS 1) masks
      | None => first_err validate_username (WrongParameter VWHOIS 0) masks
      end
  | WHOWAS n _ s =>
      if negb (validate_username n) then Some (WrongParameter VWHOWAS 0)
      else if opt_ok validate_server s then None else Some (WrongParameter VWHOWAS 2)
  | KILL n _ => if validate_username n then None else Some (WrongParameter VKILL 0)
  | SQUIT s _ => if validate_server s then None else Some (WrongParameter VSQUIT 0)
  | USERHOST ns => userhost_check 0 ns
  | _ => None
  end.

(* Command::from_message *)
Definition command_of_message (m : message) : command + cmd_error :=
  match parse_command m with
  | inl c => match validate_command c with None => inl c | Some e => inr e end
  | inr e => inr e
  end.

(* Display for CommandError (used in "ERROR :..." replies) *)
Definition cmd_error_text (e : cmd_error) : str :=
  match e with
  | UnknownCommand s => lit "Unknown command '" ++ s ++ lit "'"
  | UnknownSubcommand v s =>
      lit "Unknown subcommand '" ++ s ++ lit "' in command '" ++ verb_name v ++ lit "'"
  | NeedMoreParams v => lit "Command '" ++ verb_name v ++ lit "' needs more parameters"
  | ParameterDoesntMatch v i =>
      lit "Parameter " ++ dec i ++ lit " doesn't match for command '" ++ verb_name v ++ lit "'"
  | WrongParameter v i =>
      lit "Wrong parameter " ++ dec i ++ lit " in command '" ++ verb_name v ++ lit "'"
  | UnknownMode i c chn =>
      lit "Unknown mode " ++ [c] ++ lit " in parameter " ++ dec i ++ lit " for " ++ chn
  | UnknownUModeFlag i => lit "Unknown umode flag in parameter " ++ dec i
  | InvalidModeParam t c p d =>
      lit "Invalid mode parameter: " ++ t ++ [c_space; c] ++ (c_space :: p) ++ (c_space :: d)
  end.
