(* Mask.v - model of utils.rs normalize_sourcemask *)
From IRC Require Import Str.
Open Scope N_scope.

Definition normalize_mask (m : str) : str :=
  match split_first c_excl m with
  | (_, Some after) =>
      if contains c_at after then m else m ++ lit "@*"
  | (_, None) =>
      match split_first c_at m with
      | (before, Some after) => before ++ lit "!*" ++ (c_at :: after)
      | (_, None) => m ++ lit "!*@*"
      end
  end.
