(* Config.v - model of the start-up validation in config.rs: MainConfig::new applies the
   command-line overrides, checks that the TLS certificate and key are given together, runs the
   derived validators (server name contains '.', password hashes are canonical unpadded base64 of
   64 bytes, user / operator / channel names pass the name validators) and validate_nicknames.
   TOML syntax, the types of the fields and the presence of mandatory fields are serde's and
   outside the model.  No proofs. *)
From IRC Require Import Str Parse.
Open Scope N_scope.

(* password_hash::Output::b64_decode (unpadded standard alphabet, canonical) + length 64 bytes *)
Definition b64_val (c : N) : option N :=
  if N.leb 65 c && N.leb c 90 then Some (c - 65)
  else if N.leb 97 c && N.leb c 122 then Some (c - 97 + 26)
  else if N.leb 48 c && N.leb c 57 then Some (c - 48 + 52)
  else if N.eqb c 43 then Some 62
  else if N.eqb c 47 then Some 63
  else None.

Definition is_b64 (c : N) : bool := match b64_val c with Some _ => true | None => false end.

Definition valid_hash (s : str) : bool :=
  Nat.eqb (length s) 86 && forallb is_b64 s &&
  match b64_val (last s 0) with Some v => N.eqb (N.modulo v 16) 0 | None => false end.

(* str::len of a UTF-8 string *)
Definition utf8_len_c (c : N) : N := if N.ltb c 128 then 1 else if N.ltb c 2048 then 2 else if N.ltb c 65536 then 3 else 4.
Definition utf8_len (s : str) : N := fold_right (fun c n => utf8_len_c c + n) 0 s.

Record rawoper := { ro_name : str; ro_password : str }.
Record rawuser := { ru_name : str; ru_nick : str; ru_password : option str }.
Record rawcfg := { rw_name : str; rw_password : option str;
                   rw_opers : list rawoper; rw_users : list rawuser; rw_chans : list str }.
(* the command-line options that take part: --name, --tls-cert-file, --tls-cert-key-file *)
Record rawcli := { cl_name : option str; cl_cert : bool; cl_key : bool }.

Definition opt_ok' {A} (f : A -> bool) (o : option A) : bool := match o with Some x => f x | None => true end.

Definition oper_ok (o : rawoper) : bool := validate_username (ro_name o) && valid_hash (ro_password o).
Definition user_ok (u : rawuser) : bool :=
  validate_username (ru_name u) && validate_username (ru_nick u) && opt_ok' valid_hash (ru_password u)
  && N.leb (utf8_len (ru_nick u)) 200.

Definition effective_name (r : rawcfg) (c : rawcli) : str := match cl_name c with Some n => n | None => rw_name r end.

Definition config_accept (r : rawcfg) (c : rawcli) : bool :=
  Bool.eqb (cl_cert c) (cl_key c)
  && contains c_dot (effective_name r c)
  && opt_ok' valid_hash (rw_password r)
  && forallb oper_ok (rw_opers r)
  && forallb user_ok (rw_users r)
  && forallb validate_channel (rw_chans r).
