(* Wild.v - model of utils.rs match_wildcard / starts_single_wilcards (character based).
   The Rust loop walks the pattern segment by segment ('*' separated); the recursion here is
   over the list of segments, with the three branches of the loop body:
   first segment (prefix), middle segment (leftmost occurrence), last segment (suffix). *)
From IRC Require Import Str.
Open Scope N_scope.

(* pattern.len() <= text.len() && all positions equal or '?' *)
Fixpoint starts_single (p t : str) : bool :=
  match p, t with
  | [], _ => true
  | c :: p', d :: t' => (N.eqb c c_qmark || N.eqb c d) && starts_single p' t'
  | _ :: _, [] => false
  end.

(* the '*'-separated segments of a pattern; never empty *)
Definition segments (p : str) : list str := split_on c_star p.

(* leftmost i with starts_single m t[i..]; result is t[i+len m..] *)
Fixpoint find_seg (m t : str) : option str :=
  if starts_single m t then Some (skipn (length m) t)
  else match t with
       | [] => None
       | _ :: t' => find_seg m t'
       end.

(* segments after the first '*' *)
Fixpoint wm_rest (segs : list str) (t : str) : bool :=
  match segs with
  | [] => true
  | [m] =>
      (* last segment, no '*' behind it: empty means the pattern ends with '*' *)
      if is_empty m then true
      else Nat.leb (length m) (length t)
           && starts_single m (skipn (length t - length m) t)
  | m :: rest =>
      if is_empty m then wm_rest rest t
      else match find_seg m t with
           | Some t' => wm_rest rest t'
           | None => false
           end
  end.

Definition wild_match (p t : str) : bool :=
  match segments p with
  | [] => is_empty t
  | [m] => starts_single m t && Nat.eqb (length m) (length t)
  | m :: rest => starts_single m t && wm_rest rest (skipn (length m) t)
  end.
