(* Export.v - monomorphic entry points used by the OCaml driver (extract/driver.ml). *)
From stdpp Require Import gmap.
From IRC Require Import Str Wild Glob Mask Parse Reply State Handlers Step Config Keepalive Frame.
Open Scope N_scope.

Definition users_l (s : shared) : list (str * user) := map_to_list (users s).
Definition chans_l (s : shared) : list (str * chan) := map_to_list (chans s).
Definition hist_l (s : shared) : list (str * list histentry) := map_to_list (histories s).
Definition set_l (x : gset str) : list str := elements x.
Definition baninfo_l (c : chan) : list (str * str) := map_to_list (ch_baninfo c).
Definition members_l (c : chan) : list (str * rank) := map_to_list (ch_users c).
Definition conns_l (w : world) : list (nat * conn) := map_to_list (conns w).
Definition set_of_list (l : list str) : gset str := list_to_set l.
Definition tokenize_x := tokenize.
Definition command_of_message_x := command_of_message.
Definition to_string_with_source_x := to_string_with_source.
Definition wild_match_x := wild_match.
Definition glob_x := glob.
Definition normalize_mask_x := normalize_mask.
Definition target_type_x := target_type.
Definition step_x := step.
Definition world_init_x := world_init.
Definition validate_username_x := validate_username.
Definition validate_channel_x := validate_channel.
Definition validate_source_x := validate_source.
Definition validate_server_x := validate_server.
Definition validate_server_mask_x := validate_server_mask.
Definition validate_prefixed_channel_x := validate_prefixed_channel.
Definition cmd_error_reply_x := cmd_error_reply.
Definition config_accept_x := config_accept.
Definition valid_hash_x := valid_hash.
Definition ka_run_x := ka_run.
Definition feed_x := feed.
Definition encode_x := encode.
