(* State.v - model of config.rs data, state/structs.rs data and their primitive operations.
   Model layer L2 (std++ maps and sets), no proofs. *)
From stdpp Require Import gmap.
From IRC Require Import Str Wild Mask Parse.
Open Scope N_scope.

Global Instance str_eq_dec : EqDecision str := _.
Global Instance str_countable : Countable str := _.

(* ------------------------------------------------------------------ outcome of a handler *)
Inductive panic_site :=
| P_unwrap_user          (* users.get(nick).unwrap() on a nick that is not registered *)
| P_unwrap_channel       (* channels.get(name).unwrap() on an absent channel *)
| P_unwrap_member        (* Channel rank helper / rename on a nick that is not a member *)
| P_counter_underflow    (* usize counter decremented at zero *)
| P_lusers_underflow     (* users.len() - invisible_users_count *)
| P_sender_taken         (* conn sender / quit_sender taken twice *)
| P_mode_arg             (* margs_it.next().unwrap() with no argument left *)
| P_join_key_index       (* keys[i] *)
| P_mode_limit_parse.    (* arg.parse::<usize>().unwrap() *)

Inductive res (A : Type) := Ok (a : A) | Panic (p : panic_site).
Arguments Ok {A} a.
Arguments Panic {A} p.
Definition rbind {A B} (r : res A) (f : A -> res B) : res B :=
  match r with Ok a => f a | Panic p => Panic p end.
Notation "'let!' x ':=' e 'in' k" := (rbind e (fun x => k))
  (at level 200, x pattern, e at level 100, k at level 200).

Fixpoint rfold {A B} (f : B -> A -> res B) (l : list A) (b : B) : res B :=
  match l with
  | [] => Ok b
  | x :: l' => let! b' := f b x in rfold f l' b'
  end.

(* ------------------------------------------------------------------ config.rs *)
Record umodes := { um_invisible : bool; um_oper : bool; um_local_oper : bool;
                   um_registered : bool; um_wallops : bool }.
Definition is_local_oper (m : umodes) : bool := um_local_oper m || um_oper m.
Definition umodes_str (m : umodes) : str :=
  c_plus :: (if um_invisible m then lit "i" else []) ++ (if um_oper m then lit "o" else [])
  ++ (if um_local_oper m then lit "O" else []) ++ (if um_registered m then lit "r" else [])
  ++ (if um_wallops m then lit "w" else []).

Record cmodes := {
  cm_ban : gset str; cm_exception : gset str; cm_limit : option N; cm_invex : gset str;
  cm_key : option str;
  cm_operators : gset str; cm_half_operators : gset str; cm_voices : gset str;
  cm_founders : gset str; cm_protecteds : gset str;
  cm_invite_only : bool; cm_moderated : bool; cm_secret : bool; cm_protected_topic : bool;
  cm_noext : bool }.

Definition cmodes_default : cmodes :=
  {| cm_ban := ∅; cm_exception := ∅; cm_limit := None; cm_invex := ∅; cm_key := None;
     cm_operators := ∅; cm_half_operators := ∅; cm_voices := ∅; cm_founders := ∅;
     cm_protecteds := ∅; cm_invite_only := false; cm_moderated := false; cm_secret := false;
     cm_protected_topic := false; cm_noext := false |}.

Definition is_Some_b {A} (o : option A) : bool := match o with Some _ => true | None => false end.

Definition set_any (f : str -> bool) (s : gset str) : bool := existsb f (elements s).

(* ChannelModes::banned *)
Definition banned (m : cmodes) (source : str) : bool :=
  set_any (fun b => wild_match b source) (cm_ban m)
  && negb (set_any (fun e => wild_match e source) (cm_exception m)).

(* Display for ChannelModes *)
Definition list_entries (tag : string) (s : gset str) : str :=
  concat (List.map (fun x => lit tag ++ x) (elements s)).
Definition cmodes_str (m : cmodes) : str :=
  c_plus :: (if cm_invite_only m then lit "i" else []) ++ (if cm_moderated m then lit "m" else [])
  ++ (if cm_secret m then lit "s" else []) ++ (if cm_protected_topic m then lit "t" else [])
  ++ (if cm_noext m then lit "n" else [])
  ++ (match cm_key m with Some _ => lit "k" | None => [] end)
  ++ (match cm_limit m with Some _ => lit "l" | None => [] end)
  ++ (match cm_key m with Some k => c_space :: k | None => [] end)
  ++ (match cm_limit m with Some l => c_space :: dec l | None => [] end)
  ++ list_entries " +b " (cm_ban m) ++ list_entries " +e " (cm_exception m)
  ++ list_entries " +I " (cm_invex m) ++ list_entries " +q " (cm_founders m)
  ++ list_entries " +a " (cm_protecteds m) ++ list_entries " +o " (cm_operators m)
  ++ list_entries " +h " (cm_half_operators m) ++ list_entries " +v " (cm_voices m).

Record opercfg := { oc_name : str; oc_password : str; oc_mask : option str }.
Record usercfg := { uc_name : str; uc_nick : str; uc_password : option str; uc_mask : option str }.
Record chancfg := { cc_name : str; cc_topic : option str; cc_modes : cmodes }.

Record config := {
  cfg_name : str; cfg_admin_info : str; cfg_admin_info2 : option str;
  cfg_admin_email : option str; cfg_info : str; cfg_motd : str; cfg_network : str;
  cfg_password : option str; cfg_max_connections : option N; cfg_max_joins : option N;
  cfg_ping_timeout : N; cfg_pong_timeout : N; cfg_default_umodes : umodes;
  cfg_operators : list opercfg; cfg_users : list usercfg; cfg_channels : list chancfg;
  cfg_pkg_name : str; cfg_pkg_version : str }.

(* HashMap built by inserting in order: the last entry with a name wins *)
Definition find_last {A} (f : A -> bool) (l : list A) : option A := List.find f (rev l).
Definition find_usercfg (cfg : config) (name : str) : option usercfg :=
  find_last (fun u => str_eqb (uc_name u) name) (cfg_users cfg).
Definition find_opercfg (cfg : config) (name : str) : option opercfg :=
  find_last (fun o => str_eqb (oc_name o) name) (cfg_operators cfg).
Definition version_str (cfg : config) : str := cfg_pkg_name cfg ++ lit "-" ++ cfg_pkg_version cfg.

(* ------------------------------------------------------------------ structs.rs *)
Record rank := { r_founder : bool; r_protected : bool; r_voice : bool; r_operator : bool;
                 r_half : bool }.
Definition rank_none : rank := {| r_founder := false; r_protected := false; r_voice := false;
                                  r_operator := false; r_half := false |}.
Definition rank_creator : rank := {| r_founder := true; r_protected := false; r_voice := false;
                                     r_operator := true; r_half := false |}.
Definition rk_is_protected r := r_founder r || r_protected r.
Definition rk_is_operator r := r_founder r || r_protected r || r_operator r.
Definition rk_is_half_operator r := r_founder r || r_protected r || r_operator r || r_half r.
Definition rk_is_only_half_operator r :=
  negb (r_founder r) && negb (r_protected r) && negb (r_operator r) && r_half r.
Definition rk_is_voice r :=
  r_founder r || r_protected r || r_operator r || r_half r || r_voice r.

(* ChannelUserModes::to_string(caps) *)
Definition rank_prefix (multi : bool) (r : rank) : str :=
  let s0 := if r_founder r then lit "~" else [] in
  let s1 := if (multi || is_empty s0) && r_protected r then s0 ++ lit "&" else s0 in
  let s2 := if (multi || is_empty s1) && r_operator r then s1 ++ lit "@" else s1 in
  let s3 := if (multi || is_empty s2) && r_half r then s2 ++ lit "%" else s2 in
  if (multi || is_empty s3) && r_voice r then s3 ++ lit "+" else s3.

Record rankcfg := { d_operators : gset str; d_half_operators : gset str; d_voices : gset str;
                    d_founders : gset str; d_protecteds : gset str }.
Definition rankcfg_empty : rankcfg :=
  {| d_operators := ∅; d_half_operators := ∅; d_voices := ∅; d_founders := ∅;
     d_protecteds := ∅ |}.

Record chan := {
  ch_topic : option (str * str);         (* text, nick *)
  ch_modes : cmodes;
  ch_default : rankcfg;
  ch_baninfo : gmap str str;             (* mask -> who *)
  ch_users : gmap str rank;
  ch_preconf : bool }.

Definition histentry : Type := (str * str * str)%type.   (* username, hostname, realname *)

Record user := {
  u_conn : nat;                          (* the connection holding the receiving end *)
  u_host : str; u_name : str; u_real : str; u_source : str;
  u_modes : umodes; u_away : option str;
  u_chans : gset str; u_invited : gset str;
  u_kill : option (str * str);           (* quit_sender taken: (killer, comment) pending *)
  u_hist : histentry }.

Record shared := {
  users : gmap str user; chans : gmap str chan; wallops : gset str;
  inv_count : N; op_count : N; max_users : N;
  histories : gmap str (list histentry);
  server_quit : bool }.

Record conn := {
  c_host : str; c_name : option str; c_real : option str; c_nick : option str;
  c_source : str; c_pass : option str; c_auth : bool; c_registered : bool;
  c_capneg : bool; c_multi : bool; c_secure : bool;
  c_sender_taken : bool;                 (* sender and quit_sender moved into a User *)
  c_pong_pending : bool }.

Record world := { sh : shared; conns : gmap nat conn; nconns : N }.

(* ---- record updates *)
Definition set_users f (s : shared) : shared :=
  {| users := f (users s); chans := chans s; wallops := wallops s; inv_count := inv_count s;
     op_count := op_count s; max_users := max_users s; histories := histories s;
     server_quit := server_quit s |}.
Definition set_chans f (s : shared) : shared :=
  {| users := users s; chans := f (chans s); wallops := wallops s; inv_count := inv_count s;
     op_count := op_count s; max_users := max_users s; histories := histories s;
     server_quit := server_quit s |}.
Definition set_wallops f (s : shared) : shared :=
  {| users := users s; chans := chans s; wallops := f (wallops s); inv_count := inv_count s;
     op_count := op_count s; max_users := max_users s; histories := histories s;
     server_quit := server_quit s |}.
Definition set_inv_count n (s : shared) : shared :=
  {| users := users s; chans := chans s; wallops := wallops s; inv_count := n;
     op_count := op_count s; max_users := max_users s; histories := histories s;
     server_quit := server_quit s |}.
Definition set_op_count n (s : shared) : shared :=
  {| users := users s; chans := chans s; wallops := wallops s; inv_count := inv_count s;
     op_count := n; max_users := max_users s; histories := histories s;
     server_quit := server_quit s |}.
Definition set_max_users n (s : shared) : shared :=
  {| users := users s; chans := chans s; wallops := wallops s; inv_count := inv_count s;
     op_count := op_count s; max_users := n; histories := histories s;
     server_quit := server_quit s |}.
Definition set_histories f (s : shared) : shared :=
  {| users := users s; chans := chans s; wallops := wallops s; inv_count := inv_count s;
     op_count := op_count s; max_users := max_users s; histories := f (histories s);
     server_quit := server_quit s |}.
Definition set_server_quit b (s : shared) : shared :=
  {| users := users s; chans := chans s; wallops := wallops s; inv_count := inv_count s;
     op_count := op_count s; max_users := max_users s; histories := histories s;
     server_quit := b |}.

Definition u_set_modes m (u : user) : user :=
  {| u_conn := u_conn u; u_host := u_host u; u_name := u_name u; u_real := u_real u;
     u_source := u_source u; u_modes := m; u_away := u_away u; u_chans := u_chans u;
     u_invited := u_invited u; u_kill := u_kill u; u_hist := u_hist u |}.
Definition u_set_away a (u : user) : user :=
  {| u_conn := u_conn u; u_host := u_host u; u_name := u_name u; u_real := u_real u;
     u_source := u_source u; u_modes := u_modes u; u_away := a; u_chans := u_chans u;
     u_invited := u_invited u; u_kill := u_kill u; u_hist := u_hist u |}.
Definition u_set_chans f (u : user) : user :=
  {| u_conn := u_conn u; u_host := u_host u; u_name := u_name u; u_real := u_real u;
     u_source := u_source u; u_modes := u_modes u; u_away := u_away u; u_chans := f (u_chans u);
     u_invited := u_invited u; u_kill := u_kill u; u_hist := u_hist u |}.
Definition u_set_invited f (u : user) : user :=
  {| u_conn := u_conn u; u_host := u_host u; u_name := u_name u; u_real := u_real u;
     u_source := u_source u; u_modes := u_modes u; u_away := u_away u; u_chans := u_chans u;
     u_invited := f (u_invited u); u_kill := u_kill u; u_hist := u_hist u |}.
Definition u_set_kill k (u : user) : user :=
  {| u_conn := u_conn u; u_host := u_host u; u_name := u_name u; u_real := u_real u;
     u_source := u_source u; u_modes := u_modes u; u_away := u_away u; u_chans := u_chans u;
     u_invited := u_invited u; u_kill := k; u_hist := u_hist u |}.
Definition u_set_source s (u : user) : user :=
  {| u_conn := u_conn u; u_host := u_host u; u_name := u_name u; u_real := u_real u;
     u_source := s; u_modes := u_modes u; u_away := u_away u; u_chans := u_chans u;
     u_invited := u_invited u; u_kill := u_kill u; u_hist := u_hist u |}.

Definition ch_set_topic t (c : chan) : chan :=
  {| ch_topic := t; ch_modes := ch_modes c; ch_default := ch_default c;
     ch_baninfo := ch_baninfo c; ch_users := ch_users c; ch_preconf := ch_preconf c |}.
Definition ch_set_modes m (c : chan) : chan :=
  {| ch_topic := ch_topic c; ch_modes := m; ch_default := ch_default c;
     ch_baninfo := ch_baninfo c; ch_users := ch_users c; ch_preconf := ch_preconf c |}.
Definition ch_set_baninfo f (c : chan) : chan :=
  {| ch_topic := ch_topic c; ch_modes := ch_modes c; ch_default := ch_default c;
     ch_baninfo := f (ch_baninfo c); ch_users := ch_users c; ch_preconf := ch_preconf c |}.
Definition ch_set_users f (c : chan) : chan :=
  {| ch_topic := ch_topic c; ch_modes := ch_modes c; ch_default := ch_default c;
     ch_baninfo := ch_baninfo c; ch_users := f (ch_users c); ch_preconf := ch_preconf c |}.

(* the five rank lists of ChannelModes, addressed by letter *)
Inductive rankletter := RQ | RA | RO | RH | RV.
Definition cm_get_rankset (l : rankletter) (m : cmodes) : gset str :=
  match l with RQ => cm_founders m | RA => cm_protecteds m | RO => cm_operators m
             | RH => cm_half_operators m | RV => cm_voices m end.
Definition cm_set_rankset (l : rankletter) (f : gset str -> gset str) (m : cmodes) : cmodes :=
  {| cm_ban := cm_ban m; cm_exception := cm_exception m; cm_limit := cm_limit m;
     cm_invex := cm_invex m; cm_key := cm_key m;
     cm_operators := (match l with RO => f | _ => id end) (cm_operators m);
     cm_half_operators := (match l with RH => f | _ => id end) (cm_half_operators m);
     cm_voices := (match l with RV => f | _ => id end) (cm_voices m);
     cm_founders := (match l with RQ => f | _ => id end) (cm_founders m);
     cm_protecteds := (match l with RA => f | _ => id end) (cm_protecteds m);
     cm_invite_only := cm_invite_only m; cm_moderated := cm_moderated m;
     cm_secret := cm_secret m; cm_protected_topic := cm_protected_topic m;
     cm_noext := cm_noext m |}.
Definition rank_get (l : rankletter) (r : rank) : bool :=
  match l with RQ => r_founder r | RA => r_protected r | RO => r_operator r
             | RH => r_half r | RV => r_voice r end.
Definition rank_set (l : rankletter) (b : bool) (r : rank) : rank :=
  {| r_founder := match l with RQ => b | _ => r_founder r end;
     r_protected := match l with RA => b | _ => r_protected r end;
     r_voice := match l with RV => b | _ => r_voice r end;
     r_operator := match l with RO => b | _ => r_operator r end;
     r_half := match l with RH => b | _ => r_half r end |}.
Definition all_rankletters := [RO; RH; RQ; RV; RA].

Definition d_get (l : rankletter) (d : rankcfg) : gset str :=
  match l with RQ => d_founders d | RA => d_protecteds d | RO => d_operators d
             | RH => d_half_operators d | RV => d_voices d end.

(* Channel::add_operator / remove_operator and their four siblings:
   the list is updated first, then users.get_mut(nick).unwrap() *)
Definition chan_set_rank (l : rankletter) (b : bool) (nick : str) (c : chan) : res chan :=
  let c1 := ch_set_modes (cm_set_rankset l (fun s => if b then {[nick]} ∪ s else s ∖ {[nick]})
                                         (ch_modes c)) c in
  match ch_users c !! nick with
  | Some r => Ok (ch_set_users (fun us => <[nick := rank_set l b r]> us) c1)
  | None => Panic P_unwrap_member
  end.

(* Channel::new_on_user_join *)
Definition chan_new (nick : str) : chan :=
  {| ch_topic := None;
     ch_modes := cm_set_rankset RO (fun _ => {[nick]})
                  (cm_set_rankset RQ (fun _ => {[nick]}) cmodes_default);
     ch_default := rankcfg_empty; ch_baninfo := ∅; ch_users := {[nick := rank_creator]};
     ch_preconf := false |}.

(* Channel::add_user: default ranks for the nick, then insert *)
Definition chan_add_user (nick : str) (c : chan) : chan :=
  let step (acc : cmodes * rank) (l : rankletter) :=
    if bool_decide (nick ∈ d_get l (ch_default c))
    then (cm_set_rankset l (fun s => {[nick]} ∪ s) acc.1, rank_set l true acc.2) else acc in
  let '(m, r) := fold_left step [RH; RO; RQ; RV; RA] (ch_modes c, rank_none) in
  ch_set_users (fun us => <[nick := r]> us) (ch_set_modes m c).

(* ChannelModes::rename_user + Channel::rename_user *)
Definition rename_in_set (old new : str) (s : gset str) : gset str :=
  if bool_decide (old ∈ s) then {[new]} ∪ (s ∖ {[old]}) else s.
Definition cmodes_rename (old new : str) (m : cmodes) : cmodes :=
  fold_left (fun m l => cm_set_rankset l (rename_in_set old new) m) all_rankletters m.
Definition chan_rename_user (old new : str) (c : chan) : res chan :=
  match ch_users c !! old with
  | None => Panic P_unwrap_member
  | Some r => Ok (ch_set_modes (cmodes_rename old new (ch_modes c))
                    (ch_set_users (fun us => <[new := r]> (delete old us)) c))
  end.

(* Channel::remove_user *)
Definition chan_remove_user (nick : str) (c : chan) : res chan :=
  let! c1 := rfold (fun c l => chan_set_rank l false nick c) all_rankletters c in
  Ok (ch_set_users (delete nick) c1).

(* checked usize decrement *)
Definition dec_counter (n : N) : res N :=
  if N.eqb n 0 then Panic P_counter_underflow else Ok (n - 1).

(* VolatileState::add_user *)
Definition st_add_user (nick : str) (u : user) (s : shared) : shared :=
  let s1 := if um_invisible (u_modes u) then set_inv_count (inv_count s + 1) s else s in
  let s2 := if um_wallops (u_modes u) then set_wallops (fun w => {[nick]} ∪ w) s1 else s1 in
  let s3 := if is_local_oper (u_modes u) then set_op_count (op_count s2 + 1) s2 else s2 in
  let s4 := set_users (fun us => <[nick := u]> us) s3 in
  let n := N.of_nat (size (users s4)) in
  if N.ltb (max_users s4) n then set_max_users n s4 else s4.

(* VolatileState::remove_user_from_channel *)
Definition st_remove_user_from_channel (channel nick : str) (s : shared) : res shared :=
  let! s1 :=
    match chans s !! channel with
    | Some c =>
        let! c' := chan_remove_user nick c in
        if Nat.eqb (size (ch_users c')) 0 && negb (ch_preconf c')
        then Ok (set_chans (delete channel) s)
        else Ok (set_chans (fun cs => <[channel := c']> cs) s)
    | None => Ok s
    end in
  match users s1 !! nick with
  | Some u => Ok (set_users (fun us => <[nick := u_set_chans (fun cs => cs ∖ {[channel]}) u]> us) s1)
  | None => Ok s1
  end.

(* VolatileState::insert_to_nick_history *)
Definition st_insert_history (nick : str) (e : histentry) (s : shared) : shared :=
  set_histories (fun h => <[nick := default [] (h !! nick) ++ [e]]> h) s.

(* VolatileState::remove_user *)
Definition st_remove_user (nick : str) (s : shared) : res shared :=
  match users s !! nick with
  | None => Ok s
  | Some u =>
      let s0 := set_users (delete nick) s in
      let! s1 := if is_local_oper (u_modes u)
                 then (let! n := dec_counter (op_count s0) in Ok (set_op_count n s0)) else Ok s0 in
      let! s2 := if um_invisible (u_modes u)
                 then (let! n := dec_counter (inv_count s1) in Ok (set_inv_count n s1)) else Ok s1 in
      let s3 := set_wallops (fun w => w ∖ {[nick]}) s2 in
      let! s4 := rfold (fun s ch => st_remove_user_from_channel ch nick s)
                       (elements (u_chans u)) s3 in
      Ok (st_insert_history nick (u_hist u) s4)
  end.

(* ConnUserState *)
Definition client_name (c : conn) : str :=
  match c_nick c with
  | Some n => n
  | None => match c_name c with Some n => n | None => c_host c end
  end.
Definition make_source (nick name : option str) (host : str) : str :=
  (match nick with Some n => n ++ [c_excl] | None => [] end)
  ++ (match name with Some n => c_tilde :: n | None => [] end)
  ++ (c_at :: host).

Definition conn_new (host : str) (secure : bool) : conn :=
  {| c_host := host; c_name := None; c_real := None; c_nick := None;
     c_source := c_at :: host; c_pass := None; c_auth := false; c_registered := false;
     c_capneg := false; c_multi := false; c_secure := secure; c_sender_taken := false;
     c_pong_pending := false |}.

Definition c_with_nick (n : str) (c : conn) : conn :=
  {| c_host := c_host c; c_name := c_name c; c_real := c_real c; c_nick := Some n;
     c_source := make_source (Some n) (c_name c) (c_host c); c_pass := c_pass c;
     c_auth := c_auth c; c_registered := c_registered c; c_capneg := c_capneg c;
     c_multi := c_multi c; c_secure := c_secure c; c_sender_taken := c_sender_taken c;
     c_pong_pending := c_pong_pending c |}.
Definition c_with_name (n real : str) (c : conn) : conn :=
  {| c_host := c_host c; c_name := Some n; c_real := Some real; c_nick := c_nick c;
     c_source := make_source (c_nick c) (Some n) (c_host c); c_pass := c_pass c;
     c_auth := c_auth c; c_registered := c_registered c; c_capneg := c_capneg c;
     c_multi := c_multi c; c_secure := c_secure c; c_sender_taken := c_sender_taken c;
     c_pong_pending := c_pong_pending c |}.
Definition c_with_pass (p : str) (c : conn) : conn :=
  {| c_host := c_host c; c_name := c_name c; c_real := c_real c; c_nick := c_nick c;
     c_source := c_source c; c_pass := Some p;
     c_auth := c_auth c; c_registered := c_registered c; c_capneg := c_capneg c;
     c_multi := c_multi c; c_secure := c_secure c; c_sender_taken := c_sender_taken c;
     c_pong_pending := c_pong_pending c |}.
Definition c_with_auth (a reg taken : bool) (c : conn) : conn :=
  {| c_host := c_host c; c_name := c_name c; c_real := c_real c; c_nick := c_nick c;
     c_source := c_source c; c_pass := c_pass c;
     c_auth := a; c_registered := reg; c_capneg := c_capneg c;
     c_multi := c_multi c; c_secure := c_secure c; c_sender_taken := taken;
     c_pong_pending := c_pong_pending c |}.
Definition c_with_caps (neg multi : bool) (c : conn) : conn :=
  {| c_host := c_host c; c_name := c_name c; c_real := c_real c; c_nick := c_nick c;
     c_source := c_source c; c_pass := c_pass c;
     c_auth := c_auth c; c_registered := c_registered c; c_capneg := neg;
     c_multi := multi; c_secure := c_secure c; c_sender_taken := c_sender_taken c;
     c_pong_pending := c_pong_pending c |}.

(* VolatileState::new_from_config *)
Definition chan_of_cfg (c : chancfg) : chan :=
  let m := cc_modes c in
  {| ch_topic := option_map (fun t => (t, [])) (cc_topic c);
     ch_modes := fold_left (fun m l => cm_set_rankset l (fun _ => ∅) m) all_rankletters m;
     ch_default := {| d_operators := cm_operators m; d_half_operators := cm_half_operators m;
                      d_voices := cm_voices m; d_founders := cm_founders m;
                      d_protecteds := cm_protecteds m |};
     ch_baninfo := ∅; ch_users := ∅; ch_preconf := true |}.

Definition shared_init (cfg : config) : shared :=
  {| users := ∅;
     chans := fold_left (fun m c => <[cc_name c := chan_of_cfg c]> m) (cfg_channels cfg) ∅;
     wallops := ∅; inv_count := 0; op_count := 0; max_users := 0; histories := ∅;
     server_quit := false |}.

Definition world_init (cfg : config) : world :=
  {| sh := shared_init cfg; conns := ∅; nconns := 0 |}.
