(* Handlers.v - model of state/{conn,channel,rest,srv_query}_cmds.rs: the 41 command handlers.
   Each handler maps (config, shared state, own connection) to new shared state, new
   connection state, the lines queued per connection, and whether the connection quits.
   Every explicit abort site of the Rust code is a [Panic]. No proofs here. *)
From stdpp Require Import gmap.
From IRC Require Import Str Wild Mask Parse Reply State.
Open Scope N_scope.

Definition outl := list (nat * str).

Record hres := { h_sh : shared; h_conn : conn; h_out : outl; h_quit : bool }.
Definition hr (s : shared) (c : conn) (o : outl) : res hres :=
  Ok {| h_sh := s; h_conn := c; h_out := o; h_quit := false |}.

Section handlers.
Context (cfg : config) (verify : str -> str -> bool).
Context (i : nat).   (* the acting connection *)

(* feed_msg / feed_msg_source / send_msg_display *)
Definition srv (body : str) : str := (c_colon :: cfg_name cfg) ++ (c_space :: body).
Definition from (source body : str) : str := (c_colon :: source) ++ (c_space :: body).
Definition me (body : str) : nat * str := (i, srv body).

Definition get_user (s : shared) (n : str) : res user :=
  match users s !! n with Some u => Ok u | None => Panic P_unwrap_user end.
Definition get_chan (s : shared) (n : str) : res chan :=
  match chans s !! n with Some c => Ok c | None => Panic P_unwrap_channel end.
Definition own_nick (c : conn) : res str :=
  match c_nick c with Some n => Ok n | None => Panic P_unwrap_user end.

(* send a line to the queue of user n *)
Definition send_to (s : shared) (n : str) (line : str) : res (nat * str) :=
  let! u := get_user s n in Ok (u_conn u, line).
Definition send_all (s : shared) (ns : list str) (line : str) : res outl :=
  rfold (fun acc n => let! x := send_to s n line in Ok (acc ++ [x])) ns [].

Definition member_names (c : chan) : list str := List.map fst (map_to_list (ch_users c)).

(* ------------------------------------------------------------------ LUSERS, MOTD, ISUPPORT *)
Definition lusers_lines (s : shared) (client : str) : res (list str) :=
  let n := N.of_nat (size (users s)) in
  if N.ltb n (inv_count s) then Panic P_lusers_underflow else
  Ok [ rpl_luserclient client (n - inv_count s) (inv_count s);
       rpl_luserop client (op_count s);
       rpl_luserunknown client;
       rpl_luserchannels client (N.of_nat (size (chans s)));
       rpl_luserme client n;
       rpl_localusers client n (max_users s);
       rpl_globalusers client n (max_users s) ].

Definition motd_lines (client : str) : list str :=
  [ rpl_motdstart client (cfg_name cfg); rpl_motd client (cfg_motd cfg); rpl_endofmotd client ].

Definition isupport_lines (client : str) : list str :=
  List.map (fun toks => rpl_isupport client (join [c_space] toks))
           (chunks 10 (isupport_tokens (cfg_network cfg) (cfg_max_joins cfg))).

Definition mine (ls : list str) : outl := List.map me ls.

(* ------------------------------------------------------------------ registration *)
Definition new_user (c : conn) (name real : str) : user :=
  let d := cfg_default_umodes cfg in
  {| u_conn := i; u_host := c_host c; u_name := name; u_real := real; u_source := c_source c;
     u_modes := {| um_invisible := um_invisible d; um_oper := um_oper d;
                   um_local_oper := um_local_oper d;
                   um_registered := um_registered d || c_registered c;
                   um_wallops := um_wallops d |};
     u_away := None; u_chans := ∅; u_invited := ∅; u_kill := None;
     u_hist := (name, c_host c, real) |}.

Definition authenticate (s : shared) (c : conn) : res hres :=
  if c_capneg c then hr s c [] else
  match c_nick c, c_name c with
  | Some nick, Some name =>
      (* configured user: mask and password *)
      let ucfg := find_usercfg cfg name in
      let mask_ok := match ucfg with
                     | Some uc => match uc_mask uc with
                                  | Some m => wild_match m (c_source c)
                                  | None => true
                                  end
                     | None => true
                     end in
      if negb mask_ok then hr s c [me (lit "ERROR: user mask doesn't match")] else
      let registered := match ucfg with Some _ => true | None => false end in
      let pw_opt := match (match ucfg with Some uc => uc_password uc | None => None end) with
                    | Some p => Some p
                    | None => cfg_password cfg
                    end in
      let good := match pw_opt with
                  | Some hash => match c_pass c with Some p => verify p hash | None => false end
                  | None => true
                  end in
      if good then
        let c1 := c_with_auth true registered (c_sender_taken c) c in
        match users s !! nick with
        | Some _ =>
            hr s (c_with_auth false registered (c_sender_taken c) c)
               [me (err_nicknameinuse (client_name c) nick)]
        | None =>
            if c_sender_taken c then Panic P_sender_taken else
            let c2 := c_with_auth true registered true c in
            let real := default [] (c_real c) in
            let u := new_user c1 name real in
            let s' := st_add_user nick u s in
            let client := client_name c2 in
            let! lus := lusers_lines s' client in
            hr s' c2
               (mine ([ rpl_welcome client (cfg_network cfg) nick name (c_host c);
                        rpl_yourhost client (cfg_name cfg) (version_str cfg);
                        rpl_created client (lit "T");
                        rpl_myinfo client (cfg_name cfg) (version_str cfg) ]
                      ++ isupport_lines client ++ lus ++ motd_lines client
                      ++ [ rpl_umodeis client (umodes_str (u_modes u)) ]))
        end
      else
        Ok {| h_sh := s; h_conn := c_with_auth false (c_registered c) (c_sender_taken c) c;
              h_out := [me (err_passwdmismatch (client_name c))]; h_quit := true |}
  | _, _ => hr s c []
  end.

Definition process_cap (s : shared) (c : conn) (sub : capsub) (caps : option (list str))
  : res hres :=
  match sub with
  | CapLS => hr s (c_with_caps true (c_multi c) c) [me (lit "CAP * LS :multi-prefix")]
  | CapLIST =>
      hr s c [me (lit "CAP * LIST :" ++ if c_multi c then lit "multi-prefix" else [])]
  | CapREQ =>
      let c1 := c_with_caps true (c_multi c) c in
      match caps with
      | Some cs =>
          if forallb (fun x => str_eqb x (lit "multi-prefix")) cs
          then hr s (c_with_caps true (c_multi c || negb (is_empty cs)) c)
                  [me (lit "CAP * ACK :" ++ join [c_space] cs)]
          else hr s c1 [me (lit "CAP * NAK :" ++ join [c_space] cs)]
      | None => hr s c1 []
      end
  | CapEND =>
      let c1 := c_with_caps false (c_multi c) c in
      if c_auth c then hr s c1 [] else authenticate s c1
  end.

Definition process_authenticate (s : shared) (c : conn) : res hres :=
  hr s c [me (err_unknowncommand (client_name c) (lit "AUTHENTICATE"))].

Definition process_pass (s : shared) (c : conn) (p : str) : res hres :=
  if c_auth c then hr s c [me (err_alreadyregistered (client_name c))]
  else authenticate s (c_with_pass p c).

Definition process_user (s : shared) (c : conn) (username realname : str) : res hres :=
  if c_auth c then hr s c [me (err_alreadyregistered (client_name c))]
  else authenticate s (c_with_name username realname c).

Definition process_nick (s : shared) (c : conn) (nick : str) (msg : message) : res hres :=
  if negb (c_auth c) then
    match users s !! nick with
    | None => authenticate s (c_with_nick nick c)
    | Some _ => hr s c [me (err_nicknameinuse (client_name c) nick)]
    end
  else
    let! old := own_nick c in
    if bool_decide (nick = old) then hr s c [] else
    match users s !! nick with
    | Some _ => hr s c [me (err_nicknameinuse (client_name c) nick)]
    | None =>
        let old_source := c_source c in
        let! u := get_user s old in
        let s0 := set_users (delete old) s in
        let c' := c_with_nick nick c in
        let u' := u_set_source (c_source c') u in
        let! s1 := rfold (fun s ch =>
                            let! co := get_chan s ch in
                            let! co' := chan_rename_user old nick co in
                            Ok (set_chans (fun cs => <[ch := co']> cs) s))
                         (elements (u_chans u')) s0 in
        let s2 := st_insert_history old (u_hist u') s1 in
        let s3 := set_users (fun us => <[nick := u']> us) s2 in
        let s4 := if bool_decide (old ∈ wallops s3)
                  then set_wallops (fun w => {[nick]} ∪ (w ∖ {[old]})) s3 else s3 in
        let line := to_string_with_source msg old_source in
        hr s4 c' (List.map (fun '(_, v) => (u_conn v, line)) (map_to_list (users s4)))
    end.

Definition process_ping (s : shared) (c : conn) (token : str) : res hres :=
  hr s c [me (lit "PONG " ++ cfg_name cfg ++ lit " :" ++ token)].

Definition process_pong (s : shared) (c : conn) : res hres := hr s c [].

Definition process_oper (s : shared) (c : conn) (name password : str) : res hres :=
  let! nick := own_nick c in
  let client := client_name c in
  match find_opercfg cfg name with
  | Some oc =>
      let! u := get_user s nick in
      if negb (verify password (oc_password oc)) then hr s c [me (err_passwdmismatch client)]
      else if negb (match oc_mask oc with Some m => wild_match m (c_source c) | None => true end)
      then hr s c [me (err_nooperhost client)]
      else
        let m := u_modes u in
        let u' := u_set_modes {| um_invisible := um_invisible m; um_oper := true;
                                 um_local_oper := um_local_oper m;
                                 um_registered := um_registered m;
                                 um_wallops := um_wallops m |} u in
        let s1 := set_users (fun us => <[nick := u']> us) s in
        let s2 := if is_local_oper m then s1 else set_op_count (op_count s1 + 1) s1 in
        hr s2 c [me (rpl_youreoper client)]
  | None => hr s c [me (err_nooperhost client)]
  end.

Definition process_quit (s : shared) (c : conn) : res hres :=
  Ok {| h_sh := s; h_conn := c; h_out := [me (lit "ERROR: Closing connection")];
        h_quit := true |}.

(* ------------------------------------------------------------------ NAMES helper *)
Definition names_lines (s : shared) (c : conn) (client nick : str) (chname : str) (co : chan)
           (with_end : bool) : res (list str) :=
  let in_channel := bool_decide (nick ∈ dom (ch_users co)) in
  if negb (cm_secret (ch_modes co)) || in_channel then
    let symbol := if cm_secret (ch_modes co) then lit "@" else lit "=" in
    let! names := rfold (fun acc '(unick, r) =>
                           let! u := get_user s unick in
                           if negb (um_invisible (u_modes u)) || in_channel
                           then Ok (acc ++ [rank_prefix (c_multi c) r ++ unick]) else Ok acc)
                        (map_to_list (ch_users co)) [] in
    Ok (List.map (rpl_namreply client symbol chname) (chunks 20 names)
        ++ if with_end then [rpl_endofnames client chname] else [])
  else Ok [].

(* ------------------------------------------------------------------ JOIN *)
Definition invite_ok (co : chan) (u : user) (chname source : str) : bool :=
  negb (cm_invite_only (ch_modes co)) || bool_decide (chname ∈ u_invited u)
  || set_any (fun e => wild_match e source) (cm_invex (ch_modes co)).

(* one channel of the check phase: (join, create), replies *)
Definition join_check (s : shared) (c : conn) (u : user) (nick client : str)
           (chname : str) (key : option (option str)) : (bool * bool) * list str :=
  match chans s !! chname with
  | Some co =>
      let m := ch_modes co in
      let '(d1, o1) :=
        match cm_key m with
        | Some k => match key with
                    | Some (Some k') => if bool_decide (k = k') then (true, [])
                                        else (false, [err_badchannelkey client chname])
                    | _ => (false, [err_badchannelkey client chname])
                    end
        | None => (true, [])
        end in
      let '(d2, o2) := if d1 then (if negb (banned m (c_source c)) then (true, o1)
                                   else (false, o1 ++ [err_bannedfromchan client chname]))
                       else (false, o1) in
      let '(d3, o3) := if d2 then (if invite_ok co u chname (c_source c) then (true, o2)
                                   else (false, o2 ++ [err_inviteonlychan client chname]))
                       else (false, o2) in
      let '(d4, o4) := if d3 then
                         (if match cm_limit m with
                             | Some l => N.ltb (N.of_nat (size (ch_users co))) l
                             | None => true end
                          then (true, o3) else (false, o3 ++ [err_channelisfull client chname]))
                       else (false, o3) in
      let d5 := d4 && negb (bool_decide (nick ∈ dom (ch_users co))) in
      ((d5, false), o4)
  | None => ((true, true), [])
  end.

Inductive join_key := NoKeys | KeyAt (k : option str).

Fixpoint join_phase1 (s : shared) (c : conn) (u : user) (nick client : str)
         (chs : list str) (keys : option (list str)) (idx : nat)
         (seen : list (str * bool)) (join_count : N)
  : res (list (str * (bool * bool)) * list str * N) :=
  match chs with
  | [] => Ok ([], [], join_count)
  | ch :: chs' =>
      if existsb (fun '(c0, j) => str_eqb c0 ch && j) seen then
        let! (l, o, jc) := join_phase1 s c u nick client chs' keys (S idx)
                                        (seen ++ [(ch, false)]) join_count in
        Ok ((ch, (false, false)) :: l, o, jc)
      else
        let! key := match keys with
                    | None => Ok None
                    | Some ks => match nth_error ks idx with
                                 | Some k => Ok (Some (Some k))
                                 | None => Panic P_join_key_index
                                 end
                    end in
        let '((join, create), o1) := join_check s c u nick client ch key in
        let '(do_join, o2) :=
          match cfg_max_joins cfg with
          | Some mj => (join && N.ltb join_count mj,
                        if N.leb mj join_count then [err_toomanychannels client ch] else [])
          | None => (join, [])
          end in
        let jc' := if do_join then join_count + 1 else join_count in
        let! (l, o, jc) := join_phase1 s c u nick client chs' keys (S idx)
                                        (seen ++ [(ch, do_join)]) jc' in
        Ok ((ch, (do_join, create)) :: l, o1 ++ o2 ++ o, jc)
  end.

Definition join_insert (nick : str) (s : shared) (x : str * (bool * bool)) : res shared :=
  let '(ch, (join, create)) := x in
  if negb join then Ok s else
  let! u := get_user s nick in
  let u' := u_set_invited (fun v => v ∖ {[ch]}) (u_set_chans (fun cs => {[ch]} ∪ cs) u) in
  let s1 := set_users (fun us => <[nick := u']> us) s in
  if create then Ok (set_chans (fun cs => <[ch := chan_new nick]> cs) s1)
  else let! co := get_chan s1 ch in
       Ok (set_chans (fun cs => <[ch := chan_add_user nick co]> cs) s1).

Definition join_announce (c : conn) (nick client : str) (s : shared) (acc : outl)
           (x : str * (bool * bool)) : res outl :=
  let '(ch, (join, _)) := x in
  if negb join then Ok acc else
  let! co := get_chan s ch in
  let join_line := from (c_source c) (lit "JOIN " ++ ch) in
  let! names := names_lines s c client nick ch co true in
  let! others := send_all s (List.filter (fun n => negb (str_eqb n nick)) (member_names co))
                          join_line in
  Ok (acc ++ [(i, join_line)]
          ++ mine (match ch_topic co with Some (t, _) => [rpl_topic client ch t] | None => [] end
                   ++ names)
          ++ others).

Definition process_join (s : shared) (c : conn) (chs : list str) (keys : option (list str))
  : res hres :=
  let! nick := own_nick c in
  let! u := get_user s nick in
  let client := client_name c in
  let! (plan, o1, _) := join_phase1 s c u nick client chs keys 0 []
                                     (N.of_nat (size (u_chans u))) in
  let! s' := rfold (join_insert nick) plan s in
  let! o2 := rfold (join_announce c nick client s') plan [] in
  hr s' c (mine o1 ++ o2).

(* ------------------------------------------------------------------ PART *)
Definition process_part (s : shared) (c : conn) (chs : list str) (reason : option str)
  : res hres :=
  let client := client_name c in
  let! nick := own_nick c in
  let! (s', o) :=
    rfold (fun '(s, o) ch =>
             match chans s !! ch with
             | Some co =>
                 if bool_decide (nick ∈ dom (ch_users co)) then
                   let body := match reason with
                               | Some r => lit "PART " ++ ch ++ lit " :" ++ r
                               | None => lit "PART " ++ ch
                               end in
                   let! sent := send_all s (member_names co) (from (c_source c) body) in
                   let! s1 := st_remove_user_from_channel ch nick s in
                   Ok (s1, o ++ sent)
                 else Ok (s, o ++ [me (err_notonchannel client ch)])
             | None => Ok (s, o ++ [me (err_nosuchchannel client ch)])
             end) chs (s, []) in
  let! _ := get_user s' nick in
  hr s' c o.

(* ------------------------------------------------------------------ TOPIC *)
(* may a member of rank [r] set the topic of [co] *)
Definition topic_allowed (co : chan) (r : rank) : bool :=
  negb (cm_protected_topic (ch_modes co)) || rk_is_half_operator r.

Definition process_topic (s : shared) (c : conn) (ch : str) (topic : option str) (msg : message)
  : res hres :=
  let client := client_name c in
  let! nick := own_nick c in
  match topic with
  | Some t =>
      match chans s !! ch with
      | Some co =>
          match ch_users co !! nick with
          | Some r =>
              if topic_allowed co r then
                let co' := ch_set_topic (if is_empty t then None else Some (t, nick)) co in
                let s' := set_chans (fun cs => <[ch := co']> cs) s in
                let! sent := send_all s' (member_names co')
                                      (to_string_with_source msg (c_source c)) in
                hr s' c sent
              else hr s c [me (err_chanoprivsneeded client ch)]
          | None => hr s c [me (err_notonchannel client ch)]
          end
      | None => hr s c [me (err_nosuchchannel client ch)]
      end
  | None =>
      match chans s !! ch with
      | Some co =>
          if bool_decide (nick ∈ dom (ch_users co)) then
            match ch_topic co with
            | Some (t, who) => hr s c (mine [rpl_topic client ch t; rpl_topicwhotime client ch who])
            | None => hr s c [me (rpl_notopic client ch)]
            end
          else hr s c [me (err_notonchannel client ch)]
      | None => hr s c [me (err_nosuchchannel client ch)]
      end
  end.

(* ------------------------------------------------------------------ NAMES, LIST *)
Definition process_names (s : shared) (c : conn) (chs : list str) : res hres :=
  let client := client_name c in
  let! nick := own_nick c in
  if is_empty chs then
    let! ls := rfold (fun acc '(cn, co) =>
                        let! l := names_lines s c client nick cn co false in Ok (acc ++ l))
                     (map_to_list (chans s)) [] in
    hr s c (mine (ls ++ [rpl_endofnames client (lit "*")]))
  else
    let! ls := rfold (fun acc cn =>
                        match chans s !! cn with
                        | Some co => let! l := names_lines s c client nick cn co true in
                                     Ok (acc ++ l)
                        | None => Ok (acc ++ [rpl_endofnames client cn])
                        end) chs [] in
    hr s c (mine ls).

Definition list_line (client : str) (cn : str) (co : chan) : str :=
  rpl_list client cn (N.of_nat (size (ch_users co)))
           (match ch_topic co with Some (t, _) => t | None => [] end).

Definition process_list (s : shared) (c : conn) (chs : list str) (server : option str)
  : res hres :=
  let client := client_name c in
  match server with
  | Some _ => hr s c [me (err_unknownerror client "LIST")]
  | None =>
      let body :=
        if is_empty chs then
          omap (fun '(cn, co) => if cm_secret (ch_modes co) then None
                                 else Some (list_line client cn co)) (map_to_list (chans s))
        else
          omap (fun cn => match chans s !! cn with
                          | Some co => if cm_secret (ch_modes co) then None
                                       else Some (list_line client cn co)
                          | None => None
                          end) chs in
      hr s c (mine ([rpl_liststart client] ++ body ++ [rpl_listend client]))
  end.

(* ------------------------------------------------------------------ INVITE *)
Definition process_invite (s : shared) (c : conn) (nickname ch : str) (msg : message)
  : res hres :=
  let client := client_name c in
  let! nick := own_nick c in
  match chans s !! ch with
  | Some co =>
      match ch_users co !! nick with
      | Some r =>
          if cm_invite_only (ch_modes co) && negb (r_operator r)
          then hr s c [me (err_chanoprivsneeded client ch)]
          else if bool_decide (nickname ∈ dom (ch_users co))
          then hr s c [me (err_useronchannel client nickname ch)]
          else
            match users s !! nickname with
            | Some inv =>
                let inv' := u_set_invited (fun v => {[ch]} ∪ v) inv in
                let s' := set_users (fun us => <[nickname := inv']> us) s in
                hr s' c [me (rpl_inviting client nickname ch);
                         (u_conn inv, to_string_with_source msg (c_source c))]
            | None => hr s c [me (err_nosuchnick client nickname)]
            end
      | None => hr s c [me (err_notonchannel client ch)]
      end
  | None => hr s c [me (err_nosuchchannel client ch)]
  end.

(* ------------------------------------------------------------------ KICK *)
(* may a member of rank [r] remove a member of rank [vr] *)
Definition kickable (r vr : rank) : bool :=
  negb (rk_is_protected vr) && (negb (rk_is_half_operator vr) || negb (rk_is_only_half_operator r)).

(* the victim loop: victims to remove (each once) and replies *)
Definition kick_select (co : chan) (r : rank) (client ch : str) (victims : list str)
  : list str * list str :=
  fold_left (fun '(k, o) v =>
               match ch_users co !! v with
               | Some vr =>
                   if kickable r vr
                   then (if mem_str v k then (k, o) else (k ++ [v], o))
                   else (k, o ++ [err_cannotdocommand client])
               | None => (k, o ++ [err_usernotinchannel client v ch])
               end) victims ([], []).

Definition kick_decide (s : shared) (nick client ch : str) (victims : list str)
  : list str * list str :=
  match chans s !! ch with
  | Some co =>
      match ch_users co !! nick with
      | Some r =>
          if rk_is_half_operator r then kick_select co r client ch victims
          else ([], [err_chanoprivsneeded client ch])
      | None => ([], [err_notonchannel client ch])
      end
  | None => ([], [err_nosuchchannel client ch])
  end.

Definition process_kick (s : shared) (c : conn) (ch : str) (victims : list str)
           (comment : option str) : res hres :=
  let client := client_name c in
  let! nick := own_nick c in
  let '(kicked, o1) := kick_decide s nick client ch victims in
  let! s' := rfold (fun s v => st_remove_user_from_channel ch v s) kicked s in
  let! o2 := rfold (fun acc v =>
                      let line := from (c_source c)
                                       (lit "KICK " ++ ch ++ [c_space] ++ v ++ lit " :"
                                        ++ default (lit "Kicked") comment) in
                      let! rest := match chans s' !! ch with
                                   | Some co => send_all s' (member_names co) line
                                   | None => Ok []
                                   end in
                      let! x := send_to s' v line in
                      Ok (acc ++ rest ++ [x])) kicked [] in
  hr s' c (mine o1 ++ o2).

(* ------------------------------------------------------------------ PRIVMSG / NOTICE *)
Record ttype := { tt_channel : bool; tt_founder : bool; tt_protected : bool; tt_oper : bool;
                  tt_half : bool; tt_voice : bool }.
Definition tt_init := {| tt_channel := true; tt_founder := false; tt_protected := false;
                         tt_oper := false; tt_half := false; tt_voice := false |}.
Definition tt_none := {| tt_channel := false; tt_founder := false; tt_protected := false;
                         tt_oper := false; tt_half := false; tt_voice := false |}.
Definition tt_special (t : ttype) : bool :=
  tt_founder t || tt_protected t || tt_oper t || tt_half t || tt_voice t.

(* get_privmsg_target_type: the byte loop *)
Fixpoint tt_loop (s : str) (t : ttype) (amp_count : nat) (last_amp : bool) : ttype * str :=
  match s with
  | [] => (t, [])
  | ch :: s' =>
      let continue_ (t' : ttype) :=
        if N.eqb ch c_amp then
          (if is_empty s' then (tt_none, [])
           else tt_loop s' t' (S amp_count) true)
        else tt_loop s' t' amp_count false in
      if N.eqb ch c_tilde then
        continue_ {| tt_channel := true; tt_founder := true; tt_protected := tt_protected t;
                     tt_oper := tt_oper t; tt_half := tt_half t; tt_voice := tt_voice t |}
      else if N.eqb ch c_amp then
        continue_ {| tt_channel := true; tt_founder := tt_founder t; tt_protected := true;
                     tt_oper := tt_oper t; tt_half := tt_half t; tt_voice := tt_voice t |}
      else if N.eqb ch c_at then
        continue_ {| tt_channel := true; tt_founder := tt_founder t; tt_protected := tt_protected t;
                     tt_oper := true; tt_half := tt_half t; tt_voice := tt_voice t |}
      else if N.eqb ch c_percent then
        continue_ {| tt_channel := true; tt_founder := tt_founder t; tt_protected := tt_protected t;
                     tt_oper := tt_oper t; tt_half := true; tt_voice := tt_voice t |}
      else if N.eqb ch c_plus then
        continue_ {| tt_channel := true; tt_founder := tt_founder t; tt_protected := tt_protected t;
                     tt_oper := tt_oper t; tt_half := tt_half t; tt_voice := true |}
      else if N.eqb ch c_hash then
        (if is_empty s' then (tt_none, []) else (t, s))
      else if last_amp then
        ((if Nat.ltb amp_count 2
          then {| tt_channel := tt_channel t; tt_founder := tt_founder t; tt_protected := false;
                  tt_oper := tt_oper t; tt_half := tt_half t; tt_voice := tt_voice t |}
          else t), c_amp :: s)
      else (tt_none, [])
  end.
Definition target_type (target : str) : ttype * str := tt_loop target tt_init 0 false.

(* who hears a message to channel [co] addressed with target type [ty] (before removing the sender) *)
Definition audience (ty : ttype) (co : chan) : list str :=
  let m := ch_modes co in
  if tt_special ty then
    elements ((if tt_founder ty then cm_founders m else ∅)
              ∪ (if tt_protected ty then cm_protecteds m else ∅)
              ∪ (if tt_oper ty then cm_operators m else ∅)
              ∪ (if tt_half ty then cm_half_operators m else ∅)
              ∪ (if tt_voice ty then cm_voices m else ∅))
  else member_names co.

(* the three speaking restrictions, in the order the code tests them *)
Definition can_send (co : chan) (nick source : str) : bool :=
  let m := ch_modes co in
  let mr := ch_users co !! nick in
  ((negb (cm_noext m) && negb (cm_secret m)) || is_Some_b mr)
  && negb (banned m source)
  && (negb (cm_moderated m) || match mr with Some r => rk_is_voice r | None => false end).

(* one target of PRIVMSG / NOTICE: lines queued, and whether something was delivered *)
Definition privmsg_one (s : shared) (c : conn) (nick : str) (text : str) (notice : bool)
           (target : str) : res (outl * bool) :=
  let client := client_name c in
  let verb_s := if notice then lit "NOTICE " else lit "PRIVMSG " in
  let err (l : str) : outl := if notice then [] else [me l] in
  let line := from (c_source c) (verb_s ++ target ++ lit " :" ++ text) in
  let '(ty, chan_str) := target_type target in
  if tt_channel ty then
    match chans s !! chan_str with
    | Some co =>
        if can_send co nick (c_source c) then
          let! sent := send_all s (List.filter (fun n => negb (str_eqb n nick)) (audience ty co))
                                line in
          Ok (sent, true)
        else Ok (err (err_cannotsendtochan client chan_str), false)
    | None => Ok (err (err_nosuchchannel client chan_str), false)
    end
  else
    match users s !! target with
    | Some u =>
        Ok ([(u_conn u, line)]
              ++ (if notice then [] else
                    match u_away u with
                    | Some a => [me (rpl_away client target a)]
                    | None => []
                    end), true)
    | None => Ok (err (err_nosuchnick client target), false)
    end.

Definition process_privmsg_notice (s : shared) (c : conn) (targets : list str) (text : str)
           (notice : bool) : res hres :=
  let! nick := own_nick c in
  let! (o, done) :=
    rfold (fun '(o, done) target =>
             let! (o1, d1) := privmsg_one s c nick text notice target in
             Ok (o ++ o1, done || d1)) (dedup_str targets) ([], false) in
  let! _ := if done then (let! _ := get_user s nick in Ok tt) else Ok tt in
  hr s c o.

(* ------------------------------------------------------------------ WHO *)
Definition sets_disjoint (a b : gset str) : bool :=
  forallb (fun x => negb (bool_decide (x ∈ b))) (elements a).

Definition who_line (c : conn) (client : str) (channel : option (str * rank)) (unick : str)
           (u viewer : user) : list str :=
  if negb (um_invisible (u_modes u)) || negb (sets_disjoint (u_chans u) (u_chans viewer)) then
    let flags := (match u_away u with Some _ => lit "G" | None => lit "H" end)
                 ++ (if is_local_oper (u_modes u) then lit "*" else [])
                 ++ (match channel with Some (_, r) => rank_prefix (c_multi c) r | None => [] end) in
    [rpl_whoreply client (match channel with Some (cn, _) => cn | None => lit "*" end)
                  (u_name u) (u_host u) (cfg_name cfg) unick flags (u_real u)]
  else [].

Definition process_who (s : shared) (c : conn) (mask : str) : res hres :=
  let client := client_name c in
  let! nick := own_nick c in
  let! viewer := get_user s nick in
  let! body :=
    if contains c_star mask || contains c_qmark mask then
      Ok (concat (List.map (fun '(unick, u) =>
                         if wild_match mask unick || wild_match mask (u_source u)
                            || wild_match mask (u_real u)
                         then who_line c client None unick u viewer else [])
                      (map_to_list (users s))))
    else if validate_channel mask then
      match chans s !! mask with
      | Some co =>
          if negb (cm_secret (ch_modes co)) || bool_decide (nick ∈ dom (ch_users co)) then
            rfold (fun acc '(un, r) =>
                     let! u := get_user s un in
                     Ok (acc ++ who_line c client (Some (mask, r)) un u viewer))
                  (map_to_list (ch_users co)) []
          else Ok []
      | None => Ok []
      end
    else if validate_username mask then
      Ok (match users s !! mask with
          | Some u => who_line c client None mask u viewer
          | None => []
          end)
    else Ok [] in
  hr s c (mine (body ++ [rpl_endofwho client mask])).

(* ------------------------------------------------------------------ WHOIS / WHOWAS *)
Definition whois_one (s : shared) (c : conn) (client : str) (viewer : user) (n : str)
  : res (list str) :=
  let! u := get_user s n in
  if um_invisible (u_modes u) && sets_disjoint (u_chans u) (u_chans viewer) then Ok [] else
  let! chs := rfold (fun acc chname =>
                       let! co := get_chan s chname in
                       if cm_secret (ch_modes co) then Ok acc else
                       match ch_users co !! n with
                       | Some r => Ok (acc ++ [rank_prefix (c_multi c) r ++ chname])
                       | None => Panic P_unwrap_member
                       end) (elements (u_chans u)) [] in
  Ok ((if um_registered (u_modes u) then [rpl_whoisregnick client n] else [])
      ++ [rpl_whoisuser client n (u_name u) (u_host u) (u_real u);
          rpl_whoisserver client n (cfg_name cfg) (cfg_info cfg)]
      ++ (if is_local_oper (u_modes u) then [rpl_whoisoperator client n] else [])
      ++ List.map (rpl_whoischannels client n) (chunks 30 chs)
      ++ [rpl_whoisidle client n]
      ++ (if is_local_oper (u_modes u)
          then [rpl_whoishost client n (u_host u);
                rpl_whoismodes client n (umodes_str (u_modes u))] else [])
      ++ (if c_secure c then [rpl_whoissecure client n] else [])).

Definition process_whois (s : shared) (c : conn) (target : option str) (masks : list str)
  : res hres :=
  let client := client_name c in
  match target with
  | Some _ => hr s c [me (err_unknownerror client "WHOIS")]
  | None =>
      let! nick := own_nick c in
      let! viewer := get_user s nick in
      let is_wild (m : str) := contains c_star m || contains c_qmark m in
      let wilds := List.filter is_wild masks in
      let direct : gset str :=
        list_to_set (List.filter (fun m => negb (is_wild m) && is_Some_b (users s !! m)) masks) in
      let matched : gset str :=
        if is_empty wilds then ∅ else
        list_to_set (List.filter (fun n => existsb (fun m => wild_match m n) wilds)
                                 (List.map fst (map_to_list (users s)))) in
      let! body := rfold (fun acc n => let! l := whois_one s c client viewer n in Ok (acc ++ l))
                         (elements (direct ∪ matched)) [] in
      hr s c (mine (body ++ [rpl_endofwhois client (join [c_comma] masks)]))
  end.

Definition process_whowas (s : shared) (c : conn) (nickname : str) (count : option N)
           (server : option str) : res hres :=
  let client := client_name c in
  match server with
  | Some _ => hr s c [me (err_unknownerror client "WHOWAS")]
  | None =>
      let body :=
        match histories s !! nickname with
        | Some hist =>
            let k := match count with
                     | Some n => if N.ltb 0 n then N.to_nat (N.min n (N.of_nat (length hist)))
                                 else length hist
                     | None => length hist
                     end in
            concat (List.map (fun '(un, hn, rn) =>
                           [rpl_whowasuser client nickname un hn rn;
                            rpl_whoisserver client nickname (cfg_name cfg)
                                            (lit "Logged in at T")])
                        (firstn k (rev hist)))
        | None => [err_wasnosuchnick client nickname]
        end in
      hr s c (mine (body ++ [rpl_endofwhowas client nickname]))
  end.

(* ------------------------------------------------------------------ KILL / DIE / SQUIT *)
Definition process_kill (s : shared) (c : conn) (nickname comment : str) : res hres :=
  let client := client_name c in
  let! nick := own_nick c in
  let! u := get_user s nick in
  if um_oper (u_modes u) then
    match users s !! nickname with
    | Some v =>
        match u_kill v with
        | None => hr (set_users (fun us => <[nickname := u_set_kill (Some (nick, comment)) v]> us) s)
                     c []
        | Some _ => hr s c []
        end
    | None => hr s c [me (err_nosuchnick client nickname)]
    end
  else hr s c [me (err_noprivileges client)].

Definition process_die (s : shared) (c : conn) (message : option str) : res hres :=
  let client := client_name c in
  let! nick := own_nick c in
  let! u := get_user s nick in
  let msg := default (lit "Quitting from DIE") message in
  if um_oper (u_modes u) then
    let s1 := set_users (fmap (fun v => match u_kill v with
                                        | None => u_set_kill (Some (nick, msg)) v
                                        | Some _ => v end)) s in
    hr (set_server_quit true s1) c []
  else hr s c [me (err_cantkillserver client)].

Definition process_squit (s : shared) (c : conn) (server comment : str) : res hres :=
  if bool_decide (cfg_name cfg = server) then process_die s c (Some comment)
  else hr s c [me (err_unknownerror (client_name c) "SQUIT")].

(* ------------------------------------------------------------------ AWAY, USERHOST, ISON, WALLOPS *)
Definition process_away (s : shared) (c : conn) (text : option str) : res hres :=
  let client := client_name c in
  let! nick := own_nick c in
  let! u := get_user s nick in
  let s' := set_users (fun us => <[nick := u_set_away text u]> us) s in
  hr s' c [me (match text with Some _ => rpl_nowaway client | None => rpl_unaway client end)].

Definition process_userhost (s : shared) (c : conn) (nicks : list str) : res hres :=
  let client := client_name c in
  hr s c (mine (List.map
    (fun ch => rpl_userhost client
       (omap (fun n => match users s !! n with
                       | Some u => Some (n ++ (if is_local_oper (u_modes u) then lit "*" else [])
                                           ++ lit "=" ++ (match u_away u with
                                                          | Some _ => lit "-" | None => lit "+" end)
                                           ++ lit "~" ++ u_name u ++ lit "@" ++ u_host u)
                       | None => None
                       end) ch))
    (chunks 20 nicks))).

Definition process_ison (s : shared) (c : conn) (nicks : list str) : res hres :=
  let client := client_name c in
  hr s c (mine (List.map
    (fun ch => rpl_ison client (List.filter (fun n => is_Some_b (users s !! n)) ch))
    (chunks 20 nicks))).

Definition process_wallops (s : shared) (c : conn) (msg : message) : res hres :=
  let! nick := own_nick c in
  let! u := get_user s nick in
  if is_local_oper (u_modes u) then
    let! sent := send_all s (elements (wallops s)) (to_string_with_source msg (c_source c)) in
    hr s c sent
  else hr s c [me (err_noprivileges (client_name c))].

(* ------------------------------------------------------------------ server queries *)
Definition process_motd (s : shared) (c : conn) (target : option str) : res hres :=
  let client := client_name c in
  match target with
  | Some _ => hr s c [me (err_unknownerror client "MOTD")]
  | None => hr s c (mine (motd_lines client))
  end.

Definition process_version (s : shared) (c : conn) (target : option str) : res hres :=
  let client := client_name c in
  match target with
  | Some _ => hr s c [me (err_unknownerror client "VERSION")]
  | None => hr s c (mine (rpl_version client (version_str cfg) (cfg_name cfg)
                          :: isupport_lines client))
  end.

Definition process_admin (s : shared) (c : conn) (target : option str) : res hres :=
  let client := client_name c in
  match target with
  | Some _ => hr s c [me (err_unknownerror client "ADMIN")]
  | None => hr s c (mine ([rpl_adminme client (cfg_name cfg);
                           rpl_adminloc1 client (cfg_admin_info cfg)]
                          ++ (match cfg_admin_info2 cfg with
                              | Some x => [rpl_adminloc2 client x] | None => [] end)
                          ++ (match cfg_admin_email cfg with
                              | Some x => [rpl_adminemail client x] | None => [] end)))
  end.

Definition process_lusers (s : shared) (c : conn) : res hres :=
  let! ls := lusers_lines s (client_name c) in hr s c (mine ls).

Definition process_time (s : shared) (c : conn) (server : option str) : res hres :=
  let client := client_name c in
  match server with
  | Some _ => hr s c [me (err_unknownerror client "TIME")]
  | None => hr s c [me (rpl_time client (cfg_name cfg))]
  end.

(* STATS: the 'm' counters and the 'u' uptime are runtime values; the harness masks them *)
Definition process_stats (s : shared) (c : conn) (q : N) (server : option str) : res hres :=
  let client := client_name c in
  match server with
  | Some _ => hr s c [me (err_unknownerror client "STATS")]
  | None =>
      let! nick := own_nick c in
      let! u := get_user s nick in
      if is_local_oper (u_modes u) then
        hr s c (mine ((if N.eqb q 117 then [num0 "242" client "T"] else [])
                      ++ (if N.eqb q 109 then [num0 "212" client "T"] else [])
                      ++ [rpl_endofstats client q]))
      else hr s c [me (err_noprivileges client)]
  end.

Definition process_links (s : shared) (c : conn) (rs sm : option str) : res hres :=
  let client := client_name c in
  match rs, sm with
  | None, None => hr s c (mine [rpl_links client (cfg_name cfg) (cfg_info cfg);
                                rpl_endoflinks client])
  | _, _ => hr s c [me (err_unknownerror client "LINKS")]
  end.

Fixpoint help_lines (client subject : str) (ls : list str) (first : bool) : list str :=
  match ls with
  | [] => []
  | [l] => [rpl_endofhelp client subject l]
  | l :: ls' => (if first then rpl_helpstart client subject l else rpl_helptxt client subject l)
                :: help_lines client subject ls' false
  end.

Definition process_help (s : shared) (c : conn) (subject : option str) : res hres :=
  let client := client_name c in
  let subj := default (lit "MAIN") subject in
  match help_topic subj with
  | Some ls => hr s c (mine (help_lines client subj ls true))
  | None => hr s c [me (err_helpnotfound client subj)]
  end.

Definition process_info (s : shared) (c : conn) : res hres :=
  let client := client_name c in
  hr s c (mine [rpl_info client (cfg_pkg_name cfg ++ [c_space] ++ cfg_pkg_version cfg);
                rpl_endofinfo client]).

Definition unsupported (s : shared) (c : conn) (name : string) : res hres :=
  hr s c [me (err_unknownerror (client_name c) name)].

(* ------------------------------------------------------------------ MODE (channel) *)
(* String::replacen(e, "", 1) *)
Fixpoint is_prefix (e s : str) : bool :=
  match e, s with
  | [], _ => true
  | x :: e', y :: s' => N.eqb x y && is_prefix e' s'
  | _ :: _, [] => false
  end.
Fixpoint remove_first_sub (e s : str) : str :=
  if is_prefix e s then skipn (length e) s
  else match s with [] => [] | x :: s' => x :: remove_first_sub e s' end.
Definition remove_char (ch : N) (s : str) : str := List.filter (fun x => negb (N.eqb x ch)) s.

Record mstate := {
  ms_chan : chan; ms_set : str; ms_unset : str; ms_params : str;
  ms_limit_entry : option str; ms_key_entry : option str; ms_out : list str }.

Definition ms_with_chan co (m : mstate) :=
  {| ms_chan := co; ms_set := ms_set m; ms_unset := ms_unset m; ms_params := ms_params m;
     ms_limit_entry := ms_limit_entry m; ms_key_entry := ms_key_entry m; ms_out := ms_out m |}.
Definition ms_add_out (l : list str) (m : mstate) :=
  {| ms_chan := ms_chan m; ms_set := ms_set m; ms_unset := ms_unset m; ms_params := ms_params m;
     ms_limit_entry := ms_limit_entry m; ms_key_entry := ms_key_entry m;
     ms_out := ms_out m ++ l |}.
Definition ms_add_params (p : str) (m : mstate) :=
  {| ms_chan := ms_chan m; ms_set := ms_set m; ms_unset := ms_unset m;
     ms_params := ms_params m ++ p;
     ms_limit_entry := ms_limit_entry m; ms_key_entry := ms_key_entry m; ms_out := ms_out m |}.

Definition rankletter_of (ch : N) : option rankletter :=
  if N.eqb ch 113 then Some RQ else if N.eqb ch 97 then Some RA else if N.eqb ch 111 then Some RO
  else if N.eqb ch 104 then Some RH else if N.eqb ch 118 then Some RV else None.

Definition cm_set_flag (ch : N) (b : bool) (m : cmodes) : cmodes :=
  {| cm_ban := cm_ban m; cm_exception := cm_exception m; cm_limit := cm_limit m;
     cm_invex := cm_invex m; cm_key := cm_key m; cm_operators := cm_operators m;
     cm_half_operators := cm_half_operators m; cm_voices := cm_voices m;
     cm_founders := cm_founders m; cm_protecteds := cm_protecteds m;
     cm_invite_only := if N.eqb ch 105 then b else cm_invite_only m;
     cm_moderated := if N.eqb ch 109 then b else cm_moderated m;
     cm_secret := if N.eqb ch 115 then b else cm_secret m;
     cm_protected_topic := if N.eqb ch 116 then b else cm_protected_topic m;
     cm_noext := if N.eqb ch 110 then b else cm_noext m |}.
Definition cm_set_limit (l : option N) (m : cmodes) : cmodes :=
  {| cm_ban := cm_ban m; cm_exception := cm_exception m; cm_limit := l;
     cm_invex := cm_invex m; cm_key := cm_key m; cm_operators := cm_operators m;
     cm_half_operators := cm_half_operators m; cm_voices := cm_voices m;
     cm_founders := cm_founders m; cm_protecteds := cm_protecteds m;
     cm_invite_only := cm_invite_only m; cm_moderated := cm_moderated m;
     cm_secret := cm_secret m; cm_protected_topic := cm_protected_topic m;
     cm_noext := cm_noext m |}.
Definition cm_set_key (k : option str) (m : cmodes) : cmodes :=
  {| cm_ban := cm_ban m; cm_exception := cm_exception m; cm_limit := cm_limit m;
     cm_invex := cm_invex m; cm_key := k; cm_operators := cm_operators m;
     cm_half_operators := cm_half_operators m; cm_voices := cm_voices m;
     cm_founders := cm_founders m; cm_protecteds := cm_protecteds m;
     cm_invite_only := cm_invite_only m; cm_moderated := cm_moderated m;
     cm_secret := cm_secret m; cm_protected_topic := cm_protected_topic m;
     cm_noext := cm_noext m |}.
Inductive listletter := LB | LE | LI.
Definition cm_get_list (l : listletter) (m : cmodes) : gset str :=
  match l with LB => cm_ban m | LE => cm_exception m | LI => cm_invex m end.
Definition cm_set_list (l : listletter) (f : gset str -> gset str) (m : cmodes) : cmodes :=
  {| cm_ban := (match l with LB => f | _ => id end) (cm_ban m);
     cm_exception := (match l with LE => f | _ => id end) (cm_exception m);
     cm_limit := cm_limit m;
     cm_invex := (match l with LI => f | _ => id end) (cm_invex m);
     cm_key := cm_key m; cm_operators := cm_operators m;
     cm_half_operators := cm_half_operators m; cm_voices := cm_voices m;
     cm_founders := cm_founders m; cm_protecteds := cm_protecteds m;
     cm_invite_only := cm_invite_only m; cm_moderated := cm_moderated m;
     cm_secret := cm_secret m; cm_protected_topic := cm_protected_topic m;
     cm_noext := cm_noext m |}.
Definition listletter_of (ch : N) : option listletter :=
  if N.eqb ch 98 then Some LB else if N.eqb ch 101 then Some LE
  else if N.eqb ch 73 then Some LI else None.

(* who may change which letter (the effect match of process_mode_channel) *)
Definition rank_may (l : rankletter) (r : rank) : bool :=
  match l with
  | RQ => r_founder r
  | RA => rk_is_protected r
  | RO | RH => rk_is_operator r
  | RV => rk_is_half_operator r
  end.

(* one character of a mode string; returns new loop state, mode_set and remaining args *)
Definition mode_char (c : conn) (client target nick : str) (r : rank) (ch : N)
           (mode_set : bool) (args : list str) (m : mstate)
  : res (mstate * bool * list str) :=
  let if_half := rk_is_half_operator r in
  let e482 := [err_chanoprivsneeded client target] in
  let cls := classify_mode ch in
  (* privilege pre-check: emits 482, decides nothing *)
  let m := match cls with
           | MRankC => match rankletter_of ch with
                       | Some rl => if rank_may rl r then m else ms_add_out e482 m
                       | None => m
                       end
           | MFlagC | MLimitC | MKeyC => if if_half then m else ms_add_out e482 m
           | _ => m
           end in
  let sign := if mode_set then c_plus else c_minus in
  match cls with
  | MPlus => Ok (m, true, args)
  | MMinus => Ok (m, false, args)
  | MListC =>
      match listletter_of ch with
      | None => Ok (m, mode_set, args)
      | Some ll =>
      match args with
      | mask :: args' =>
          if if_half then
            let nm := normalize_mask mask in
            let co := ms_chan m in
            let co1 := ch_set_modes (cm_set_list ll (fun s => if mode_set then {[nm]} ∪ s
                                                              else s ∖ {[nm]}) (ch_modes co)) co in
            let co2 := match ll with
                       | LB => ch_set_baninfo (fun b => if mode_set then <[nm := nick]> b
                                                        else delete nm b) co1
                       | _ => co1
                       end in
            Ok (ms_add_params ([c_space; sign; ch; c_space] ++ nm) (ms_with_chan co2 m),
                mode_set, args')
          else Ok (ms_add_out e482 m, mode_set, args')
      | [] =>
          let co := ms_chan m in
          let lines :=
            match ll with
            | LB => List.map (fun b => rpl_banlist client target b
                                         (default [] (ch_baninfo co !! b)))
                             (elements (cm_ban (ch_modes co)))
                    ++ [rpl_endofbanlist client target]
            | LE => List.map (rpl_exceptlist client target) (elements (cm_exception (ch_modes co)))
                    ++ [rpl_endofexceptlist client target]
            | LI => List.map (rpl_invitelist client target) (elements (cm_invex (ch_modes co)))
                    ++ [rpl_endofinvitelist client target]
            end in
          Ok (ms_add_out lines m, mode_set, [])
      end
      end
  | MRankC =>
      match rankletter_of ch with
      | None => Ok (m, mode_set, args)
      | Some rl =>
      match args with
      | [] => Panic P_mode_arg
      | arg :: args' =>
          if bool_decide (arg ∈ dom (ch_users (ms_chan m))) then
            if rank_may rl r then
              let! co' := chan_set_rank rl mode_set arg (ms_chan m) in
              Ok (ms_add_params ([c_space; sign; ch; c_space] ++ arg) (ms_with_chan co' m),
                  mode_set, args')
            else Ok (m, mode_set, args')
          else Ok (ms_add_out [err_usernotinchannel client arg target] m, mode_set, args')
      end
      end
  | MLimitC =>
    if if_half then
      let params1 := match ms_limit_entry m with
                     | Some e => remove_first_sub e (ms_params m) | None => ms_params m end in
      let unset1 := remove_char 108 (ms_unset m) in
      if mode_set then
        match args with
        | [] => Panic P_mode_arg
        | arg :: args' =>
            match parse_uint usize_max arg with
            | inr _ => Panic P_mode_limit_parse
            | inl n =>
                let entry := lit " +l " ++ arg in
                Ok ({| ms_chan := ch_set_modes (cm_set_limit (Some n) (ch_modes (ms_chan m)))
                                               (ms_chan m);
                       ms_set := ms_set m; ms_unset := unset1; ms_params := params1 ++ entry;
                       ms_limit_entry := Some entry; ms_key_entry := ms_key_entry m;
                       ms_out := ms_out m |}, mode_set, args')
            end
        end
      else
        Ok ({| ms_chan := ch_set_modes (cm_set_limit None (ch_modes (ms_chan m))) (ms_chan m);
               ms_set := ms_set m; ms_unset := unset1 ++ [108]; ms_params := params1;
               ms_limit_entry := None; ms_key_entry := ms_key_entry m; ms_out := ms_out m |},
            mode_set, args)
    else Ok (m, mode_set, args)
  | MKeyC =>
    if if_half then
      let params1 := match ms_key_entry m with
                     | Some e => remove_first_sub e (ms_params m) | None => ms_params m end in
      let unset1 := remove_char 107 (ms_unset m) in
      if mode_set then
        match args with
        | [] => Panic P_mode_arg
        | arg :: args' =>
            let entry := lit " +k " ++ arg in
            Ok ({| ms_chan := ch_set_modes (cm_set_key (Some arg) (ch_modes (ms_chan m)))
                                           (ms_chan m);
                   ms_set := ms_set m; ms_unset := unset1; ms_params := params1 ++ entry;
                   ms_limit_entry := ms_limit_entry m; ms_key_entry := Some entry;
                   ms_out := ms_out m |}, mode_set, args')
        end
      else
        Ok ({| ms_chan := ch_set_modes (cm_set_key None (ch_modes (ms_chan m))) (ms_chan m);
               ms_set := ms_set m; ms_unset := unset1 ++ [107]; ms_params := params1;
               ms_limit_entry := ms_limit_entry m; ms_key_entry := None; ms_out := ms_out m |},
            mode_set, args)
    else Ok (m, mode_set, args)
  | MFlagC =>
    if if_half then
      Ok ({| ms_chan := ch_set_modes (cm_set_flag ch mode_set (ch_modes (ms_chan m))) (ms_chan m);
             ms_set := remove_char ch (ms_set m) ++ (if mode_set then [ch] else []);
             ms_unset := remove_char ch (ms_unset m) ++ (if mode_set then [] else [ch]);
             ms_params := ms_params m; ms_limit_entry := ms_limit_entry m;
             ms_key_entry := ms_key_entry m; ms_out := ms_out m |}, mode_set, args)
    else Ok (m, mode_set, args)
  | MOtherC => Ok (m, mode_set, args)
  end.

Fixpoint mode_chars (c : conn) (client target nick : str) (r : rank) (cs : str)
         (mode_set : bool) (args : list str) (m : mstate) : res mstate :=
  match cs with
  | [] => Ok m
  | ch :: cs' =>
      let! (m', ms', args') := mode_char c client target nick r ch mode_set args m in
      mode_chars c client target nick r cs' ms' args' m'
  end.

Definition mode_announcement (target : str) (m : mstate) : option str :=
  if is_empty (ms_set m) && is_empty (ms_unset m) && is_empty (ms_params m) then None else
  let flags := (if is_empty (ms_set m) then [] else c_plus :: ms_set m)
               ++ (if is_empty (ms_unset m) then [] else c_minus :: ms_unset m) in
  let body := if is_empty (ms_params m) then flags
              else if is_empty flags then tl (ms_params m)
              else flags ++ ms_params m in
  Some (lit "MODE " ++ target ++ [c_space] ++ body).

Definition process_mode_channel (s : shared) (c : conn) (target nick : str) (co : chan)
           (r : rank) (modes : list (str * list str)) : res hres :=
  let client := client_name c in
  if is_empty modes then
    hr s c (mine [rpl_channelmodeis client target (cmodes_str (ch_modes co));
                  rpl_creationtime client target])
  else
    let m0 := {| ms_chan := co; ms_set := []; ms_unset := []; ms_params := [];
                 ms_limit_entry := None; ms_key_entry := None; ms_out := [] |} in
    let! m := rfold (fun m '(mchars, margs) =>
                       mode_chars c client target nick r mchars false margs m) modes m0 in
    let s' := set_chans (fun cs => <[target := ms_chan m]> cs) s in
    let! ann := match mode_announcement target m with
                | Some body => send_all s' (member_names (ms_chan m)) (from (c_source c) body)
                | None => Ok []
                end in
    hr s' c (mine (ms_out m) ++ ann).

(* ------------------------------------------------------------------ MODE (user) *)
Record umstate := { us_modes : umodes; us_sh : shared; us_set : str; us_unset : str;
                    us_out : list str }.

Definition umode_char (c : conn) (client nick : str) (ch : N) (mode_set : bool) (m : umstate)
  : res umstate :=
  let um := us_modes m in
  let upd (um' : umodes) (s' : shared) (set_ unset_ : str) (o : list str) :=
    Ok {| us_modes := um'; us_sh := s'; us_set := us_set m ++ set_;
          us_unset := us_unset m ++ unset_; us_out := us_out m ++ o |} in
  let with_ (i_ o_ lo_ r_ w_ : bool) :=
    {| um_invisible := i_; um_oper := o_; um_local_oper := lo_; um_registered := r_;
       um_wallops := w_ |} in
  let s := us_sh m in
  if N.eqb ch 105 (* i *) then
    if mode_set then
      if um_invisible um then Ok m
      else upd (with_ true (um_oper um) (um_local_oper um) (um_registered um) (um_wallops um))
               (set_inv_count (inv_count s + 1) s) [ch] [] []
    else if um_invisible um then
      let! n := dec_counter (inv_count s) in
      upd (with_ false (um_oper um) (um_local_oper um) (um_registered um) (um_wallops um))
          (set_inv_count n s) [] [ch] []
    else Ok m
  else if N.eqb ch 114 (* r *) then
    if mode_set then
      if um_registered um then Ok m
      else if c_registered c
      then upd (with_ (um_invisible um) (um_oper um) (um_local_oper um) true (um_wallops um))
               s [ch] [] []
      else upd um s [] [] [err_noprivileges client]
    else if um_registered um
    then upd (with_ (um_invisible um) (um_oper um) (um_local_oper um) false (um_wallops um))
             s [] [ch] [err_yourconnrestricted client]
    else Ok m
  else if N.eqb ch 119 (* w *) then
    if mode_set then
      if um_wallops um then Ok m
      else upd (with_ (um_invisible um) (um_oper um) (um_local_oper um) (um_registered um) true)
               (set_wallops (fun w => {[nick]} ∪ w) s) [ch] [] []
    else if um_wallops um
    then upd (with_ (um_invisible um) (um_oper um) (um_local_oper um) (um_registered um) false)
             (set_wallops (fun w => w ∖ {[nick]}) s) [] [ch] []
    else Ok m
  else if N.eqb ch 111 (* o *) then
    if mode_set then
      if um_oper um then Ok m else upd um s [] [] [err_noprivileges client]
    else if um_oper um then
      if um_local_oper um
      then upd (with_ (um_invisible um) false (um_local_oper um) (um_registered um) (um_wallops um))
               s [] [] []
      else let! n := dec_counter (op_count s) in
           upd (with_ (um_invisible um) false (um_local_oper um) (um_registered um) (um_wallops um))
               (set_op_count n s) [] [ch] []
    else Ok m
  else if N.eqb ch 79 (* O *) then
    if mode_set then
      if um_local_oper um then Ok m else upd um s [] [] [err_noprivileges client]
    else if is_local_oper um then
      let! n := dec_counter (op_count s) in
      upd (with_ (um_invisible um) false false (um_registered um) (um_wallops um))
          (set_op_count n s) [] [ch] []
    else Ok m
  else Ok m.

Fixpoint umode_chars (c : conn) (client nick : str) (cs : str) (mode_set : bool) (m : umstate)
  : res umstate :=
  match cs with
  | [] => Ok m
  | ch :: cs' =>
      if N.eqb ch c_plus then umode_chars c client nick cs' true m
      else if N.eqb ch c_minus then umode_chars c client nick cs' false m
      else let! m' := umode_char c client nick ch mode_set m in
           umode_chars c client nick cs' mode_set m'
  end.

Definition process_mode_user (s : shared) (c : conn) (nick : str)
           (modes : list (str * list str)) : res hres :=
  let client := client_name c in
  let! u := get_user s nick in
  if is_empty modes then hr s c [me (rpl_umodeis client (umodes_str (u_modes u)))] else
  let m0 := {| us_modes := u_modes u; us_sh := s; us_set := []; us_unset := []; us_out := [] |} in
  let! m := rfold (fun m '(mchars, _) => umode_chars c client nick mchars false m) modes m0 in
  let s' := set_users (fun us => <[nick := u_set_modes (us_modes m) u]> us) (us_sh m) in
  let ann := if is_empty (us_set m) && is_empty (us_unset m) then [] else
             [(i, from (c_source c)
                       (lit "MODE " ++ nick ++ [c_space]
                        ++ (if is_empty (us_set m) then [] else c_plus :: us_set m)
                        ++ (if is_empty (us_unset m) then [] else c_minus :: us_unset m)))] in
  hr s' c (mine (us_out m) ++ ann).

Definition process_mode (s : shared) (c : conn) (target : str) (modes : list (str * list str))
  : res hres :=
  let client := client_name c in
  let! nick := own_nick c in
  if validate_channel target then
    match chans s !! target with
    | Some co =>
        match ch_users co !! nick with
        | Some r => process_mode_channel s c target nick co r modes
        | None => hr s c [me (err_notonchannel client target)]
        end
    | None => hr s c [me (err_nosuchchannel client target)]
    end
  else if bool_decide (nick = target) then process_mode_user s c nick modes
  else match users s !! target with
       | Some _ => hr s c [me (err_usersdontmatch client)]
       | None => hr s c [me (err_nosuchnick client target)]
       end.

(* ------------------------------------------------------------------ dispatch *)
Definition dispatch (s : shared) (c : conn) (cmd : command) (msg : message) : res hres :=
  match cmd with
  | CAP sub caps _ => process_cap s c sub caps
  | AUTHENTICATE => process_authenticate s c
  | PASS p => process_pass s c p
  | NICK n => process_nick s c n msg
  | USER u _ _ r => process_user s c u r
  | PING t => process_ping s c t
  | PONG _ => process_pong s c
  | OPER n p => process_oper s c n p
  | QUIT => process_quit s c
  | JOIN chs keys => process_join s c chs keys
  | PART chs r => process_part s c chs r
  | TOPIC ch t => process_topic s c ch t msg
  | NAMES chs => process_names s c chs
  | LIST chs srv_ => process_list s c chs srv_
  | INVITE n ch => process_invite s c n ch msg
  | KICK ch us cm => process_kick s c ch us cm
  | MOTD t => process_motd s c t
  | VERSION t => process_version s c t
  | ADMIN t => process_admin s c t
  | CONNECT _ _ _ => unsupported s c "CONNECT"
  | LUSERS => process_lusers s c
  | TIME sv => process_time s c sv
  | STATS q sv => process_stats s c q sv
  | LINKS rs sm => process_links s c rs sm
  | HELP subj => process_help s c subj
  | INFO => process_info s c
  | MODE t ms => process_mode s c t ms
  | PRIVMSG ts txt => process_privmsg_notice s c ts txt false
  | NOTICE ts txt => process_privmsg_notice s c ts txt true
  | WHO m => process_who s c m
  | WHOIS t ms => process_whois s c t ms
  | WHOWAS n cnt sv => process_whowas s c n cnt sv
  | KILL n cm => process_kill s c n cm
  | REHASH => unsupported s c "REHASH"
  | RESTART => unsupported s c "RESTART"
  | SQUIT sv cm => process_squit s c sv cm
  | AWAY t => process_away s c t
  | USERHOST ns => process_userhost s c ns
  | WALLOPS _ => process_wallops s c msg
  | ISON ns => process_ison s c ns
  | DIE m => process_die s c m
  end.

End handlers.
