(* MsgP.v - PRIVMSG / NOTICE: audience, exactly-once delivery, speaking restrictions (C01, C10). *)
From IRC Require Import Str Wild Mask Parse Reply State Handlers Step.
From IRCP Require Import StrP.
From stdpp Require Import gmap.
Open Scope N_scope.

(* dedup_str keeps one copy of every element *)
Lemma dedup_str_elem x l : x ∈ dedup_str l <-> x ∈ l.
Proof.
  induction l as [|y l IH]; cbn; [reflexivity|].
  destruct (existsb (str_eqb y) l) eqn:E.
  - rewrite IH, elem_of_cons. apply existsb_str_eqb in E. split; [auto|intros [->|]; auto].
  - rewrite !elem_of_cons, IH. reflexivity.
Qed.

Lemma dedup_str_nodup l : NoDup (dedup_str l).
Proof.
  induction l as [|y l IH]; cbn; [apply NoDup_nil_2|].
  destruct (existsb (str_eqb y) l) eqn:E; [exact IH|].
  apply NoDup_cons_2; [|exact IH]. rewrite dedup_str_elem. intros H.
  apply existsb_str_eqb in H. congruence.
Qed.

Section msg.
Context (cfg : config) (i : nat).

(* what [send_all] queues: one line for each name, to the connection owning that name *)
Definition delivered (s : shared) (line : str) (n : str) (x : nat * str) : Prop :=
  exists u, users s !! n = Some u /\ x = (u_conn u, line).

Lemma send_all_acc s ns line acc o :
  rfold (fun acc n => let! x := send_to s n line in Ok (acc ++ [x])) ns acc = Ok o ->
  exists o', o = acc ++ o' /\ Forall2 (delivered s line) ns o'.
Proof.
  revert acc. induction ns as [|n ns IH]; intros acc; cbn [rfold].
  - intros [= <-]. exists []. split; [now rewrite app_nil_r|constructor].
  - unfold send_to at 1, get_user at 1. destruct (users s !! n) as [u|] eqn:Hu; cbn [rbind]; [|discriminate].
    intros H. destruct (IH _ H) as [o' [-> F]].
    exists ((u_conn u, line) :: o'). split; [now rewrite <- app_assoc|].
    constructor; [exists u; auto|exact F].
Qed.

Lemma send_all_spec s ns line o :
  send_all s ns line = Ok o -> Forall2 (delivered s line) ns o.
Proof.
  unfold send_all. intros H. destruct (send_all_acc _ _ _ _ _ H) as [o' [-> F]]. exact F.
Qed.

Lemma audience_nodup ty co : NoDup (audience ty co).
Proof.
  unfold audience. destruct (tt_special ty).
  - apply NoDup_elements.
  - unfold member_names. apply NoDup_fst_map_to_list.
Qed.

Lemma audience_elem ty co n :
  n ∈ audience ty co <->
  if tt_special ty then
    (tt_founder ty = true /\ n ∈ cm_founders (ch_modes co)) \/
    (tt_protected ty = true /\ n ∈ cm_protecteds (ch_modes co)) \/
    (tt_oper ty = true /\ n ∈ cm_operators (ch_modes co)) \/
    (tt_half ty = true /\ n ∈ cm_half_operators (ch_modes co)) \/
    (tt_voice ty = true /\ n ∈ cm_voices (ch_modes co))
  else n ∈ dom (ch_users co).
Proof.
  unfold audience. destruct (tt_special ty).
  - rewrite elem_of_elements, !elem_of_union.
    destruct (tt_founder ty), (tt_protected ty), (tt_oper ty), (tt_half ty), (tt_voice ty);
      set_solver.
  - unfold member_names. rewrite elem_of_list_fmap, elem_of_dom. split.
    + intros [[k v] [-> H]]. apply elem_of_map_to_list in H. eauto.
    + intros [v H]. exists (n, v). split; [reflexivity|now apply elem_of_map_to_list].
Qed.

Lemma filter_not_self_elem (nick : str) l n :
  n ∈ List.filter (fun x => negb (str_eqb x nick)) l <-> n ∈ l /\ n <> nick.
Proof.
  rewrite !elem_of_list_In, filter_In, negb_true_iff, str_eqb_neq. reflexivity.
Qed.

Lemma filter_nodup {A} (f : A -> bool) l : NoDup l -> NoDup (List.filter f l).
Proof.
  induction 1 as [|x l Hx Hl IH]; cbn; [apply NoDup_nil_2|].
  destruct (f x); [|exact IH]. apply NoDup_cons_2; [|exact IH].
  rewrite elem_of_list_In, filter_In. intros [H _]. apply Hx. now apply elem_of_list_In.
Qed.

Definition msg_line (c : conn) (notice : bool) (target text : str) : str :=
  from (c_source c) ((if notice then lit "NOTICE " else lit "PRIVMSG ") ++ target ++ lit " :" ++ text).

(* channel target that may speak: each audience member other than the sender, exactly once *)
Lemma privmsg_one_channel_ok s c nick text notice target ty ch co o d :
  privmsg_one cfg i s c nick text notice target = Ok (o, d) ->
  target_type target = (ty, ch) -> tt_channel ty = true -> chans s !! ch = Some co ->
  can_send co nick (c_source c) = true ->
  d = true /\
  exists rcpts, NoDup rcpts /\ (forall n, n ∈ rcpts <-> n ∈ audience ty co /\ n <> nick) /\
                Forall2 (delivered s (msg_line c notice target text)) rcpts o.
Proof.
  unfold privmsg_one. intros H Ht Hc Hco Hs. rewrite Ht, Hc, Hco, Hs in H.
  destruct (send_all _ _ _) as [sent|] eqn:Hsend; cbn [rbind] in H; [|discriminate].
  injection H as <- <-. split; [reflexivity|].
  eexists. split; [apply filter_nodup, audience_nodup|]. split; [apply filter_not_self_elem|].
  apply send_all_spec in Hsend. exact Hsend.
Qed.

(* channel target that may not speak: nobody hears anything; PRIVMSG gets one 404, NOTICE nothing *)
Lemma privmsg_one_channel_refused s c nick text notice target ty ch co o d :
  privmsg_one cfg i s c nick text notice target = Ok (o, d) ->
  target_type target = (ty, ch) -> tt_channel ty = true -> chans s !! ch = Some co ->
  can_send co nick (c_source c) = false ->
  d = false /\ o = if notice then [] else [(i, srv cfg (err_cannotsendtochan (client_name c) ch))].
Proof.
  unfold privmsg_one. intros H Ht Hc Hco Hs. rewrite Ht, Hc, Hco, Hs in H.
  injection H as <- <-. split; reflexivity.
Qed.

Lemma privmsg_one_channel_absent s c nick text notice target ty ch o d :
  privmsg_one cfg i s c nick text notice target = Ok (o, d) ->
  target_type target = (ty, ch) -> tt_channel ty = true -> chans s !! ch = None ->
  d = false /\ o = if notice then [] else [(i, srv cfg (err_nosuchchannel (client_name c) ch))].
Proof.
  unfold privmsg_one. intros H Ht Hc Hco. rewrite Ht, Hc, Hco in H.
  injection H as <- <-. split; reflexivity.
Qed.

(* nickname target: the one owner, once; away text only for PRIVMSG *)
Lemma privmsg_one_nick s c nick text notice target ty ch o d :
  privmsg_one cfg i s c nick text notice target = Ok (o, d) ->
  target_type target = (ty, ch) -> tt_channel ty = false ->
  match users s !! target with
  | Some u => d = true /\
              o = (u_conn u, msg_line c notice target text) ::
                  (if notice then [] else
                     match u_away u with
                     | Some a => [(i, srv cfg (rpl_away (client_name c) target a))]
                     | None => [] end)
  | None => d = false /\ o = if notice then [] else [(i, srv cfg (err_nosuchnick (client_name c) target))]
  end.
Proof.
  unfold privmsg_one. intros H Ht Hc. rewrite Ht, Hc in H.
  destruct (users s !! target) as [u|]; injection H as <- <-; split; reflexivity.
Qed.

(* NOTICE is never answered: every queued line is the relayed NOTICE itself *)
Lemma privmsg_one_notice_silent s c nick text target o d :
  privmsg_one cfg i s c nick text true target = Ok (o, d) ->
  Forall (fun x => x.2 = msg_line c true target text) o.
Proof.
  unfold privmsg_one. destruct (target_type target) as [ty ch].
  destruct (tt_channel ty).
  - destruct (chans s !! ch) as [co|]; [|intros [= <- <-]; constructor].
    destruct (can_send co nick (c_source c)); [|intros [= <- <-]; constructor].
    destruct (send_all _ _ _) as [sent|] eqn:Hsend; cbn [rbind]; [|discriminate].
    intros [= <- <-]. apply send_all_spec in Hsend.
    induction Hsend as [|n x ns o' [u [_ ->]] _ IH]; constructor; [reflexivity|exact IH].
  - destruct (users s !! target) as [u|]; intros [= <- <-]; repeat constructor.
Qed.

(* the whole command: the per-target results over the distinct targets, concatenated *)
Lemma privmsg_fold s c nick text notice ts o0 d0 o d :
  rfold (fun '(o, done) target =>
           let! (o1, d1) := privmsg_one cfg i s c nick text notice target in
           Ok (o ++ o1, done || d1)) ts (o0, d0) = Ok (o, d) ->
  exists outs, Forall2 (fun t x => exists d1, privmsg_one cfg i s c nick text notice t = Ok (x, d1)) ts outs
               /\ o = o0 ++ concat outs.
Proof.
  revert o0 d0. induction ts as [|t ts IH]; intros o0 d0; cbn [rfold].
  - intros [= <- <-]. exists []. split; [constructor|cbn; now rewrite app_nil_r].
  - destruct (privmsg_one cfg i s c nick text notice t) as [[o1 d1]|] eqn:H1; cbn [rbind]; [|discriminate].
    intros H. destruct (IH _ _ H) as [outs [F ->]].
    exists (o1 :: outs). split; [constructor; [eauto|exact F]|cbn; now rewrite <- app_assoc].
Qed.

Lemma process_privmsg_notice_spec s c targets text notice r :
  process_privmsg_notice cfg i s c targets text notice = Ok r ->
  h_sh r = s /\ h_conn r = c /\ h_quit r = false /\
  exists nick outs, c_nick c = Some nick /\
    Forall2 (fun t x => exists d1, privmsg_one cfg i s c nick text notice t = Ok (x, d1))
            (dedup_str targets) outs /\
    h_out r = concat outs.
Proof.
  unfold process_privmsg_notice, own_nick.
  destruct (c_nick c) as [nick|]; cbn [rbind]; [|discriminate].
  destruct (rfold _ _ _) as [[o d]|] eqn:Hf; cbn [rbind]; [|discriminate].
  destruct (if d then _ else _) as [[]|]; cbn [rbind]; [|discriminate].
  intros [= <-]. cbn. repeat split; try reflexivity.
  destruct (privmsg_fold _ _ _ _ _ _ _ _ _ _ Hf) as [outs [F ->]].
  exists nick, outs. split; [reflexivity|]. split; [exact F|reflexivity].
Qed.

(* the whole NOTICE command is never answered *)
Lemma notice_silent s c targets text r :
  process_privmsg_notice cfg i s c targets text true = Ok r ->
  Forall (fun x => exists t, t ∈ targets /\ x.2 = msg_line c true t text) (h_out r).
Proof.
  intros H. apply process_privmsg_notice_spec in H as [_ [_ [_ [nick [outs [_ [F ->]]]]]]].
  assert (forall t, t ∈ dedup_str targets -> t ∈ targets) as Hin by (intros t; apply dedup_str_elem).
  revert Hin. generalize dependent (dedup_str targets). intros ts0 F.
  induction F as [|t o ts outs [d1 H1] F IH]; intros Hin; cbn [concat]; [constructor|].
  apply Forall_app. split.
  - apply privmsg_one_notice_silent in H1. eapply Forall_impl; [exact H1|].
    intros x Hx. exists t. split; [apply Hin; left|exact Hx].
  - apply IH. intros t' Ht'. apply Hin. now right.
Qed.

(* AWAY stores exactly the text sent (the last one wins: the record is overwritten), an AWAY without text clears it;
   nothing else of the record and nobody else's record changes; 306 / 305 to the sender *)
Lemma away_effect s c text nick u :
  c_nick c = Some nick -> users s !! nick = Some u ->
  exists r, process_away cfg i s c text = Ok r /\ h_conn r = c /\ h_quit r = false /\
    users (h_sh r) = <[nick := u_set_away text u]> (users s) /\ chans (h_sh r) = chans s /\
    u_away (u_set_away text u) = text /\
    h_out r = [(i, srv cfg (match text with Some _ => rpl_nowaway (client_name c) | None => rpl_unaway (client_name c) end))].
Proof.
  intros Hn Hu. unfold process_away, own_nick, get_user. rewrite Hn. cbn [rbind]. rewrite Hu. cbn [rbind].
  eexists. split; [reflexivity|]. cbn. repeat split.
Qed.

End msg.
