(* AnnounceP.v - the flag part of the channel MODE announcement describes exactly what changed: a
   flag letter announced in the '+' group is set afterwards, one announced in the '-' group is
   clear afterwards, none is announced in both, and a flag that is not announced is as it was. *)
From IRC Require Import Str Wild Glob Mask Parse Reply State Handlers Step.
From IRCP Require Import StrP ClassP ModeP.
From stdpp Require Import gmap.
Open Scope N_scope.

Local Arguments lit : simpl never.

Definition flag5 (co : chan) : bool * bool * bool * bool * bool :=
  let m := ch_modes co in (cm_invite_only m, cm_moderated m, cm_secret m, cm_protected_topic m, cm_noext m).

Definition flag_of (f : N) (co : chan) : bool :=
  let m := ch_modes co in
  if N.eqb f 105 then cm_invite_only m else if N.eqb f 109 then cm_moderated m else if N.eqb f 115 then cm_secret m
  else if N.eqb f 116 then cm_protected_topic m else cm_noext m.

Definition is_flag_letter (f : N) : bool := N.eqb f 105 || N.eqb f 109 || N.eqb f 115 || N.eqb f 116 || N.eqb f 110.

Lemma flag_of_flag5 f a b : flag5 a = flag5 b -> flag_of f a = flag_of f b.
Proof. unfold flag5, flag_of. intros [= -> -> -> -> ->]. reflexivity. Qed.

Lemma chan_set_rank_flags l b n co co' : chan_set_rank l b n co = Ok co' -> flag5 co' = flag5 co.
Proof.
  unfold chan_set_rank. destruct (ch_users co !! n); [|discriminate]. intros [= <-]. destruct l; reflexivity.
Qed.

Lemma in_remove_char f ch s : In f (remove_char ch s) <-> In f s /\ f <> ch.
Proof.
  unfold remove_char. rewrite filter_In, negb_true_iff. split; intros [A B]; (split; [exact A|]).
  - intros ->. now rewrite N.eqb_refl in B.
  - now apply N.eqb_neq.
Qed.

Section announce.
Context (c : conn) (client target nick : str) (r : rank).

(* letters that are not flags leave the flags and the '+' group alone, and touch the '-' group only at 'k' / 'l' *)
Lemma mode_char_nonflag ch mode_set args m m' ms' args' :
  classify_mode ch <> MFlagC ->
  mode_char c client target nick r ch mode_set args m = Ok (m', ms', args') ->
  flag5 (ms_chan m') = flag5 (ms_chan m) /\ ms_set m' = ms_set m /\
  (forall f, f <> 107 -> f <> 108 -> (In f (ms_unset m') <-> In f (ms_unset m))).
Proof.
  intros Hc. unfold mode_char. destruct (classify_mode ch) eqn:Hcls; try contradiction; clear Hc;
  repeat match goal with
         | |- context [match ?x with _ => _ end] => destruct x eqn:?
         | |- context [if ?x then _ else _] => destruct x eqn:?
         | |- context [rbind ?x _] => destruct x eqn:?; cbn [rbind]
         end;
  cbn [rbind]; try discriminate;
  try match goal with
      | H : chan_set_rank _ _ _ _ = Ok _ |- _ => apply chan_set_rank_flags in H
      end;
  intros [= <- <- <-]; cbn [ms_chan ms_set ms_unset ms_with_chan ms_add_params ms_add_out];
  (split; [first [assumption|reflexivity|destruct l; reflexivity]|]); (split; [reflexivity|]);
  intros f H7 H8; rewrite ?in_app_iff, ?in_remove_char; cbn [In]; try tauto;
  (split; [intros [[H _]|[E|[]]]; [exact H|congruence]|intros H; left; split; [exact H|congruence]]) || (split; [intros [H _]; exact H|intros H; split; [exact H|congruence]]) || tauto.
Qed.

Lemma classify_flag ch : classify_mode ch = MFlagC -> is_flag_letter ch = true.
Proof.
  unfold classify_mode.
  destruct (N.eqb ch c_plus); [discriminate|]. destruct (N.eqb ch c_minus); [discriminate|].
  destruct (in_chars ch "beI"); [discriminate|]. destruct (in_chars ch "ovhqa"); [discriminate|].
  destruct (N.eqb ch 108); [discriminate|]. destruct (N.eqb ch 107); [discriminate|].
  destruct (in_chars ch "imtns") eqn:E; [|discriminate]. intros _.
  apply in_chars_cases in E. vm_compute in E. destruct E as [<-|[<-|[<-|[<-|[<-|[]]]]]]; reflexivity.
Qed.

Lemma mode_char_flag ch mode_set args m m' ms' args' :
  classify_mode ch = MFlagC ->
  mode_char c client target nick r ch mode_set args m = Ok (m', ms', args') ->
  (ms_chan m' = ch_set_modes (cm_set_flag ch mode_set (ch_modes (ms_chan m))) (ms_chan m) /\
   ms_set m' = remove_char ch (ms_set m) ++ (if mode_set then [ch] else []) /\
   ms_unset m' = remove_char ch (ms_unset m) ++ (if mode_set then [] else [ch])) \/
  (ms_chan m' = ms_chan m /\ ms_set m' = ms_set m /\ ms_unset m' = ms_unset m).
Proof.
  intros Hc. unfold mode_char. rewrite Hc. destruct (rk_is_half_operator r); intros [= <- <- <-]; cbn; auto.
Qed.

Lemma flag_of_set_same f b co : is_flag_letter f = true ->
  flag_of f (ch_set_modes (cm_set_flag f b (ch_modes co)) co) = b.
Proof.
  unfold is_flag_letter. intros H. repeat (apply orb_true_iff in H as [H|H]); apply N.eqb_eq in H; subst f; reflexivity.
Qed.

Lemma flag_of_set_other f ch b co : is_flag_letter f = true -> is_flag_letter ch = true -> f <> ch ->
  flag_of f (ch_set_modes (cm_set_flag ch b (ch_modes co)) co) = flag_of f co.
Proof.
  unfold is_flag_letter. intros Hf Hch Hne.
  repeat (apply orb_true_iff in Hf as [Hf|Hf]); apply N.eqb_eq in Hf; subst f;
    repeat (apply orb_true_iff in Hch as [Hch|Hch]); apply N.eqb_eq in Hch; subst ch; try contradiction; reflexivity.
Qed.

(* the invariant of the announcement with respect to the channel the command started from *)
Definition ann_inv (co0 : chan) (m : mstate) : Prop :=
  forall f, is_flag_letter f = true ->
    (In f (ms_set m) -> flag_of f (ms_chan m) = true) /\
    (In f (ms_unset m) -> flag_of f (ms_chan m) = false) /\
    (~ In f (ms_set m) -> ~ In f (ms_unset m) -> flag_of f (ms_chan m) = flag_of f co0).

Lemma flag_letter_not_kl f : is_flag_letter f = true -> f <> 107 /\ f <> 108.
Proof.
  unfold is_flag_letter. intros H. repeat (apply orb_true_iff in H as [H|H]); apply N.eqb_eq in H; subst f; split; intros E; discriminate E.
Qed.

Lemma mode_char_ann co0 ch mode_set args m m' ms' args' :
  ann_inv co0 m -> mode_char c client target nick r ch mode_set args m = Ok (m', ms', args') -> ann_inv co0 m'.
Proof.
  intros Inv H.
  assert (classify_mode ch <> MFlagC -> ann_inv co0 m') as NF.
  { intros Hn. destruct (mode_char_nonflag ch mode_set args m m' ms' args' Hn H) as [Hf [Hs Hu]].
    intros f Hfl. destruct (Inv f Hfl) as [A [B C]]. destruct (flag_letter_not_kl f Hfl) as [N7 N8].
    rewrite (flag_of_flag5 f _ _ Hf), Hs. rewrite (Hu f N7 N8). auto. }
  destruct (classify_mode ch) eqn:Hcls; try (apply NF; discriminate).
  destruct (mode_char_flag ch mode_set args m m' ms' args' Hcls H) as [[Ec [Es Eu]]|[Ec [Es Eu]]].
  - pose proof (classify_flag ch Hcls) as Hch. intros f Hfl. rewrite Ec, Es, Eu. destruct (Inv f Hfl) as [A [B C]].
    destruct (N.eq_dec f ch) as [->|Hne].
    + rewrite flag_of_set_same by exact Hch. rewrite !in_app_iff, !in_remove_char. destruct mode_set; cbn [In].
      * split; [auto|]. split; [intros [[_ F]|[]]; congruence|]. intros F _. exfalso. apply F. right. now left.
      * split; [intros [[_ F]|[]]; congruence|]. split; [auto|]. intros _ F. exfalso. apply F. right. now left.
    + rewrite flag_of_set_other by assumption. rewrite !in_app_iff, !in_remove_char.
      split; [intros [[H1 _]|H1]; [auto|destruct mode_set; cbn in H1; [destruct H1 as [E|[]]; congruence|contradiction]]|].
      split; [intros [[H1 _]|H1]; [auto|destruct mode_set; cbn in H1; [contradiction|destruct H1 as [E|[]]; congruence]]|].
      intros N1 N2. apply C; intros F; [apply N1|apply N2]; left; split; assumption.
  - intros f Hfl. rewrite Ec, Es, Eu. apply Inv. exact Hfl.
Qed.

Lemma mode_chars_ann co0 cs : forall mode_set args m m',
  ann_inv co0 m -> mode_chars c client target nick r cs mode_set args m = Ok m' -> ann_inv co0 m'.
Proof.
  induction cs as [|ch cs IH]; intros mode_set args m m' Inv; cbn [mode_chars].
  - intros [= <-]. exact Inv.
  - destruct (mode_char c client target nick r ch mode_set args m) as [[[m1 ms1] a1]|] eqn:H1; cbn [rbind]; [|discriminate].
    intros H. eapply IH; [|exact H]. eapply mode_char_ann; eauto.
Qed.

Lemma ann_inv_init co : ann_inv co {| ms_chan := co; ms_set := []; ms_unset := []; ms_params := [];
                                      ms_limit_entry := None; ms_key_entry := None; ms_out := [] |}.
Proof. intros f _. cbn. repeat split; try contradiction. Qed.

(* the whole command, any number of mode groups *)
Theorem mode_groups_ann co modes m :
  rfold (fun m '(mchars, margs) => mode_chars c client target nick r mchars false margs m) modes
        {| ms_chan := co; ms_set := []; ms_unset := []; ms_params := []; ms_limit_entry := None; ms_key_entry := None; ms_out := [] |} = Ok m ->
  ann_inv co m.
Proof.
  generalize (ann_inv_init co). generalize {| ms_chan := co; ms_set := []; ms_unset := []; ms_params := []; ms_limit_entry := None; ms_key_entry := None; ms_out := [] |}.
  induction modes as [|[mc ma] modes IH]; intros m0 Inv; cbn [rfold].
  - intros [= <-]. exact Inv.
  - destruct (mode_chars c client target nick r mc false ma m0) as [m1|] eqn:E; cbn [rbind]; [|discriminate].
    apply IH. eapply mode_chars_ann; eauto.
Qed.

End announce.

Section announce2.
Context (cfg : config) (i : nat).

(* channel MODE with at least one group: the new channel, the announcement and its audience *)
Theorem mode_channel_announced s c target nick co rk modes r :
  is_empty modes = false -> process_mode_channel cfg i s c target nick co rk modes = Ok r ->
  exists m, h_sh r = set_chans (fun cs => <[target := ms_chan m]> cs) s /\ ann_inv co m /\
    match mode_announcement target m with
    | Some body => exists ann, send_all (h_sh r) (member_names (ms_chan m)) (from (c_source c) body) = Ok ann /\
                               h_out r = mine cfg i (ms_out m) ++ ann
    | None => h_out r = mine cfg i (ms_out m)
    end.
Proof.
  intros He. unfold process_mode_channel. rewrite He.
  match goal with |- context [rfold ?F modes ?m0] => destruct (rfold F modes m0) as [m|] eqn:E end; cbn [rbind]; [|discriminate].
  pose proof (mode_groups_ann c (client_name c) target nick rk co modes m E) as Inv.
  destruct (mode_announcement target m) as [body|] eqn:Ea.
  - destruct (send_all _ _ _) as [ann|] eqn:Es; cbn [rbind]; [|discriminate]. intros [= <-]. cbn [h_sh h_out].
    exists m. split; [reflexivity|]. split; [exact Inv|]. rewrite Ea. exists ann. split; [exact Es|reflexivity].
  - cbn [rbind]. intros [= <-]. cbn [h_sh h_out]. exists m. split; [reflexivity|]. split; [exact Inv|]. rewrite Ea. now rewrite app_nil_r.
Qed.

(* the flag groups of the announcement text are the accumulated '+' and '-' letters *)
Theorem announcement_text target m body : mode_announcement target m = Some body ->
  exists rest, body = lit "MODE " ++ target ++ [c_space] ++ rest /\
    (is_empty (ms_params m) = true ->
       rest = (if is_empty (ms_set m) then [] else c_plus :: ms_set m) ++ (if is_empty (ms_unset m) then [] else c_minus :: ms_unset m)).
Proof.
  unfold mode_announcement. destruct (_ && _); [discriminate|]. intros [= <-]. eexists. split; [reflexivity|].
  intros ->. reflexivity.
Qed.

End announce2.

(* ---------------------------------------------------------------- the parameter part, letter by letter *)
Section announce3.
Context (c : conn) (client target nick : str) (r : rank).

(* an accepted rank letter appends exactly " <sign><letter> <nick>" to the parameter part of the announcement
   and leaves the two flag groups and the replies to the sender alone *)
Theorem mode_char_rank_announced ch rl mode_set arg args m m' ms' args' :
  rankletter_of ch = Some rl -> rank_may rl r = true -> arg ∈ dom (ch_users (ms_chan m)) ->
  mode_char c client target nick r ch mode_set (arg :: args) m = Ok (m', ms', args') ->
  ms_params m' = ms_params m ++ [c_space; (if mode_set then c_plus else c_minus); ch; c_space] ++ arg /\
  ms_set m' = ms_set m /\ ms_unset m' = ms_unset m /\ ms_out m' = ms_out m /\
  ms_limit_entry m' = ms_limit_entry m /\ ms_key_entry m' = ms_key_entry m.
Proof.
  intros Hl Hr Hin. unfold rankletter_of in Hl.
  assert (ch = 113 \/ ch = 97 \/ ch = 111 \/ ch = 104 \/ ch = 118) as Hch.
  { repeat match type of Hl with (if N.eqb ?a ?b then _ else _) = _ => destruct (N.eqb_spec a b); [auto 10|] end.
    discriminate. }
  assert (classify_mode ch = MRankC) as Hc by (destruct Hch as [->|[->|[->|[->| ->]]]]; reflexivity).
  assert (rankletter_of ch = Some rl) as Hl' by (unfold rankletter_of; exact Hl).
  unfold mode_char. rewrite Hc, Hl'. cbn zeta. rewrite Hr.
  rewrite (bool_decide_eq_true_2 _ Hin).
  destruct (chan_set_rank rl mode_set arg (ms_chan m)) as [co'|] eqn:Hsr; cbn [rbind]; [|discriminate].
  intros [= <- <- <-]. cbn. auto 10.
Qed.

(* a rank letter the actor may not use, or naming somebody who is not on the channel, announces nothing *)
Theorem mode_char_rank_silent ch rl mode_set arg args m m' ms' args' :
  rankletter_of ch = Some rl -> (rank_may rl r = false \/ arg ∉ dom (ch_users (ms_chan m))) ->
  mode_char c client target nick r ch mode_set (arg :: args) m = Ok (m', ms', args') ->
  ms_params m' = ms_params m /\ ms_set m' = ms_set m /\ ms_unset m' = ms_unset m /\ ms_chan m' = ms_chan m.
Proof.
  intros Hl Hno. unfold rankletter_of in Hl.
  assert (ch = 113 \/ ch = 97 \/ ch = 111 \/ ch = 104 \/ ch = 118) as Hch.
  { repeat match type of Hl with (if N.eqb ?a ?b then _ else _) = _ => destruct (N.eqb_spec a b); [auto 10|] end.
    discriminate. }
  assert (classify_mode ch = MRankC) as Hc by (destruct Hch as [->|[->|[->|[->| ->]]]]; reflexivity).
  assert (rankletter_of ch = Some rl) as Hl' by (unfold rankletter_of; exact Hl).
  unfold mode_char. rewrite Hc, Hl'. cbn zeta.
  destruct (rank_may rl r) eqn:Hr.
  - destruct (bool_decide (arg ∈ dom (ch_users (ms_chan m)))) eqn:Hd.
    + exfalso. destruct Hno as [?|Hn]; [discriminate|]. apply Hn. now apply bool_decide_eq_true in Hd.
    + intros [= <- <- <-]. cbn. auto.
  - change (ms_chan (ms_add_out [err_chanoprivsneeded client target] m)) with (ms_chan m).
    destruct (bool_decide (arg ∈ dom (ch_users (ms_chan m)))); intros [= <- <- <-]; cbn; auto.
Qed.

(* an accepted list letter with a mask appends exactly " <sign><letter> <normalised mask>" *)
Theorem mode_char_list_announced ch ll mode_set mask args m m' ms' args' :
  listletter_of ch = Some ll -> rk_is_half_operator r = true ->
  mode_char c client target nick r ch mode_set (mask :: args) m = Ok (m', ms', args') ->
  ms_params m' = ms_params m ++ [c_space; (if mode_set then c_plus else c_minus); ch; c_space] ++ normalize_mask mask /\
  ms_set m' = ms_set m /\ ms_unset m' = ms_unset m /\ ms_out m' = ms_out m /\
  cm_get_list ll (ch_modes (ms_chan m')) =
    (if mode_set then {[normalize_mask mask]} ∪ cm_get_list ll (ch_modes (ms_chan m))
     else cm_get_list ll (ch_modes (ms_chan m)) ∖ {[normalize_mask mask]}).
Proof.
  intros Hl Hh. unfold listletter_of in Hl.
  assert (ch = 98 \/ ch = 101 \/ ch = 73) as Hch.
  { repeat match type of Hl with (if N.eqb ?a ?b then _ else _) = _ => destruct (N.eqb_spec a b); [auto 10|] end.
    discriminate. }
  assert (classify_mode ch = MListC) as Hc by (destruct Hch as [->|[->| ->]]; reflexivity).
  assert (listletter_of ch = Some ll) as Hl' by (unfold listletter_of; exact Hl).
  unfold mode_char. rewrite Hc, Hl'. cbn zeta. rewrite Hh.
  intros [= <- <- <-]. cbn. repeat split. destruct ll, mode_set; reflexivity.
Qed.

(* refused list edit (below half-operator): 482 to the sender, nothing announced, lists untouched *)
Theorem mode_char_list_refused ch ll mode_set mask args m m' ms' args' :
  listletter_of ch = Some ll -> rk_is_half_operator r = false ->
  mode_char c client target nick r ch mode_set (mask :: args) m = Ok (m', ms', args') ->
  ms_params m' = ms_params m /\ ms_set m' = ms_set m /\ ms_unset m' = ms_unset m /\ ms_chan m' = ms_chan m /\
  ms_out m' = ms_out m ++ [err_chanoprivsneeded client target].
Proof.
  intros Hl Hh. unfold listletter_of in Hl.
  assert (ch = 98 \/ ch = 101 \/ ch = 73) as Hch.
  { repeat match type of Hl with (if N.eqb ?a ?b then _ else _) = _ => destruct (N.eqb_spec a b); [auto 10|] end.
    discriminate. }
  assert (classify_mode ch = MListC) as Hc by (destruct Hch as [->|[->| ->]]; reflexivity).
  assert (listletter_of ch = Some ll) as Hl' by (unfold listletter_of; exact Hl).
  unfold mode_char. rewrite Hc, Hl'. cbn zeta. rewrite Hh.
  intros [= <- <- <-]. cbn. auto.
Qed.

(* the key: only the LAST applied state of the key is announced - an earlier "+k x" entry of the same command
   is withdrawn from the parameter part, an earlier "-k" from the '-' group *)
Theorem mode_char_key_announced mode_set args m m' ms' args' :
  rk_is_half_operator r = true ->
  mode_char c client target nick r 107 mode_set args m = Ok (m', ms', args') ->
  let params1 := match ms_key_entry m with Some e => remove_first_sub e (ms_params m) | None => ms_params m end in
  ms_set m' = ms_set m /\ ms_out m' = ms_out m /\ ms_limit_entry m' = ms_limit_entry m /\ ms' = mode_set /\
  if mode_set then
    exists arg, args = arg :: args' /\ cm_key (ch_modes (ms_chan m')) = Some arg /\
      ms_params m' = params1 ++ lit " +k " ++ arg /\ ms_key_entry m' = Some (lit " +k " ++ arg) /\
      ms_unset m' = remove_char 107 (ms_unset m)
  else
    args' = args /\ cm_key (ch_modes (ms_chan m')) = None /\ ms_params m' = params1 /\ ms_key_entry m' = None /\
    ms_unset m' = remove_char 107 (ms_unset m) ++ [107].
Proof.
  intros Hh. unfold mode_char. change (classify_mode 107) with MKeyC. cbn zeta. rewrite Hh.
  destruct mode_set.
  - destruct args as [|arg args0]; [discriminate|]. intros [= <- <- <-]. cbn. repeat split. exists arg. repeat split.
  - intros [= <- <- <-]. cbn. repeat split.
Qed.

(* the limit: likewise; the argument must be a number *)
Theorem mode_char_limit_announced mode_set args m m' ms' args' :
  rk_is_half_operator r = true ->
  mode_char c client target nick r 108 mode_set args m = Ok (m', ms', args') ->
  let params1 := match ms_limit_entry m with Some e => remove_first_sub e (ms_params m) | None => ms_params m end in
  ms_set m' = ms_set m /\ ms_out m' = ms_out m /\ ms_key_entry m' = ms_key_entry m /\ ms' = mode_set /\
  if mode_set then
    exists arg n, args = arg :: args' /\ parse_uint usize_max arg = inl n /\ cm_limit (ch_modes (ms_chan m')) = Some n /\
      ms_params m' = params1 ++ lit " +l " ++ arg /\ ms_limit_entry m' = Some (lit " +l " ++ arg) /\
      ms_unset m' = remove_char 108 (ms_unset m)
  else
    args' = args /\ cm_limit (ch_modes (ms_chan m')) = None /\ ms_params m' = params1 /\ ms_limit_entry m' = None /\
    ms_unset m' = remove_char 108 (ms_unset m) ++ [108].
Proof.
  intros Hh. unfold mode_char. change (classify_mode 108) with MLimitC. cbn zeta. rewrite Hh.
  destruct mode_set.
  - destruct args as [|arg args0]; [discriminate|]. destruct (parse_uint usize_max arg) as [n|] eqn:Hp; [|discriminate].
    intros [= <- <- <-]. cbn. repeat split. exists arg, n. repeat split. exact Hp.
  - intros [= <- <- <-]. cbn. repeat split.
Qed.

End announce3.
