(* CloseP.v - which connections a step closes, and why: the sender itself through QUIT, a failed
   password, an over-long line, invalid text, its own close, the pong timeout or the connection
   limit; anybody (the sender included) through KILL / DIE / SQUIT of an operator.  Nothing else. *)
From IRC Require Import Str Wild Glob Mask Parse Reply State Handlers Step.
From IRCP Require Import StrP InvDefs InvPrims InvNick InvHandlers InvStep Reach NickP OperP ModesFrame QuitP.
From stdpp Require Import gmap.
Open Scope N_scope.

Local Arguments lit : simpl never.

Definition nokill (s : shared) : Prop := forall n u, users s !! n = Some u -> u_kill u = None.

Lemma keeps_nokill s s' : keeps s s' -> nokill s -> nokill s'.
Proof. intros [K _] N n u' H. destruct (K n u' H) as [u [Hu [_ [_ Hk]]]]. rewrite Hk. eapply N; eauto. Qed.

Lemma subset_nokill s s' : (forall n u, users s' !! n = Some u -> users s !! n = Some u) -> nokill s -> nokill s'.
Proof. intros S N n u H. eapply N; eauto. Qed.

Definition is_kill_cmd (c : command) : bool := match c with KILL _ _ | DIE _ | SQUIT _ _ => true | _ => false end.

Section close.
Context (cfg : config) (verify : str -> str -> bool).

(* every command of a registered connection other than KILL / DIE / SQUIT sets no KILL mark; those
   three set one only for an operator *)
Theorem dispatch_nokill i s c cmd msg r :
  InvS s -> conn_ok i s c -> c_auth c = true -> nokill s ->
  dispatch cfg verify i s c cmd msg = Ok r ->
  nokill (h_sh r) \/
  (is_kill_cmd cmd = true /\ exists nick u, c_nick c = Some nick /\ users s !! nick = Some u /\ um_oper (u_modes u) = true).
Proof.
  intros I C A N H. destruct (own_user i s c C A) as [nick [u [Hn [Hu [Hc [Ho Hg]]]]]].
  assert (forall r0, same_result s c r0 -> nokill (h_sh r0)) as Same by (intros r0 [E0 _]; now rewrite E0).
  assert (forall (P : res hres), (exists r0, P = Ok r0 /\ same_result s c r0) -> P = Ok r -> nokill (h_sh r)) as S2.
  { intros P [r0 [-> Hs]] [= <-]. now apply Same. }
  assert (forall o, Ok {| h_sh := s; h_conn := c; h_out := o; h_quit := false |} = Ok r -> nokill (h_sh r)) as S3
    by (intros o [= <-]; exact N).
  assert (forall s', users s' = users s -> nokill s') as Seq by (intros s' E n0 u0 H0; rewrite E in H0; eapply N; eauto).
  assert (forall s' n1 u1, users s' = <[n1 := u1]> (users s) -> u_kill u1 = None -> nokill s') as Sins.
  { intros s' n1 u1 E Hk n0 u0 H0. rewrite E in H0. destruct (decide (n0 = n1)) as [->|Hne].
    - rewrite lookup_insert in H0. congruence.
    - rewrite lookup_insert_ne in H0 by congruence. eapply N; eauto. }
  destruct cmd; cbn [dispatch] in H; cbn [is_kill_cmd].
  - left. unfold process_cap in H. destruct sub.
    + injection H as <-. exact N.
    + injection H as <-. exact N.
    + destruct caps as [cs|]; [destruct (forallb _ cs)|]; injection H as <-; exact N.
    + rewrite A in H. injection H as <-. exact N.
  - left. injection H as <-. exact N.
  - left. unfold process_pass in H. rewrite A in H. injection H as <-. exact N.
  - left. (* NICK *)
    destruct (decide (nickname = nick)) as [->|Hne].
    { rewrite (process_nick_same cfg verify i s c msg nick A Hn) in H. injection H as <-. exact N. }
    destruct (users s !! nickname) as [x|] eqn:Hx.
    { rewrite (process_nick_refused cfg verify i s c nickname msg nick x A Hn Hne Hx) in H. injection H as <-. exact N. }
    destruct (process_nick_effect cfg verify i s c nickname msg nick u I A Hn Hu Hne Hx) as [r0 [Hr [_ [_ [Hus _]]]]].
    rewrite Hr in H. injection H as <-. intros n0 u0 H0. rewrite Hus in H0. destruct (decide (n0 = nickname)) as [->|N1].
    + rewrite lookup_insert in H0. injection H0 as <-. cbn. eapply N; eauto.
    + rewrite lookup_insert_ne in H0 by congruence. destruct (decide (n0 = nick)) as [->|N2]; [now rewrite lookup_delete in H0|].
      rewrite lookup_delete_ne in H0 by congruence. eapply N; eauto.
  - left. unfold process_user in H. rewrite A in H. injection H as <-. exact N.
  - left. injection H as <-. exact N.
  - left. injection H as <-. exact N.
  - left. (* OPER *)
    destruct (oper_spec cfg verify i s c name password nick u Hn Hu) as [r0 [Hr [_ [_ Hacc]]]]. rewrite Hr in H. injection H as <-.
    destruct (oper_accepted cfg verify c name password).
    + destruct Hacc as [Hus _]. eapply Sins; [exact Hus|]. cbn. eapply N; eauto.
    + destruct Hacc as [-> _]. exact N.
  - left. injection H as <-. exact N.
  - left. eapply keeps_nokill; [eapply join_keeps; eauto|exact N].
  - left. eapply keeps_nokill; [eapply part_keeps; eauto|exact N].
  - left. eapply keeps_nokill; [eapply topic_keeps; eauto|exact N].
  - left. eapply S2; [|exact H]. now apply process_names_ok.
  - left. unfold process_list in H. destruct server; eapply S3; exact H.
  - left. eapply keeps_nokill; [eapply invite_keeps; eauto|exact N].
  - left. eapply keeps_nokill; [eapply kick_keeps; eauto|exact N].
  - left. unfold process_motd in H. destruct target; eapply S3; exact H.
  - left. unfold process_version in H. destruct target; eapply S3; exact H.
  - left. unfold process_admin in H. destruct target; eapply S3; exact H.
  - left. eapply S3; exact H.
  - left. unfold process_lusers in H. destruct (lusers_lines s (client_name c)); cbn [rbind] in H; [|discriminate]. eapply S3; exact H.
  - left. unfold process_time in H. destruct server; eapply S3; exact H.
  - left. unfold process_stats in H. destruct server; [eapply S3; exact H|].
    rewrite Ho in H. cbn [rbind] in H. rewrite Hg in H. cbn [rbind] in H. destruct (is_local_oper _); eapply S3; exact H.
  - left. unfold process_links in H. destruct remote_server, server_mask; eapply S3; exact H.
  - left. unfold process_help in H. destruct (help_topic _); eapply S3; exact H.
  - left. eapply S3; exact H.
  - left. (* MODE *)
    unfold process_mode in H. rewrite Ho in H. cbn [rbind] in H. destruct (validate_channel target).
    + destruct (chans s !! target) as [co|]; [|eapply S3; exact H].
      destruct (ch_users co !! nick) as [rk|]; [|eapply S3; exact H].
      eapply keeps_nokill; [eapply mode_channel_keeps; eauto|exact N].
    + destruct (bool_decide (nick = target)).
      * destruct (mode_user_no_grant cfg i s c nick modes r u Hu H) as [m' [Hus _]].
        eapply Sins; [exact Hus|]. cbn. eapply N; eauto.
      * destruct (users s !! target); eapply S3; exact H.
  - left. eapply S2; [|exact H]. now apply process_privmsg_ok.
  - left. eapply S2; [|exact H]. now apply process_privmsg_ok.
  - left. eapply S2; [|exact H]. now apply process_who_ok.
  - left. eapply S2; [|exact H]. now apply process_whois_ok.
  - left. unfold process_whowas in H. destruct server; eapply S3; exact H.
  - (* KILL *) rewrite (kill_spec cfg i s c nick u nickname comment Hn Hu) in H.
    destruct (um_oper (u_modes u)) eqn:Eo; [right; split; [reflexivity|eauto]|left; injection H as <-; exact N].
  - left. eapply S3; exact H.
  - left. eapply S3; exact H.
  - (* SQUIT *) rewrite squit_spec in H. destruct (bool_decide _); [|left; eapply S3; exact H].
    rewrite (die_spec cfg i s c nick u (Some comment) Hn Hu) in H.
    destruct (um_oper (u_modes u)) eqn:Eo; [right; split; [reflexivity|eauto]|left; injection H as <-; exact N].
  - left. eapply keeps_nokill; [eapply away_keeps; eauto|exact N].
  - left. eapply S3; exact H.
  - left. eapply S2; [|exact H]. now apply process_wallops_ok.
  - left. eapply S3; exact H.
  - (* DIE *) rewrite (die_spec cfg i s c nick u message Hn Hu) in H.
    destruct (um_oper (u_modes u)) eqn:Eo; [right; split; [reflexivity|eauto]|left; injection H as <-; exact N].
Qed.

(* one line *)
Definition operator_kill_line (s : shared) (c : conn) (l : str) : Prop :=
  c_auth c = true /\ exists msg cmd nick u, tokenize l = inl msg /\ command_of_message msg = inl cmd /\ is_kill_cmd cmd = true /\
    c_nick c = Some nick /\ users s !! nick = Some u /\ um_oper (u_modes u) = true.

Theorem line_nokill i s c l r : InvS s -> conn_ok i s c -> c_sender_taken c = c_auth c -> nokill s ->
  process_line cfg verify i s c l = Ok r -> nokill (h_sh r) \/ operator_kill_line s c l.
Proof.
  intros I C T N H.
  assert (forall o, Ok {| h_sh := s; h_conn := c; h_out := o; h_quit := false |} = Ok r -> nokill (h_sh r)) as Same
    by (intros o [= <-]; exact N).
  unfold process_line in H. destruct (tokenize l) as [msg|[| |]] eqn:Ht; try (left; eapply Same; exact H).
  destruct (command_of_message msg) as [cmd|e] eqn:Hcmd; [|left; eapply Same; exact H].
  destruct (needs_registration cmd && negb (c_auth c)) eqn:G; [left; eapply Same; exact H|].
  destruct (c_auth c) eqn:A.
  - destruct (dispatch_nokill i s c cmd msg r I C A N H) as [L|[Hk [nick [u [Hn [Hu Ho]]]]]]; [now left|].
    right. split; [exact A|]. exists msg, cmd, nick, u. repeat split; assumption.
  - left. cbn in G. rewrite andb_true_r in G.
    destruct (unauth_line_ok cfg verify i s c cmd msg I A T G) as [r' [Hr' U]]. rewrite H in Hr'. injection Hr' as <-.
    destruct U as [[E _]|[nick [u [_ [_ [_ [_ [Hus [_ [Hk _]]]]]]]]]]; [now rewrite E|].
    intros n0 u0 H0. rewrite Hus in H0. destruct (decide (n0 = nick)) as [->|Hne].
    + rewrite lookup_insert in H0. congruence.
    + rewrite lookup_insert_ne in H0 by congruence. eapply N; eauto.
Qed.

(* why a handler asks to close its own connection *)
Theorem line_quit i s c l r : process_line cfg verify i s c l = Ok r -> h_quit r = true ->
  exists msg cmd, tokenize l = inl msg /\ command_of_message msg = inl cmd /\
    (cmd = QUIT \/ (c_auth c = false /\ h_sh r = s /\ exists c', h_out r = [(i, srv cfg (err_passwdmismatch (client_name c')))])).
Proof.
  intros H Hq. unfold process_line in H.
  destruct (tokenize l) as [msg|[| |]] eqn:Ht; try (injection H as <-; discriminate Hq).
  destruct (command_of_message msg) as [cmd|e] eqn:Hcmd; [|injection H as <-; discriminate Hq].
  destruct (needs_registration cmd && negb (c_auth c)); [injection H as <-; discriminate Hq|].
  exists msg, cmd. split; [reflexivity|]. split; [exact Hcmd|]. eapply dispatch_quit; eauto.
Qed.

(* ---------------------------------------------------------------- the step theorem *)
Definition closing_event (e : event) : bool :=
  match e with EvTooLong | EvBadUtf8 | EvClose | EvPongTimeout => true | _ => false end.

Theorem closed_only_by_protocol w i e w' o cl j : Inv w -> step cfg verify w i e = Ok (w', o, cl) -> j ∈ cl ->
  (* the sender, by its own doing *)
  (j = i /\ (closing_event e = true
             \/ (exists secure, e = EvOpen secure /\ conns w !! i = None)
             \/ (exists l c r, e = EvLine l /\ conns w !! i = Some c /\ process_line cfg verify i (sh w) c l = Ok r /\ h_quit r = true)))
  \/
  (* anybody, by an operator's KILL / DIE / SQUIT *)
  (exists l c, e = EvLine l /\ conns w !! i = Some c /\ operator_kill_line (sh w) c l).
Proof.
  intros I H Hj. pose proof (InvK_of_Inv w I) as K. pose proof (iw_nk w I) as N0.
  unfold step in H. destruct (step_raw cfg verify w i e) as [[[w1 o1] c1]|] eqn:H1; [|discriminate]. cbn [rbind] in H.
  destruct (step_raw_frame cfg verify w i e w1 o1 c1 K H1) as [K1 [_ [_ [Hc1 _]]]].
  destruct (deliver_kills_ok cfg w1 K1) as [w2 [o2 [c2 [H2 [_ [_ [_ [Hpend _]]]]]]]]. rewrite H2 in H. cbn [rbind] in H. injection H as _ _ <-.
  (* no KILL mark after the raw step means nobody else is closed *)
  assert (nokill (sh w1) -> j ∈ c1) as NK.
  { intros N1. apply elem_of_app in Hj as [Hj|Hj]; [exact Hj|]. apply Hpend in Hj as [n [u [Hu [_ Hk]]]]. exfalso. apply Hk. eapply N1; eauto. }
  assert (forall c, conns w !! i = Some c -> forall (o0 : outl) (cl0 : list nat),
            (let! wx := teardown i w in Ok (wx, o0, cl0)) = Ok (w1, o1, c1) -> nokill (sh w1)) as TD.
  { intros c Hc o0 cl0 E. destruct (teardown_ok i w c K Hc) as [wx [Ht [_ [_ [Hs _]]]]]. rewrite Ht in E. cbn [rbind] in E. injection E as <- _ _.
    eapply subset_nokill; [|exact N0]. intros n u Hu. apply (Hs n u Hu). }
  destruct e; cbn [step_raw closing_event] in *.
  - (* open *) left. destruct (conns w !! i) eqn:Hc.
    + injection H1 as <- <- <-. apply NK in N0. now apply elem_of_nil in N0.
    + assert (sh w1 = sh w) as Es.
      { destruct (server_quit (sh w)); [injection H1 as <- _ _; reflexivity|].
        destruct (match cfg_max_connections cfg with Some m => N.ltb (nconns w) m | None => true end); injection H1 as <- _ _; reflexivity. }
      rewrite <- Es in N0. split; [exact (Hc1 j (NK N0))|]. right. left. eauto.
  - (* line *)
    destruct (conns w !! i) as [c|] eqn:Hc.
    2:{ injection H1 as <- <- <-. apply NK in N0. now apply elem_of_nil in N0. }
    destruct (process_line cfg verify i (sh w) c l) as [r|] eqn:Hr; cbn [rbind] in H1; [|discriminate].
    destruct (line_nokill i (sh w) c l r (ik_s w K) (ik_cu w K i c Hc) (ik_st w K i c Hc) N0 Hr) as [N1|Op]; [|right; eauto].
    left. destruct (h_quit r) eqn:Hq.
    + assert (nokill (sh w1)) as N2.
      { set (wl := {| sh := h_sh r; conns := <[i := h_conn r]> (conns w); nconns := nconns w |}) in *.
        destruct (process_line_ok cfg verify i (sh w) c l (ik_s w K) (ik_cu w K i c Hc) (ik_st w K i c Hc)) as [r' [Hr' R]].
        rewrite Hr in Hr'. injection Hr' as <-. pose proof (InvK_line i w c r K Hc R) as Kl.
        assert (conns wl !! i = Some (h_conn r)) as Hcl by (cbn; now rewrite lookup_insert).
        destruct (teardown_ok i wl _ Kl Hcl) as [wx [Ht [_ [_ [Hs _]]]]]. rewrite Ht in H1. cbn [rbind] in H1. injection H1 as <- _ _.
        eapply subset_nokill; [|exact N1]. intros n u Hu. apply (Hs n u Hu). }
      split; [exact (Hc1 j (NK N2))|]. right. right. eauto 8.
    + injection H1 as <- <- <-. cbn [sh] in NK. apply NK in N1. now apply elem_of_nil in N1.
  - left. destruct (conns w !! i) as [c|] eqn:Hc.
    + split; [exact (Hc1 j (NK (TD c eq_refl _ _ H1)))|now left].
    + injection H1 as <- <- <-. apply NK in N0. now apply elem_of_nil in N0.
  - left. destruct (conns w !! i) as [c|] eqn:Hc.
    + split; [exact (Hc1 j (NK (TD c eq_refl _ _ H1)))|now left].
    + injection H1 as <- <- <-. apply NK in N0. now apply elem_of_nil in N0.
  - left. destruct (conns w !! i) as [c|] eqn:Hc.
    + split; [exact (Hc1 j (NK (TD c eq_refl _ _ H1)))|now left].
    + injection H1 as <- <- <-. apply NK in N0. now apply elem_of_nil in N0.
  - destruct (conns w !! i) as [c|] eqn:Hc; injection H1 as <- <- <-; apply NK in N0; now apply elem_of_nil in N0.
  - left. destruct (conns w !! i) as [c|] eqn:Hc.
    + split; [exact (Hc1 j (NK (TD c eq_refl _ _ H1)))|now left].
    + injection H1 as <- <- <-. apply NK in N0. now apply elem_of_nil in N0.
Qed.

End close.
