(* RelayP.v - the relays that are built with format! (PART, KICK, PRIVMSG / NOTICE, the 301 away
   answer) re-parse, on the receiver's side, to the command, target and text the originator's
   command carried - for every text. *)
From IRC Require Import Str Parse.
From IRCP Require Import RoundP.
From Coq Require Import List Bool NArith Lia.
Import ListNotations.
Open Scope N_scope.

Local Arguments lit : simpl never.

Definition from_ (source body : str) : str := (c_colon :: source) ++ (c_space :: body).

Lemma ws_run_space : ws_run [c_space].
Proof. split; [discriminate|reflexivity]. Qed.

(* ":" src SP verb (SP middle)* SP ":" text *)
Theorem relay_with_text src verb mids text :
  nows src -> validate_source src = true -> mid_ok verb -> Forall mid_ok mids ->
  tokenize (from_ src (verb ++ concat (map (fun m => c_space :: m) mids) ++ (c_space :: c_colon :: text)))
  = inl {| m_source := Some src; m_command := verb; m_params := mids ++ [text] |}.
Proof.
  intros Hs Hv Hc Hm.
  pose proof (grammar_complete [] (Some (src, [c_space])) verb (map (fun m => ([c_space], m)) mids) (Some ([c_space], text)) []) as G.
  cbn [app option_map fst] in G. unfold from_.
  assert (spw (map (fun m => ([c_space], m)) mids) = concat (map (fun m => c_space :: m) mids)) as E.
  { unfold spw. rewrite map_map. reflexivity. }
  rewrite E in G. rewrite map_map in G. cbn [snd] in G. rewrite map_id in G.
  replace ((c_colon :: src) ++ c_space :: verb ++ concat (map (fun m => c_space :: m) mids) ++ c_space :: c_colon :: text)
    with (c_colon :: (src ++ [c_space]) ++ verb ++ concat (map (fun m => c_space :: m) mids) ++ [c_space] ++ c_colon :: text)
    by (cbn [app]; now rewrite <- !app_assoc).
  apply G; auto.
  - split; [exact Hs|]. split; [exact Hv|apply ws_run_space].
  - discriminate.
  - apply Forall_forall. intros [sep m] Hin. apply in_map_iff in Hin as [m0 [[= <- <-] Hin0]].
    split; [apply ws_run_space|]. cbn. rewrite Forall_forall in Hm. now apply Hm.
  - split; [apply ws_run_space|reflexivity].
Qed.

Lemma mid_ok_lit_PART : mid_ok (lit "PART"). Proof. split; reflexivity. Qed.
Lemma mid_ok_lit_KICK : mid_ok (lit "KICK"). Proof. split; reflexivity. Qed.
Lemma mid_ok_lit_PRIVMSG : mid_ok (lit "PRIVMSG"). Proof. split; reflexivity. Qed.
Lemma mid_ok_lit_NOTICE : mid_ok (lit "NOTICE"). Proof. split; reflexivity. Qed.
Lemma mid_ok_lit_301 : mid_ok (lit "301"). Proof. split; reflexivity. Qed.

(* PART #chan :reason *)
Corollary relay_part src ch reason : nows src -> validate_source src = true -> mid_ok ch ->
  tokenize (from_ src (lit "PART " ++ ch ++ lit " :" ++ reason))
  = inl {| m_source := Some src; m_command := lit "PART"; m_params := [ch; reason] |}.
Proof.
  intros Hs Hv Hc. pose proof (relay_with_text src (lit "PART") [ch] reason Hs Hv mid_ok_lit_PART (Forall_cons _ Hc (Forall_nil _))) as G.
  cbn [map concat app] in G. rewrite app_nil_r in G.
  replace (lit "PART " ++ ch ++ lit " :" ++ reason) with (lit "PART" ++ (c_space :: ch) ++ c_space :: c_colon :: reason); [exact G|].
  change (lit "PART ") with (lit "PART" ++ [c_space]). change (lit " :") with [c_space; c_colon]. now rewrite <- !app_assoc.
Qed.

(* KICK #chan victim :comment *)
Corollary relay_kick src ch victim comment : nows src -> validate_source src = true -> mid_ok ch -> mid_ok victim ->
  tokenize (from_ src (lit "KICK " ++ ch ++ [c_space] ++ victim ++ lit " :" ++ comment))
  = inl {| m_source := Some src; m_command := lit "KICK"; m_params := [ch; victim; comment] |}.
Proof.
  intros Hs Hv Hc Hvi.
  pose proof (relay_with_text src (lit "KICK") [ch; victim] comment Hs Hv mid_ok_lit_KICK (Forall_cons _ Hc (Forall_cons _ Hvi (Forall_nil _)))) as G.
  cbn [map concat app] in G. rewrite app_nil_r in G.
  replace (lit "KICK " ++ ch ++ [c_space] ++ victim ++ lit " :" ++ comment)
    with (lit "KICK" ++ ((c_space :: ch) ++ c_space :: victim) ++ c_space :: c_colon :: comment); [exact G|].
  change (lit "KICK ") with (lit "KICK" ++ [c_space]). change (lit " :") with [c_space; c_colon]. cbn [app]. now rewrite <- !app_assoc.
Qed.

(* PRIVMSG / NOTICE target :text *)
Corollary relay_msg src verb target text : nows src -> validate_source src = true -> mid_ok verb -> mid_ok target ->
  tokenize (from_ src (verb ++ [c_space] ++ target ++ lit " :" ++ text))
  = inl {| m_source := Some src; m_command := verb; m_params := [target; text] |}.
Proof.
  intros Hs Hv Hc Ht. pose proof (relay_with_text src verb [target] text Hs Hv Hc (Forall_cons _ Ht (Forall_nil _))) as G.
  cbn [map concat app] in G. rewrite app_nil_r in G.
  replace (verb ++ [c_space] ++ target ++ lit " :" ++ text) with (verb ++ (c_space :: target) ++ c_space :: c_colon :: text); [exact G|].
  change (lit " :") with [c_space; c_colon]. cbn [app]. reflexivity.
Qed.
