(* JoinListP.v - JOIN with a comma list: every entry is judged by the admission rule against the
   state at the start of the command; a channel already accepted earlier in the same list is
   skipped; the max_joins quota counts the channels held plus the entries accepted so far. *)
From IRC Require Import Str Wild Glob Mask Parse Reply State Handlers Step.
From IRCP Require Import StrP.
From stdpp Require Import gmap.
Open Scope N_scope.

Local Arguments lit : simpl never.

Section joinlist.
Context (cfg : config) (i : nat).

Definition accepted (seen : list (str * bool)) : list str := List.map fst (List.filter snd seen).

Definition key_at (keys : option (list str)) (idx : nat) : option (option (option str)) :=
  match keys with
  | None => Some None
  | Some ks => match nth_error ks idx with Some k => Some (Some (Some k)) | None => None end
  end.

Definition quota (cnt : N) : bool :=
  match cfg_max_joins cfg with Some mj => N.ltb cnt mj | None => true end.

(* the plan the statement prescribes *)
Inductive plan_ok (s : shared) (c : conn) (u : user) (nick client : str) (keys : option (list str)) :
  list str -> N -> nat -> list str -> list (str * (bool * bool)) -> Prop :=
| po_nil acc cnt idx : plan_ok s c u nick client keys acc cnt idx [] []
| po_skip acc cnt idx ch chs l :
    In ch acc -> plan_ok s c u nick client keys acc cnt (S idx) chs l ->
    plan_ok s c u nick client keys acc cnt idx (ch :: chs) ((ch, (false, false)) :: l)
| po_entry acc cnt idx ch chs l key d :
    ~ In ch acc -> key_at keys idx = Some key ->
    d = (join_check s c u nick client ch key).1.1 && quota cnt ->
    plan_ok s c u nick client keys (if d then ch :: acc else acc) (if d then cnt + 1 else cnt) (S idx) chs l ->
    plan_ok s c u nick client keys acc cnt idx (ch :: chs) ((ch, (d, (join_check s c u nick client ch key).1.2)) :: l).

Lemma seen_accepted seen ch :
  existsb (fun '(c0, j) => str_eqb c0 ch && j) seen = true <-> In ch (accepted seen).
Proof.
  unfold accepted. rewrite existsb_exists, in_map_iff. split.
  - intros [[c0 j] [Hin Hb]]. apply andb_true_iff in Hb as [He Hj]. apply str_eqb_eq in He. subst c0.
    exists (ch, j). split; [reflexivity|]. apply filter_In. auto.
  - intros [[c0 j] [E Hf]]. cbn in E. subst c0. apply filter_In in Hf as [Hin Hj]. cbn in Hj.
    exists (ch, j). split; [exact Hin|]. apply andb_true_iff. split; [now apply str_eqb_eq|exact Hj].
Qed.

Lemma accepted_snoc seen ch d : accepted (seen ++ [(ch, d)]) = accepted seen ++ (if d then [ch] else []).
Proof. unfold accepted. rewrite List.filter_app, map_app. cbn. destruct d; reflexivity. Qed.

Lemma plan_ok_perm s c u nick client keys acc acc' cnt idx chs l :
  (forall x, In x acc <-> In x acc') -> plan_ok s c u nick client keys acc cnt idx chs l -> plan_ok s c u nick client keys acc' cnt idx chs l.
Proof.
  intros E H. revert acc' E. induction H as [|acc cnt idx ch chs l Hin H IH|acc cnt idx ch chs l key d Hn Hk Hd H IH]; intros acc' E.
  - constructor.
  - apply po_skip; [now apply E|now apply IH].
  - apply (po_entry s c u nick client keys acc' cnt idx ch chs l key d); [now rewrite <- E|exact Hk|exact Hd|].
    apply IH. intros x. destruct d; cbn; rewrite ?E; tauto.
Qed.

Theorem phase1_spec s c u nick client keys chs : forall idx seen cnt plan o cnt',
  join_phase1 cfg s c u nick client chs keys idx seen cnt = Ok (plan, o, cnt') ->
  plan_ok s c u nick client keys (accepted seen) cnt idx chs plan.
Proof.
  induction chs as [|ch chs IH]; intros idx seen cnt plan o cnt'; cbn [join_phase1].
  - intros [= <- _ _]. constructor.
  - destruct (existsb (fun '(c0, j) => str_eqb c0 ch && j) seen) eqn:Es.
    + destruct (join_phase1 cfg s c u nick client chs keys (S idx) (seen ++ [(ch, false)]) cnt) as [[[l o'] jc]|] eqn:E; cbn [rbind]; [|discriminate].
      intros [= <- _ _]. apply po_skip; [now apply seen_accepted|].
      apply IH in E. rewrite accepted_snoc, app_nil_r in E. exact E.
    + assert (~ In ch (accepted seen)) as Hn by (intros H; apply seen_accepted in H; congruence).
      destruct (key_at keys idx) as [key|] eqn:Hk.
      2:{ unfold key_at in Hk. destruct keys as [ks|]; [|discriminate]. destruct (nth_error ks idx); [discriminate|]. cbn [rbind]. discriminate. }
      assert ((match keys with
               | None => Ok None
               | Some ks => match nth_error ks idx with Some k => Ok (Some (Some k)) | None => Panic P_join_key_index end
               end : res (option (option str))) = Ok key) as ->.
      { unfold key_at in Hk. destruct keys as [ks|]; [|injection Hk as <-; reflexivity]. destruct (nth_error ks idx); [injection Hk as <-; reflexivity|discriminate]. }
      cbn [rbind]. destruct (join_check s c u nick client ch key) as [[j cr] o1] eqn:Ej.
      set (d := match cfg_max_joins cfg with Some mj => j && N.ltb cnt mj | None => j end).
      assert (d = j && quota cnt) as Hd by (unfold d, quota; destruct (cfg_max_joins cfg); [reflexivity|now rewrite andb_true_r]).
      destruct (cfg_max_joins cfg) as [mj|] eqn:Emj.
      * fold d. destruct (join_phase1 cfg s c u nick client chs keys (S idx) (seen ++ [(ch, d)]) (if d then cnt + 1 else cnt)) as [[[l o'] jc]|] eqn:E; cbn [rbind]; [|discriminate].
        intros [= <- _ _]. replace cr with (join_check s c u nick client ch key).1.2 by now rewrite Ej.
        apply (po_entry s c u nick client keys (accepted seen) cnt idx ch chs l key d Hn Hk); [rewrite Ej; exact Hd|].
        apply IH in E. rewrite accepted_snoc in E. eapply plan_ok_perm; [|exact E].
        intros x. destruct d; cbn; rewrite ?in_app_iff; cbn; tauto.
      * fold d. destruct (join_phase1 cfg s c u nick client chs keys (S idx) (seen ++ [(ch, d)]) (if d then cnt + 1 else cnt)) as [[[l o'] jc]|] eqn:E; cbn [rbind]; [|discriminate].
        intros [= <- _ _]. replace cr with (join_check s c u nick client ch key).1.2 by now rewrite Ej.
        apply (po_entry s c u nick client keys (accepted seen) cnt idx ch chs l key d Hn Hk); [rewrite Ej; exact Hd|].
        apply IH in E. rewrite accepted_snoc in E. eapply plan_ok_perm; [|exact E].
        intros x. destruct d; cbn; rewrite ?in_app_iff; cbn; tauto.
Qed.

(* the whole command: the plan of the statement, applied entry by entry (C07_accepted_effect /
   C07_refused_effect), starting from the number of channels the user already holds *)
Theorem process_join_plan s c chs keys r nick u :
  c_nick c = Some nick -> users s !! nick = Some u -> process_join cfg i s c chs keys = Ok r ->
  exists plan, plan_ok s c u nick (client_name c) keys [] (N.of_nat (size (u_chans u))) 0 chs plan /\
    rfold (join_insert nick) plan s = Ok (h_sh r) /\ h_conn r = c /\ h_quit r = false.
Proof.
  intros Hn Hu. unfold process_join, own_nick, get_user. rewrite Hn. cbn [rbind]. rewrite Hu. cbn [rbind].
  destruct (join_phase1 cfg s c u nick (client_name c) chs keys 0 [] (N.of_nat (size (u_chans u)))) as [[[plan o1] q]|] eqn:E; cbn [rbind]; [|discriminate].
  destruct (rfold (join_insert nick) plan s) as [s'|] eqn:Ef; cbn [rbind]; [|discriminate].
  match goal with |- context [rfold ?G plan []] => destruct (rfold G plan []) end; cbn [rbind]; [|discriminate].
  intros [= <-]. exists plan. split; [exact (phase1_spec s c u nick (client_name c) keys chs 0 [] _ plan o1 q E)|]. auto.
Qed.

End joinlist.
