(* ModesFrame.v - which handlers can change a user's modes or owner: none but OPER, MODE on the
   own nick, NICK (re-keys the record) and the registration itself.  [keeps s s']: every user
   record present afterwards was present before under the same nick, with the same owner and
   the same user modes. *)
From IRC Require Import Str Wild Glob Mask Parse Reply State Handlers Step.
From IRCP Require Import StrP ChanP InvDefs InvPrims InvNick InvHandlers NickP OperP.
From stdpp Require Import gmap.
Open Scope N_scope.

Local Arguments lit : simpl never.

(* [keeps_nk]: records keep nick, owner and modes, the high-water mark stays; [keeps]: and no KILL
   mark is set or cleared *)
Definition keeps_nk (s s' : shared) : Prop :=
  (forall n u', users s' !! n = Some u' ->
     exists u, users s !! n = Some u /\ u_conn u' = u_conn u /\ u_modes u' = u_modes u) /\
  max_users s' = max_users s.

Definition keeps (s s' : shared) : Prop :=
  (forall n u', users s' !! n = Some u' ->
     exists u, users s !! n = Some u /\ u_conn u' = u_conn u /\ u_modes u' = u_modes u /\ u_kill u' = u_kill u) /\
  max_users s' = max_users s.

Lemma keeps_weaken s s' : keeps s s' -> keeps_nk s s'.
Proof. intros [K M]. split; [|exact M]. intros n u' H. destruct (K n u' H) as [u [A [B [C _]]]]. eauto. Qed.

Lemma keeps_nk_refl s : keeps_nk s s.
Proof. split; [intros n u H; eauto|reflexivity]. Qed.

Lemma keeps_refl s : keeps s s.
Proof. split; [intros n u H; eauto|reflexivity]. Qed.

Lemma keeps_trans s1 s2 s3 : keeps s1 s2 -> keeps s2 s3 -> keeps s1 s3.
Proof.
  intros [A Am] [B Bm]. split; [|congruence]. intros n u3 H. destruct (B n u3 H) as [u2 [H2 [C2 [M2 K2]]]]. destruct (A n u2 H2) as [u1 [H1 [C1 [M1 K1]]]].
  exists u1. repeat split; congruence.
Qed.

Lemma keeps_users_eq s s' : users s' = users s -> max_users s' = max_users s -> keeps s s'.
Proof. intros E Em. split; [|exact Em]. intros n u H. rewrite E in H. eauto. Qed.

Lemma keeps_insert s s' n u u' :
  users s' = <[n := u']> (users s) -> max_users s' = max_users s -> users s !! n = Some u -> u_conn u' = u_conn u -> u_modes u' = u_modes u ->
  u_kill u' = u_kill u -> keeps s s'.
Proof.
  intros E Em Hu Hc Hm Hk. split; [|exact Em]. intros n0 u0 H. rewrite E in H. destruct (decide (n0 = n)) as [->|Hne].
  - rewrite lookup_insert in H. injection H as <-. eauto.
  - rewrite lookup_insert_ne in H by congruence. eauto.
Qed.

Lemma keeps_nk_insert s s' n u u' :
  users s' = <[n := u']> (users s) -> max_users s' = max_users s -> users s !! n = Some u -> u_conn u' = u_conn u -> u_modes u' = u_modes u ->
  keeps_nk s s'.
Proof.
  intros E Em Hu Hc Hm. split; [|exact Em]. intros n0 u0 H. rewrite E in H. destruct (decide (n0 = n)) as [->|Hne].
  - rewrite lookup_insert in H. injection H as <-. eauto.
  - rewrite lookup_insert_ne in H by congruence. eauto.
Qed.

Lemma keeps_size s s' : keeps_nk s s' -> (size (users s') <= size (users s))%nat.
Proof.
  intros [K _]. rewrite <- (size_dom (D:=gset str) (users s')), <- (size_dom (D:=gset str) (users s)). apply subseteq_size.
  intros n Hn. apply elem_of_dom in Hn as [u' Hu']. destruct (K n u' Hu') as [u [Hu _]]. apply elem_of_dom. eauto.
Qed.

Lemma rfold_keeps {A} (f : shared -> A -> res shared) l :
  (forall s x s', f s x = Ok s' -> keeps s s') -> forall s s', rfold f l s = Ok s' -> keeps s s'.
Proof.
  intros Hf. induction l as [|x l IH]; intros s s'; cbn [rfold].
  - intros [= <-]. apply keeps_refl.
  - destruct (f s x) as [s1|] eqn:E; cbn [rbind]; [|discriminate]. intros H.
    eapply keeps_trans; [eapply Hf; eauto|eapply IH; eauto].
Qed.

Lemma remove_from_channel_keeps ch nick s s' : st_remove_user_from_channel ch nick s = Ok s' -> keeps s s'.
Proof.
  unfold st_remove_user_from_channel.
  assert (forall s1, users s1 = users s -> max_users s1 = max_users s ->
            match users s1 !! nick with
            | Some u => Ok (set_users (fun us => <[nick := u_set_chans (fun cs => cs ∖ {[ch]}) u]> us) s1)
            | None => Ok s1
            end = Ok s' -> keeps s s') as K.
  { intros s1 E Em. destruct (users s1 !! nick) as [u|] eqn:Hu; intros [= <-].
    - eapply (keeps_insert s _ nick u); cbn; [now rewrite E|exact Em|now rewrite <- E|destruct u; reflexivity|destruct u; reflexivity|destruct u; reflexivity].
    - now apply keeps_users_eq. }
  destruct (chans s !! ch) as [co|]; cbn [rbind]; [|now apply K].
  destruct (chan_remove_user nick co) as [co'|]; cbn [rbind]; [|discriminate].
  destruct (_ && _); cbn [rbind]; apply K; reflexivity.
Qed.

Lemma join_insert_keeps nick s x s' : join_insert nick s x = Ok s' -> keeps s s'.
Proof.
  destruct x as [ch [j cr]]. unfold join_insert. destruct (negb j); [intros [= <-]; apply keeps_refl|].
  unfold get_user. destruct (users s !! nick) as [u|] eqn:Hu; cbn [rbind]; [|discriminate].
  destruct cr.
  - intros [= <-]. eapply (keeps_insert s _ nick u); cbn; [reflexivity|reflexivity|exact Hu|destruct u; reflexivity|destruct u; reflexivity|destruct u; reflexivity].
  - unfold get_chan. cbn [chans set_users]. destruct (chans s !! ch); cbn [rbind]; [|discriminate].
    intros [= <-]. eapply (keeps_insert s _ nick u); cbn; [reflexivity|reflexivity|exact Hu|destruct u; reflexivity|destruct u; reflexivity|destruct u; reflexivity].
Qed.

Section frame.
Context (cfg : config) (verify : str -> str -> bool) (i : nat).

Ltac same H := injection H as <-; cbn [h_sh]; first [apply keeps_refl|apply keeps_nk_refl].

Lemma join_keeps s c chs keys r : process_join cfg i s c chs keys = Ok r -> keeps s (h_sh r).
Proof.
  unfold process_join. destruct (own_nick c) as [nick|]; cbn [rbind]; [|discriminate].
  destruct (get_user s nick) as [u|]; cbn [rbind]; [|discriminate].
  destruct (join_phase1 _ _ _ _ _ _ _ _ _ _) as [[[plan o1] q]|]; cbn [rbind]; [|discriminate].
  destruct (rfold (join_insert nick) plan s) as [s'|] eqn:E; cbn [rbind]; [|discriminate].
  match goal with |- context [rfold ?G plan []] => destruct (rfold G plan []) as [o2|] end; cbn [rbind]; [|discriminate].
  intros [= <-]. cbn [h_sh]. eapply rfold_keeps; [|exact E]. intros; eapply join_insert_keeps; eauto.
Qed.

Lemma part_keeps s c chs reason r : process_part cfg i s c chs reason = Ok r -> keeps s (h_sh r).
Proof.
  unfold process_part. destruct (own_nick c) as [nick|]; cbn [rbind]; [|discriminate].
  match goal with |- context [rfold ?F chs (s, [])] => set (F0 := F) end.
  assert (forall l s0 o0 s1 o1, rfold F0 l (s0, o0) = Ok (s1, o1) -> keeps s0 s1) as G.
  { induction l as [|ch l IH]; intros s0 o0 s1 o1; cbn [rfold]; [intros [= <- _]; apply keeps_refl|].
    unfold F0 at 1. destruct (chans s0 !! ch) as [co|]; [|cbn [rbind]; apply IH].
    destruct (bool_decide _); [|cbn [rbind]; apply IH].
    destruct (send_all _ _ _); cbn [rbind]; [|discriminate].
    destruct (st_remove_user_from_channel ch nick s0) as [s2|] eqn:E; cbn [rbind]; [|discriminate].
    intros H. eapply keeps_trans; [eapply remove_from_channel_keeps; eauto|eapply IH; eauto]. }
  destruct (rfold F0 chs (s, [])) as [[s' o]|] eqn:E; cbn [rbind]; [|discriminate].
  destruct (get_user s' nick); cbn [rbind]; [|discriminate]. intros [= <-]. cbn [h_sh]. eapply G; eauto.
Qed.

Lemma kick_keeps s c ch victims comment r : process_kick cfg i s c ch victims comment = Ok r -> keeps s (h_sh r).
Proof.
  unfold process_kick. destruct (own_nick c) as [nick|]; cbn [rbind]; [|discriminate].
  destruct (kick_decide s nick (client_name c) ch victims) as [kicked o1].
  destruct (rfold (fun s v => st_remove_user_from_channel ch v s) kicked s) as [s'|] eqn:E; cbn [rbind]; [|discriminate].
  match goal with |- context [rfold ?G kicked []] => destruct (rfold G kicked []) end; cbn [rbind]; [|discriminate]. intros [= <-]. cbn [h_sh].
  eapply rfold_keeps; [|exact E]. intros s0 x s1 H; cbn beta in H; eapply remove_from_channel_keeps; exact H.
Qed.

Lemma topic_keeps s c ch topic msg r : process_topic cfg i s c ch topic msg = Ok r -> keeps s (h_sh r).
Proof.
  unfold process_topic. destruct (own_nick c) as [nick|]; cbn [rbind]; [|discriminate].
  destruct topic as [t|].
  - destruct (chans s !! ch) as [co|]; [|intros H; same H].
    destruct (ch_users co !! nick) as [rk|]; [|intros H; same H].
    destruct (topic_allowed co rk); [|intros H; same H].
    destruct (send_all _ _ _); cbn [rbind]; [|discriminate]. intros [= <-]. cbn [h_sh]. now apply keeps_users_eq.
  - destruct (chans s !! ch) as [co|]; [|intros H; same H].
    destruct (bool_decide _); [|intros H; same H]. destruct (ch_topic co) as [[t w]|]; intros H; same H.
Qed.

Lemma invite_keeps s c nickname ch msg r : process_invite cfg i s c nickname ch msg = Ok r -> keeps s (h_sh r).
Proof.
  unfold process_invite. destruct (own_nick c) as [nick|]; cbn [rbind]; [|discriminate].
  destruct (chans s !! ch) as [co|]; [|intros H; same H].
  destruct (ch_users co !! nick) as [rk|]; [|intros H; same H].
  destruct (_ && _); [intros H; same H|]. destruct (bool_decide _); [intros H; same H|].
  destruct (users s !! nickname) as [inv|] eqn:Hu; [|intros H; same H].
  intros [= <-]. cbn [h_sh]. eapply (keeps_insert s _ nickname inv); cbn; [reflexivity|reflexivity|exact Hu|destruct inv; reflexivity|destruct inv; reflexivity|destruct inv; reflexivity].
Qed.

Lemma mode_channel_keeps s c target nick co rk modes r :
  process_mode_channel cfg i s c target nick co rk modes = Ok r -> keeps s (h_sh r).
Proof.
  unfold process_mode_channel. destruct (is_empty modes); [intros H; same H|].
  match goal with |- context [rfold ?G modes ?m0] => destruct (rfold G modes m0) as [m|] end; cbn [rbind]; [|discriminate].
  destruct (match mode_announcement target m with Some _ => _ | None => _ end); cbn [rbind]; [|discriminate].
  intros [= <-]. cbn [h_sh]. now apply keeps_users_eq.
Qed.

Lemma kill_keeps s c nickname comment r : process_kill cfg i s c nickname comment = Ok r -> keeps_nk s (h_sh r).
Proof.
  unfold process_kill. destruct (own_nick c) as [nick|]; cbn [rbind]; [|discriminate].
  destruct (get_user s nick) as [u|]; cbn [rbind]; [|discriminate].
  destruct (um_oper (u_modes u)); [|intros H; same H].
  destruct (users s !! nickname) as [v|] eqn:Hv; [|intros H; same H].
  destruct (u_kill v); [intros H; same H|].
  intros [= <-]. cbn [h_sh]. eapply (keeps_nk_insert s _ nickname v); cbn; [reflexivity|reflexivity|exact Hv|destruct v; reflexivity|destruct v; reflexivity].
Qed.

Lemma die_keeps s c message r : process_die cfg i s c message = Ok r -> keeps_nk s (h_sh r).
Proof.
  unfold process_die. destruct (own_nick c) as [nick|]; cbn [rbind]; [|discriminate].
  destruct (get_user s nick) as [u|]; cbn [rbind]; [|discriminate].
  destruct (um_oper (u_modes u)); [|intros H; same H].
  intros [= <-]. cbn [h_sh]. split; [|reflexivity]. intros n u' H. cbn in H. rewrite lookup_fmap in H.
  destruct (users s !! n) as [v|] eqn:Hv; [|discriminate]. cbn in H. injection H as <-.
  exists v. split; [reflexivity|]. destruct (u_kill v); [auto|]. destruct v; auto.
Qed.

Lemma away_keeps s c text r : process_away cfg i s c text = Ok r -> keeps s (h_sh r).
Proof.
  unfold process_away. destruct (own_nick c) as [nick|]; cbn [rbind]; [|discriminate].
  unfold get_user. destruct (users s !! nick) as [u|] eqn:Hu; cbn [rbind]; [|discriminate].
  intros [= <-]. cbn [h_sh]. eapply (keeps_insert s _ nick u); cbn; [reflexivity|reflexivity|exact Hu|destruct u; reflexivity|destruct u; reflexivity|destruct u; reflexivity].
Qed.

End frame.

(* ---------------------------------------------------------------- operator status is never conferred except by OPER / registration defaults *)
(* every operator afterwards was an operator before, on the same connection *)
Definition no_new_oper (s s' : shared) : Prop :=
  forall n u', users s' !! n = Some u' -> um_oper (u_modes u') = true ->
    exists n0 u, users s !! n0 = Some u /\ u_conn u = u_conn u' /\ um_oper (u_modes u) = true.
Definition no_new_local_oper (s s' : shared) : Prop :=
  forall n u', users s' !! n = Some u' -> um_local_oper (u_modes u') = true ->
    exists n0 u, users s !! n0 = Some u /\ u_conn u = u_conn u' /\ um_local_oper (u_modes u) = true.

Lemma keeps_no_new s s' : keeps_nk s s' -> no_new_oper s s' /\ no_new_local_oper s s'.
Proof.
  intros [K _]. split; intros n u' Hu Ho; destruct (K n u' Hu) as [u [H [Hc Hm]]]; exists n, u; rewrite <- Hm; auto.
Qed.

Lemma no_new_oper_trans s1 s2 s3 : no_new_oper s1 s2 -> no_new_oper s2 s3 -> no_new_oper s1 s3.
Proof.
  intros A B n u3 H3 O3. destruct (B n u3 H3 O3) as [n2 [u2 [H2 [C2 O2]]]]. destruct (A n2 u2 H2 O2) as [n1 [u1 [H1 [C1 O1]]]].
  exists n1, u1. repeat split; congruence.
Qed.
Lemma no_new_local_oper_trans s1 s2 s3 : no_new_local_oper s1 s2 -> no_new_local_oper s2 s3 -> no_new_local_oper s1 s3.
Proof.
  intros A B n u3 H3 O3. destruct (B n u3 H3 O3) as [n2 [u2 [H2 [C2 O2]]]]. destruct (A n2 u2 H2 O2) as [n1 [u1 [H1 [C1 O1]]]].
  exists n1, u1. repeat split; congruence.
Qed.

Section frame2.
Context (cfg : config) (verify : str -> str -> bool) (i : nat).

(* every command of a registered connection other than OPER: no new (local) operator *)
Theorem dispatch_no_new_oper s c cmd msg r :
  InvS s -> conn_ok i s c -> c_auth c = true ->
  dispatch cfg verify i s c cmd msg = Ok r ->
  (forall name pw, cmd <> OPER name pw) ->
  no_new_oper s (h_sh r) /\ no_new_local_oper s (h_sh r).
Proof.
  intros I C A H Hno.
  assert (forall r0, same_result s c r0 -> no_new_oper s (h_sh r0) /\ no_new_local_oper s (h_sh r0)) as Same.
  { intros r0 [E _]. rewrite E. apply keeps_no_new, keeps_nk_refl. }
  assert (forall (P : res hres), (exists r0, P = Ok r0 /\ same_result s c r0) -> P = Ok r -> no_new_oper s (h_sh r) /\ no_new_local_oper s (h_sh r)) as S2.
  { intros P [r0 [-> Hs]] [= <-]. now apply Same. }
  assert (forall o, Ok {| h_sh := s; h_conn := c; h_out := o; h_quit := false |} = Ok r -> no_new_oper s (h_sh r) /\ no_new_local_oper s (h_sh r)) as S3.
  { intros o [= <-]. apply keeps_no_new, keeps_nk_refl. }
  destruct (own_user i s c C A) as [nick [u [Hn [Hu [Hc [Ho Hg]]]]]].
  destruct cmd; cbn [dispatch] in H.
  - (* CAP *) unfold process_cap in H. destruct sub.
    + injection H as <-. apply keeps_no_new, keeps_nk_refl.
    + injection H as <-. apply keeps_no_new, keeps_nk_refl.
    + destruct caps as [cs|]; [destruct (forallb _ cs)|]; injection H as <-; apply keeps_no_new, keeps_nk_refl.
    + rewrite A in H. injection H as <-. apply keeps_no_new, keeps_nk_refl.
  - injection H as <-. apply keeps_no_new, keeps_nk_refl.
  - unfold process_pass in H. rewrite A in H. injection H as <-. apply keeps_no_new, keeps_nk_refl.
  - (* NICK: the record is re-keyed with its modes *)
    destruct (decide (nickname = nick)) as [->|Hne].
    { rewrite (process_nick_same cfg verify i s c msg nick A Hn) in H. injection H as <-. apply keeps_no_new, keeps_nk_refl. }
    destruct (users s !! nickname) as [x|] eqn:Hx.
    { rewrite (process_nick_refused cfg verify i s c nickname msg nick x A Hn Hne Hx) in H. injection H as <-. apply keeps_no_new, keeps_nk_refl. }
    destruct (process_nick_effect cfg verify i s c nickname msg nick u I A Hn Hu Hne Hx) as [r0 [Hr [_ [_ [Hus _]]]]].
    rewrite Hr in H. injection H as <-.
    assert (forall n u', users (h_sh r0) !! n = Some u' ->
              exists n0 u0, users s !! n0 = Some u0 /\ u_conn u0 = u_conn u' /\ u_modes u0 = u_modes u') as K.
    { intros n u' Hu'. rewrite Hus in Hu'. destruct (decide (n = nickname)) as [->|N1].
      - rewrite lookup_insert in Hu'. injection Hu' as <-. exists nick, u. destruct u; auto.
      - rewrite lookup_insert_ne in Hu' by congruence. destruct (decide (n = nick)) as [->|N2]; [now rewrite lookup_delete in Hu'|].
        rewrite lookup_delete_ne in Hu' by congruence. eauto. }
    split; intros n u' Hu' Hf; destruct (K n u' Hu') as [n0 [u0 [H0 [C0 M0]]]]; exists n0, u0; rewrite M0; auto.
  - unfold process_user in H. rewrite A in H. injection H as <-. apply keeps_no_new, keeps_nk_refl.
  - injection H as <-. apply keeps_no_new, keeps_nk_refl.
  - injection H as <-. apply keeps_no_new, keeps_nk_refl.
  - exfalso. eapply Hno. reflexivity.
  - (* QUIT *) injection H as <-. apply keeps_no_new, keeps_nk_refl.
  - apply keeps_no_new, keeps_weaken. eapply join_keeps; eauto.
  - apply keeps_no_new, keeps_weaken. eapply part_keeps; eauto.
  - apply keeps_no_new, keeps_weaken. eapply topic_keeps; eauto.
  - eapply S2; [|exact H]. now apply process_names_ok.
  - unfold process_list in H. destruct server; eapply S3; exact H.
  - apply keeps_no_new, keeps_weaken. eapply invite_keeps; eauto.
  - apply keeps_no_new, keeps_weaken. eapply kick_keeps; eauto.
  - unfold process_motd in H. destruct target; eapply S3; exact H.
  - unfold process_version in H. destruct target; eapply S3; exact H.
  - unfold process_admin in H. destruct target; eapply S3; exact H.
  - eapply S3; exact H.
  - unfold process_lusers in H. destruct (lusers_lines s (client_name c)); cbn [rbind] in H; [|discriminate]. eapply S3; exact H.
  - unfold process_time in H. destruct server; eapply S3; exact H.
  - unfold process_stats in H. destruct server; [eapply S3; exact H|].
    rewrite Ho in H. cbn [rbind] in H. rewrite Hg in H. cbn [rbind] in H. destruct (is_local_oper _); eapply S3; exact H.
  - unfold process_links in H. destruct remote_server, server_mask; eapply S3; exact H.
  - unfold process_help in H. destruct (help_topic _); eapply S3; exact H.
  - eapply S3; exact H.
  - (* MODE *)
    unfold process_mode in H. rewrite Ho in H. cbn [rbind] in H. destruct (validate_channel target).
    + destruct (chans s !! target) as [co|]; [|eapply S3; exact H].
      destruct (ch_users co !! nick) as [rk|]; [|eapply S3; exact H].
      apply keeps_no_new, keeps_weaken. eapply mode_channel_keeps; eauto.
    + destruct (bool_decide (nick = target)).
      * destruct (mode_user_no_grant cfg i s c nick modes r u Hu H) as [m' [Hus [_ [[G1 G2] _]]]].
        split; intros n u' Hu' Hf; rewrite Hus in Hu'; (destruct (decide (n = nick)) as [->|N1];
          [rewrite lookup_insert in Hu'; injection Hu' as <-; exists nick, u; destruct u; cbn in *; auto
          |rewrite lookup_insert_ne in Hu' by congruence; exists n, u'; auto]).
      * destruct (users s !! target); eapply S3; exact H.
  - eapply S2; [|exact H]. now apply process_privmsg_ok.
  - eapply S2; [|exact H]. now apply process_privmsg_ok.
  - eapply S2; [|exact H]. now apply process_who_ok.
  - eapply S2; [|exact H]. now apply process_whois_ok.
  - unfold process_whowas in H. destruct server; eapply S3; exact H.
  - apply keeps_no_new. eapply kill_keeps; eauto.
  - eapply S3; exact H.
  - eapply S3; exact H.
  - unfold process_squit in H. destruct (bool_decide _); [apply keeps_no_new; eapply die_keeps; eauto|eapply S3; exact H].
  - apply keeps_no_new, keeps_weaken. eapply away_keeps; eauto.
  - eapply S3; exact H.
  - eapply S2; [|exact H]. now apply process_wallops_ok.
  - eapply S3; exact H.
  - apply keeps_no_new. eapply die_keeps; eauto.
Qed.

End frame2.

(* ---------------------------------------------------------------- registration: the new user has the default modes *)
Section reg.
Context (cfg : config) (verify : str -> str -> bool) (i : nat).

Definition fresh_user (s s' : shared) : Prop :=
  users s' = users s \/
  exists nick u, users s !! nick = None /\ users s' = <[nick := u]> (users s) /\ u_conn u = i /\
    um_oper (u_modes u) = um_oper (cfg_default_umodes cfg) /\
    um_local_oper (u_modes u) = um_local_oper (cfg_default_umodes cfg).

Lemma authenticate_fresh s c r : authenticate cfg verify i s c = Ok r -> fresh_user s (h_sh r).
Proof.
  unfold authenticate. destruct (c_capneg c); [intros [= <-]; now left|].
  destruct (c_nick c) as [nick|]; [|intros [= <-]; now left].
  destruct (c_name c) as [name|]; [|intros [= <-]; now left].
  destruct (negb _); [intros [= <-]; now left|].
  match goal with |- (if ?g then _ else _) = _ -> _ => destruct g end; [|intros [= <-]; now left].
  destruct (users s !! nick) eqn:Hn; [intros [= <-]; now left|].
  destruct (c_sender_taken c); [discriminate|].
  match goal with |- context [st_add_user nick ?u0 s] => set (u := u0) end.
  destruct (lusers_lines _ _); cbn [rbind]; [|discriminate]. intros [= <-]. cbn [h_sh]. right.
  exists nick, u. split; [exact Hn|]. split; [apply st_add_user_fields|]. unfold u. cbn. auto.
Qed.

Lemma unauth_dispatch_fresh s c cmd msg r : c_auth c = false -> needs_registration cmd = false ->
  dispatch cfg verify i s c cmd msg = Ok r -> fresh_user s (h_sh r).
Proof.
  intros A Hn. destruct cmd; try discriminate Hn; cbn [dispatch].
  - unfold process_cap. destruct sub.
    + intros [= <-]; now left.
    + intros [= <-]; now left.
    + destruct caps as [cs|]; [destruct (forallb _ cs)|]; intros [= <-]; now left.
    + rewrite A. apply authenticate_fresh.
  - intros [= <-]; now left.
  - unfold process_pass. rewrite A. apply authenticate_fresh.
  - unfold process_nick. rewrite A. cbn [negb]. destruct (users s !! nickname); [intros [= <-]; now left|apply authenticate_fresh].
  - unfold process_user. rewrite A. apply authenticate_fresh.
  - intros [= <-]; now left.
Qed.

(* one line of any connection: every operator afterwards was one before on the same connection,
   or is the sender itself - through an accepted OPER or through the configured default modes *)
Definition oper_source (s : shared) (c : conn) (l : str) (u' : user) : Prop :=
  (exists n0 u, users s !! n0 = Some u /\ u_conn u = u_conn u' /\ um_oper (u_modes u) = true) \/
  (u_conn u' = i /\
   ((c_auth c = true /\ exists msg name pw, tokenize l = inl msg /\ command_of_message msg = inl (OPER name pw) /\
                                             oper_accepted cfg verify c name pw = true) \/
    (c_auth c = false /\ um_oper (cfg_default_umodes cfg) = true))).

Theorem line_oper_source s c l r : InvS s -> conn_ok i s c ->
  process_line cfg verify i s c l = Ok r ->
  forall n u', users (h_sh r) !! n = Some u' -> um_oper (u_modes u') = true -> oper_source s c l u'.
Proof.
  intros I C H n u' Hu' Hop.
  assert (forall o, Ok {| h_sh := s; h_conn := c; h_out := o; h_quit := false |} = Ok r -> oper_source s c l u') as Same.
  { intros o [= <-]. cbn in Hu'. left. eauto. }
  unfold process_line in H. destruct (tokenize l) as [msg|[| |]] eqn:Ht; try (eapply Same; exact H).
  destruct (command_of_message msg) as [cmd|e] eqn:Hcmd; [|eapply Same; exact H].
  destruct (needs_registration cmd && negb (c_auth c)) eqn:G; [eapply Same; exact H|].
  destruct (c_auth c) eqn:A.
  - destruct (own_user i s c C A) as [nick [u [Hn [Hu [Hc [Ho Hg]]]]]].
    destruct (match cmd with OPER _ _ => true | _ => false end) eqn:Eo.
    + destruct cmd; try discriminate Eo. cbn [dispatch] in H.
      destruct (oper_spec cfg verify i s c name password nick u Hn Hu) as [r0 [Hr [_ [_ Hacc]]]].
      rewrite Hr in H. injection H as <-. destruct (oper_accepted cfg verify c name password) eqn:Eacc.
      * destruct Hacc as [Hus _]. rewrite Hus in Hu'. destruct (decide (n = nick)) as [->|N1].
        -- rewrite lookup_insert in Hu'. injection Hu' as <-. right. split; [destruct u; exact Hc|]. left. split; [exact A|]. eauto 8.
        -- rewrite lookup_insert_ne in Hu' by congruence. left. eauto.
      * destruct Hacc as [E _]. rewrite E in Hu'. left. eauto.
    + destruct (dispatch_no_new_oper cfg verify i s c cmd msg r I C A H) as [N _].
      { intros name pw ->. discriminate Eo. }
      left. exact (N n u' Hu' Hop).
  - cbn in G. rewrite andb_true_r in G.
    destruct (unauth_dispatch_fresh s c cmd msg r A G H) as [E|[nick [u [Hfree [Hus [Hcu [Hmo _]]]]]]].
    + rewrite E in Hu'. left. eauto.
    + rewrite Hus in Hu'. destruct (decide (n = nick)) as [->|N1].
      * rewrite lookup_insert in Hu'. injection Hu' as <-. right. split; [exact Hcu|]. right. split; [exact A|]. congruence.
      * rewrite lookup_insert_ne in Hu' by congruence. left. eauto.
Qed.

End reg.
