(* DieP.v - DIE by an operator ends every session: after the step no user is left and no
   registered connection remains. *)
From IRC Require Import Str Wild Glob Mask Parse Reply State Handlers Step.
From IRCP Require Import StrP InvDefs InvPrims InvHandlers InvStep Reach OperP.
From stdpp Require Import gmap.
Open Scope N_scope.

Local Arguments lit : simpl never.

Section die.
Context (cfg : config) (verify : str -> str -> bool).

Theorem die_ends_all w i c l msg m nick u w' o cl :
  Inv w -> conns w !! i = Some c -> c_auth c = true -> c_nick c = Some nick ->
  users (sh w) !! nick = Some u -> um_oper (u_modes u) = true ->
  tokenize l = inl msg -> command_of_message msg = inl (DIE m) ->
  step cfg verify w i (EvLine l) = Ok (w', o, cl) ->
  users (sh w') = ∅ /\ (forall j c', conns w' !! j = Some c' -> c_auth c' = false).
Proof.
  intros I Hc A Hn Hu Ho Ht Hcmd H. pose proof (InvK_of_Inv w I) as K.
  destruct (step_frame cfg verify w i (EvLine l) w' o cl I H) as [I' _].
  unfold step in H. destruct (step_raw cfg verify w i (EvLine l)) as [[[w1 o1] c1]|] eqn:H1; [|discriminate]. cbn [rbind] in H.
  destruct (step_raw_frame cfg verify w i (EvLine l) w1 o1 c1 K H1) as [K1 _].
  destruct (deliver_kills_ok cfg w1 K1) as [w2 [o2 [c2 [H2 [_ [Hsub _]]]]]]. rewrite H2 in H. cbn [rbind] in H. injection H as <- _ _.
  (* every user of the intermediate world is marked *)
  assert (forall n v, users (sh w1) !! n = Some v -> u_kill v <> None) as Hall.
  { cbn [step_raw] in H1. rewrite Hc in H1. unfold process_line in H1. rewrite Ht, Hcmd in H1. rewrite A in H1. cbn [needs_registration andb negb dispatch] in H1.
    rewrite (die_spec cfg i (sh w) c nick u m Hn Hu), Ho in H1. cbn [hr rbind h_quit h_sh h_conn h_out] in H1. injection H1 as <- _ _.
    cbn [sh]. intros n v Hv. cbn in Hv. rewrite lookup_fmap in Hv. destruct (users (sh w) !! n) as [v0|]; [|discriminate]. cbn in Hv. injection Hv as <-.
    destruct (u_kill v0) eqn:E; [congruence|]. destruct v0; cbn. discriminate. }
  assert (users (sh w2) = ∅) as He.
  { apply map_empty. intros n. destruct (users (sh w2) !! n) as [v|] eqn:E; [|reflexivity].
    destruct (Hsub n v E) as [Hv Hk]. exfalso. exact (Hall n v Hv Hk). }
  split; [exact He|]. intros j c' Hj. destruct (c_auth c') eqn:Aj; [|reflexivity].
  destruct (iw_cu w2 I' j c' Hj Aj) as [nj [uj [_ [Huj _]]]]. rewrite He in Huj. now rewrite lookup_empty in Huj.
Qed.

End die.
