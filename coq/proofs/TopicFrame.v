(* TopicFrame.v - a channel's topic changes only through TOPIC: for every other command, and for every way a
   session ends, a channel that exists before and after has the same topic (text and setter). *)
From IRC Require Import Str Wild Glob Mask Parse Reply State Handlers Step.
From IRCP Require Import StrP ChanP InvDefs InvPrims InvNick InvHandlers InvStep Reach NickP OperP ModesFrame ModeP SettingsFrame.
From stdpp Require Import gmap.
Open Scope N_scope.

Local Arguments lit : simpl never.

Definition tpc (co : chan) := ch_topic co.

Lemma chan_set_rank_topic l b nick co co' : chan_set_rank l b nick co = Ok co' -> tpc co' = tpc co.
Proof. unfold chan_set_rank. destruct (ch_users co !! nick); [|discriminate]. intros [= <-]. reflexivity. Qed.

Lemma chan_remove_user_topic nick co co' : chan_remove_user nick co = Ok co' -> tpc co' = tpc co.
Proof.
  unfold chan_remove_user.
  assert (forall ls c0 c1, rfold (fun c l => chan_set_rank l false nick c) ls c0 = Ok c1 -> tpc c1 = tpc c0) as G.
  { induction ls as [|l ls IH]; intros c0 c1; cbn [rfold]; [intros [= <-]; reflexivity|].
    destruct (chan_set_rank l false nick c0) as [c2|] eqn:E; cbn [rbind]; [|discriminate]. intros H.
    rewrite (IH _ _ H). eapply chan_set_rank_topic; eauto. }
  destruct (rfold _ all_rankletters co) as [c1|] eqn:E; cbn [rbind]; [|discriminate]. intros [= <-].
  rewrite <- (G _ _ _ E). reflexivity.
Qed.

Lemma chan_add_user_topic nick co : tpc (chan_add_user nick co) = tpc co.
Proof.
  unfold chan_add_user.
  match goal with |- context [fold_left ?F ?L ?A] => destruct (fold_left F L A) as [m r] end. reflexivity.
Qed.

(* ---------------------------------------------------------------- relations on the shared state *)
(* every channel afterwards existed before with the same settings (departures, session ends) *)
Definition tshrink (s s' : shared) : Prop :=
  forall ch co', chans s' !! ch = Some co' -> exists co, chans s !! ch = Some co /\ tpc co' = tpc co.
(* a channel present before and after has the same settings *)
Definition tkeeps (s s' : shared) : Prop :=
  forall ch co co', chans s !! ch = Some co -> chans s' !! ch = Some co' -> tpc co' = tpc co.

Lemma tshrink_refl s : tshrink s s. Proof. intros ch co H. eauto. Qed.
Lemma tshrink_trans s1 s2 s3 : tshrink s1 s2 -> tshrink s2 s3 -> tshrink s1 s3.
Proof. intros A B ch c3 H3. destruct (B ch c3 H3) as [c2 [H2 E2]]. destruct (A ch c2 H2) as [c1 [H1 E1]]. exists c1. split; [exact H1|congruence]. Qed.
Lemma tshrink_tkeeps s s' : tshrink s s' -> tkeeps s s'.
Proof. intros A ch co co' H H'. destruct (A ch co' H') as [c0 [H0 E]]. congruence. Qed.
Lemma tkeeps_then_shrink s1 s2 s3 : tkeeps s1 s2 -> tshrink s2 s3 -> tkeeps s1 s3.
Proof. intros A B ch c1 c3 H1 H3. destruct (B ch c3 H3) as [c2 [H2 E]]. rewrite E. eapply A; eauto. Qed.
Lemma tkeeps_chans_eq s s' : chans s' = chans s -> tkeeps s s'.
Proof. intros E ch co co' H H'. rewrite E in H'. congruence. Qed.
Lemma tshrink_chans_eq s s' : chans s' = chans s -> tshrink s s'.
Proof. intros E ch co' H'. rewrite E in H'. eauto. Qed.

Lemma rfold_tshrink {A} (f : shared -> A -> res shared) l :
  (forall s x s', f s x = Ok s' -> tshrink s s') -> forall s s', rfold f l s = Ok s' -> tshrink s s'.
Proof.
  intros Hf. induction l as [|x l IH]; intros s s'; cbn [rfold].
  - intros [= <-]. apply tshrink_refl.
  - destruct (f s x) as [s1|] eqn:E; cbn [rbind]; [|discriminate]. intros H.
    eapply tshrink_trans; [eapply Hf; eauto|eapply IH; eauto].
Qed.

Lemma remove_from_channel_tshrink ch nick s s' : st_remove_user_from_channel ch nick s = Ok s' -> tshrink s s'.
Proof.
  unfold st_remove_user_from_channel.
  assert (forall s1, tshrink s s1 ->
            match users s1 !! nick with
            | Some u => Ok (set_users (fun us => <[nick := u_set_chans (fun cs => cs ∖ {[ch]}) u]> us) s1)
            | None => Ok s1
            end = Ok s' -> tshrink s s') as K.
  { intros s1 S1. destruct (users s1 !! nick); intros [= <-]; [|exact S1].
    intros c0 co' H. cbn in H. exact (S1 c0 co' H). }
  destruct (chans s !! ch) as [co|] eqn:Hco; cbn [rbind]; [|apply K, tshrink_refl].
  destruct (chan_remove_user nick co) as [co1|] eqn:E; cbn [rbind]; [|discriminate].
  destruct (_ && _); cbn [rbind]; apply K.
  - intros c0 co' H. cbn in H. destruct (decide (c0 = ch)) as [->|N1]; [now rewrite lookup_delete in H|].
    rewrite lookup_delete_ne in H by congruence. eauto.
  - intros c0 co' H. cbn in H. destruct (decide (c0 = ch)) as [->|N1].
    + rewrite lookup_insert in H. injection H as <-. exists co. split; [exact Hco|]. eapply chan_remove_user_topic; eauto.
    + rewrite lookup_insert_ne in H by congruence. eauto.
Qed.

Lemma st_remove_user_tshrink nick s s' : st_remove_user nick s = Ok s' -> tshrink s s'.
Proof.
  unfold st_remove_user. destruct (users s !! nick) as [u|]; [|intros [= <-]; apply tshrink_refl].
  set (s0 := set_users (delete nick) s).
  destruct (if is_local_oper (u_modes u) then _ else Ok s0) as [s1|] eqn:E1; cbn [rbind]; [|discriminate].
  assert (chans s1 = chans s) as C1.
  { destruct (is_local_oper (u_modes u)); [|injection E1 as <-; reflexivity].
    destruct (dec_counter (op_count s0)); cbn [rbind] in E1; [|discriminate]. injection E1 as <-. reflexivity. }
  destruct (if um_invisible (u_modes u) then _ else Ok s1) as [s2|] eqn:E2; cbn [rbind]; [|discriminate].
  assert (chans s2 = chans s) as C2.
  { destruct (um_invisible (u_modes u)); [|injection E2 as <-; exact C1].
    destruct (dec_counter (inv_count s1)); cbn [rbind] in E2; [|discriminate]. injection E2 as <-. exact C1. }
  destruct (rfold _ (elements (u_chans u)) _) as [s4|] eqn:E4; cbn [rbind]; [|discriminate]. intros [= <-].
  eapply tshrink_trans; [apply (tshrink_chans_eq s (set_wallops (fun w => w ∖ {[nick]}) s2)); exact C2|].
  eapply tshrink_trans; [eapply rfold_tshrink; [|exact E4]; intros sa x sb H; cbn beta in H; eapply remove_from_channel_tshrink; exact H|].
  apply tshrink_chans_eq. reflexivity.
Qed.

Section frame.
Context (cfg : config) (verify : str -> str -> bool).

Lemma teardown_tshrink i w w' : teardown i w = Ok w' -> tshrink (sh w) (sh w').
Proof.
  unfold teardown. destruct (conns w !! i) as [c|]; [|intros [= <-]; apply tshrink_refl].
  destruct (if c_auth c then _ else Ok (sh w)) as [s'|] eqn:E; cbn [rbind]; [|discriminate].
  destruct (dec_counter (nconns w)); cbn [rbind]; [|discriminate]. intros [= <-]. cbn [sh].
  destruct (c_auth c); [|injection E as <-; apply tshrink_refl].
  destruct (c_nick c) as [n|]; [|injection E as <-; apply tshrink_refl]. eapply st_remove_user_tshrink; eauto.
Qed.

Lemma deliver_kills_tshrink w w' o cl : deliver_kills cfg w = Ok (w', o, cl) -> tshrink (sh w) (sh w').
Proof.
  unfold deliver_kills.
  match goal with |- rfold ?F ?L ?A = _ -> _ => set (F0 := F); generalize L end. intros l.
  assert (forall l wa oa ca wb ob cb, rfold F0 l (wa, oa, ca) = Ok (wb, ob, cb) -> tshrink (sh wa) (sh wb)) as G.
  { clear. induction l as [|[[j k] cm] l IH]; intros wa oa ca wb ob cb; cbn [rfold]; [intros [= <- _ _]; apply tshrink_refl|].
    unfold F0 at 1. destruct (teardown j wa) as [w1|] eqn:E; cbn [rbind]; [|discriminate]. intros H.
    eapply tshrink_trans; [eapply teardown_tshrink; eauto|eapply IH; eauto]. }
  apply G.
Qed.

(* ---------------------------------------------------------------- JOIN *)
Lemma join_check_create s c u nick client ch key :
  (join_check s c u nick client ch key).1.2 = true -> chans s !! ch = None.
Proof.
  unfold join_check. destruct (chans s !! ch) as [co|]; [|reflexivity].
  repeat match goal with
         | |- context [let '(_, _) := ?x in _] => destruct x eqn:?
         | |- context [match ?x with _ => _ end] => destruct x eqn:?
         end; cbn; intros; try discriminate; try reflexivity.
Qed.

Lemma phase1_create_absent s c u nick client keys chs0 : forall idx seen jc plan o jc',
  join_phase1 cfg s c u nick client chs0 keys idx seen jc = Ok (plan, o, jc') ->
  forall ch j, (ch, (j, true)) ∈ plan -> chans s !! ch = None.
Proof.
  induction chs0 as [|ch0 chs0 IH]; intros idx seen jc plan o jc'; cbn [join_phase1].
  - intros [= <- _ _] ch j H. inversion H.
  - destruct (existsb _ seen).
    + destruct (join_phase1 cfg s c u nick client chs0 keys (S idx) _ jc) as [[[l o'] jc2]|] eqn:E; cbn [rbind]; [|discriminate].
      intros [= <- _ _] ch j H. apply elem_of_cons in H as [H|H]; [discriminate H|]. eapply IH; eauto.
    + destruct (match keys with None => Ok None | Some ks => _ end) as [key|]; cbn [rbind]; [|discriminate].
      destruct (join_check s c u nick client ch0 key) as [[jn cr] o1] eqn:Ejc.
      destruct (match cfg_max_joins cfg with Some mj => _ | None => _ end) as [dj o2].
      destruct (join_phase1 cfg s c u nick client chs0 keys (S idx) _ _) as [[[l o'] jc2]|] eqn:E; cbn [rbind]; [|discriminate].
      intros [= <- _ _] ch j H. apply elem_of_cons in H as [H|H]; [|eapply IH; eauto].
      injection H as -> _ <-. apply (join_check_create s c u nick client ch0 key). rewrite Ejc. reflexivity.
Qed.

(* an entry that does not (re)create the channel ch0 leaves its settings alone *)
Lemma join_insert_topic nick s x s' ch0 co :
  chans s !! ch0 = Some co -> (forall j, x <> (ch0, (j, true))) -> join_insert nick s x = Ok s' ->
  exists co', chans s' !! ch0 = Some co' /\ tpc co' = tpc co.
Proof.
  intros Hco Hx. destruct x as [ch [j cr]]. unfold join_insert. destruct (negb j); [intros [= <-]; eauto|].
  destruct (get_user s nick) as [u|]; cbn [rbind]; [|discriminate]. destruct cr.
  - intros [= <-]. cbn. destruct (decide (ch0 = ch)) as [->|N1]; [exfalso; eapply Hx; reflexivity|].
    rewrite lookup_insert_ne by congruence. eauto.
  - unfold get_chan. cbn [chans set_users]. destruct (chans s !! ch) as [c1|] eqn:H1; cbn [rbind]; [|discriminate].
    intros [= <-]. cbn. destruct (decide (ch0 = ch)) as [->|N1].
    + rewrite lookup_insert. eexists. split; [reflexivity|]. rewrite chan_add_user_topic. congruence.
    + rewrite lookup_insert_ne by congruence. eauto.
Qed.

Lemma join_tkeeps i s c chs0 keys r : process_join cfg i s c chs0 keys = Ok r -> tkeeps s (h_sh r).
Proof.
  unfold process_join. destruct (own_nick c) as [nick|]; cbn [rbind]; [|discriminate].
  destruct (get_user s nick) as [u|]; cbn [rbind]; [|discriminate].
  destruct (join_phase1 _ _ _ _ _ _ _ _ _ _ _) as [[[plan o1] q]|] eqn:Ep; cbn [rbind]; [|discriminate].
  destruct (rfold (join_insert nick) plan s) as [s'|] eqn:E; cbn [rbind]; [|discriminate].
  match goal with |- context [rfold ?G plan []] => destruct (rfold G plan []) as [o2|] end; cbn [rbind]; [|discriminate].
  intros [= <-]. cbn [h_sh]. intros ch0 co co' Hco Hco'.
  assert (forall j, (ch0, (j, true)) ∉ plan) as Hnc.
  { intros j Hin. pose proof (phase1_create_absent s c u nick (client_name c) keys chs0 _ _ _ _ _ _ Ep ch0 j Hin). congruence. }
  clear Ep. revert s co Hco E. induction plan as [|x plan IH]; intros s co Hco; cbn [rfold].
  - intros [= <-]. congruence.
  - destruct (join_insert nick s x) as [s1|] eqn:E1; cbn [rbind]; [|discriminate]. intros E.
    destruct (join_insert_topic nick s x s1 ch0 co Hco) as [c1 [H1 S1]]; [|exact E1|].
    { intros j ->. apply (Hnc j). left. }
    rewrite <- S1. eapply IH; eauto. intros j Hin. apply (Hnc j). now right.
Qed.

(* ---------------------------------------------------------------- the other commands *)
Lemma part_tshrink i s c chs0 reason r : process_part cfg i s c chs0 reason = Ok r -> tshrink s (h_sh r).
Proof.
  unfold process_part. destruct (own_nick c) as [nick|]; cbn [rbind]; [|discriminate].
  match goal with |- context [rfold ?F chs0 (s, [])] => set (F0 := F) end.
  assert (forall l s0 o0 s1 o1, rfold F0 l (s0, o0) = Ok (s1, o1) -> tshrink s0 s1) as G.
  { induction l as [|ch l IH]; intros s0 o0 s1 o1; cbn [rfold]; [intros [= <- _]; apply tshrink_refl|].
    unfold F0 at 1. destruct (chans s0 !! ch) as [co|]; [|cbn [rbind]; apply IH].
    destruct (bool_decide _); [|cbn [rbind]; apply IH].
    destruct (send_all _ _ _); cbn [rbind]; [|discriminate].
    destruct (st_remove_user_from_channel ch nick s0) as [s2|] eqn:E; cbn [rbind]; [|discriminate].
    intros H. eapply tshrink_trans; [eapply remove_from_channel_tshrink; eauto|eapply IH; eauto]. }
  destruct (rfold F0 chs0 (s, [])) as [[s' o]|] eqn:E; cbn [rbind]; [|discriminate].
  destruct (get_user s' nick); cbn [rbind]; [|discriminate]. intros [= <-]. cbn [h_sh]. eapply G; eauto.
Qed.

Lemma kick_tshrink i s c ch victims comment r : process_kick cfg i s c ch victims comment = Ok r -> tshrink s (h_sh r).
Proof.
  unfold process_kick. destruct (own_nick c) as [nick|]; cbn [rbind]; [|discriminate].
  destruct (kick_decide s nick (client_name c) ch victims) as [kicked o1].
  destruct (rfold (fun s v => st_remove_user_from_channel ch v s) kicked s) as [s'|] eqn:E; cbn [rbind]; [|discriminate].
  match goal with |- context [rfold ?G kicked []] => destruct (rfold G kicked []) end; cbn [rbind]; [|discriminate]. intros [= <-]. cbn [h_sh].
  eapply rfold_tshrink; [|exact E]. intros s0 x s1 H; cbn beta in H. eapply remove_from_channel_tshrink; exact H.
Qed.

(* TOPIC touches the named channel only *)
Lemma topic_tkeeps_others i s c ch topic msg r : process_topic cfg i s c ch topic msg = Ok r ->
  forall c0 c1 c2, c0 <> ch -> chans s !! c0 = Some c1 -> chans (h_sh r) !! c0 = Some c2 -> tpc c2 = tpc c1.
Proof.
  intros H c0 c1 c2 Hne H1 H2.
  assert (forall o, Ok {| h_sh := s; h_conn := c; h_out := o; h_quit := false |} = Ok r -> tpc c2 = tpc c1) as Same.
  { intros o [= <-]. cbn in H2. congruence. }
  unfold process_topic in H. destruct (own_nick c) as [nick|]; cbn [rbind] in H; [|discriminate].
  destruct topic as [t|].
  - destruct (chans s !! ch) as [co|] eqn:Hco; [|eapply Same; exact H].
    destruct (ch_users co !! nick) as [rk|]; [|eapply Same; exact H].
    destruct (topic_allowed co rk); [|eapply Same; exact H].
    destruct (send_all _ _ _); cbn [rbind] in H; [|discriminate]. injection H as <-. cbn in H2.
    rewrite lookup_insert_ne in H2 by congruence. congruence.
  - destruct (chans s !! ch) as [co|]; [|eapply Same; exact H].
    destruct (bool_decide _); [|eapply Same; exact H]. destruct (ch_topic co) as [[t w]|]; eapply Same; exact H.
Qed.

(* MODE leaves every topic alone *)
Lemma mode_tkeeps i s c target modes r nick : own_nick c = Ok nick -> users s !! nick <> None ->
  process_mode cfg i s c target modes = Ok r -> tkeeps s (h_sh r).
Proof.
  intros Ho Hex H.
  assert (forall o, Ok {| h_sh := s; h_conn := c; h_out := o; h_quit := false |} = Ok r -> tkeeps s (h_sh r)) as S3.
  { intros o [= <-]. apply tkeeps_chans_eq. reflexivity. }
  unfold process_mode in H. rewrite Ho in H. cbn [rbind] in H. destruct (validate_channel target).
  - destruct (chans s !! target) as [ct|] eqn:Hct; [|eapply S3; exact H].
    destruct (ch_users ct !! nick) as [rk|]; [|eapply S3; exact H].
    destruct modes as [|m ms].
    + destruct (process_mode_channel_query cfg i s c target nick ct rk r H) as [E _]. rewrite E. apply tkeeps_chans_eq. reflexivity.
    + destruct (process_mode_channel_effect cfg i s c target nick ct rk (m :: ms) r) as [_ [_ [ct' [E [_ [Ht _]]]]]]; [discriminate|exact H|].
      rewrite E. intros c0 c1 c2 H1 H2. cbn in H2. destruct (decide (c0 = target)) as [->|N1].
      * rewrite lookup_insert in H2. injection H2 as <-. assert (c1 = ct) as -> by congruence. exact Ht.
      * rewrite lookup_insert_ne in H2 by congruence. congruence.
  - destruct (bool_decide (nick = target)).
    + destruct (users s !! nick) as [u|] eqn:Hu; [|contradiction].
      destruct (mode_user_no_grant cfg i s c nick modes r u Hu H) as [m' [_ [Hch _]]]. now apply tkeeps_chans_eq.
    + destruct (users s !! target); eapply S3; exact H.
Qed.

Lemma chans_same_invite i s c nickname ch msg r : process_invite cfg i s c nickname ch msg = Ok r -> chans (h_sh r) = chans s.
Proof.
  unfold process_invite. destruct (own_nick c) as [nick|]; cbn [rbind]; [|discriminate].
  destruct (chans s !! ch) as [co|]; [|intros [= <-]; reflexivity].
  destruct (ch_users co !! nick) as [rk|]; [|intros [= <-]; reflexivity].
  destruct (_ && _); [intros [= <-]; reflexivity|]. destruct (bool_decide _); [intros [= <-]; reflexivity|].
  destruct (users s !! nickname) as [inv|]; intros [= <-]; reflexivity.
Qed.

Lemma chans_same_kill i s c nickname comment r : process_kill cfg i s c nickname comment = Ok r -> chans (h_sh r) = chans s.
Proof.
  unfold process_kill. destruct (own_nick c) as [nick|]; cbn [rbind]; [|discriminate].
  destruct (get_user s nick) as [u|]; cbn [rbind]; [|discriminate].
  destruct (um_oper (u_modes u)); [|intros [= <-]; reflexivity].
  destruct (users s !! nickname) as [v|]; [|intros [= <-]; reflexivity].
  destruct (u_kill v); intros [= <-]; reflexivity.
Qed.

Lemma chans_same_die i s c message r : process_die cfg i s c message = Ok r -> chans (h_sh r) = chans s.
Proof.
  unfold process_die. destruct (own_nick c) as [nick|]; cbn [rbind]; [|discriminate].
  destruct (get_user s nick) as [u|]; cbn [rbind]; [|discriminate].
  destruct (um_oper (u_modes u)); intros [= <-]; reflexivity.
Qed.

Lemma chans_same_away i s c text r : process_away cfg i s c text = Ok r -> chans (h_sh r) = chans s.
Proof.
  unfold process_away. destruct (own_nick c) as [nick|]; cbn [rbind]; [|discriminate].
  unfold get_user. destruct (users s !! nick) as [u|]; cbn [rbind]; [|discriminate]. intros [= <-]. reflexivity.
Qed.

(* every command of a registered connection other than MODE: a channel present before and after keeps its settings *)
Theorem dispatch_topic i s c cmd msg r :
  InvS s -> conn_ok i s c -> c_auth c = true ->
  dispatch cfg verify i s c cmd msg = Ok r -> (forall ch t, cmd <> TOPIC ch t) -> tkeeps s (h_sh r).
Proof.
  intros I C A H Hnm.
  assert (forall r0, same_result s c r0 -> tkeeps s (h_sh r0)) as Same.
  { intros r0 [E _]. rewrite E. apply tkeeps_chans_eq. reflexivity. }
  assert (forall (P : res hres), (exists r0, P = Ok r0 /\ same_result s c r0) -> P = Ok r -> tkeeps s (h_sh r)) as S2.
  { intros P [r0 [-> Hs]] [= <-]. now apply Same. }
  assert (forall o, Ok {| h_sh := s; h_conn := c; h_out := o; h_quit := false |} = Ok r -> tkeeps s (h_sh r)) as S3.
  { intros o [= <-]. apply tkeeps_chans_eq. reflexivity. }
  assert (forall s1, chans s1 = chans s -> tkeeps s s1) as SC by (intros s1 E; now apply tkeeps_chans_eq).
  destruct (own_user i s c C A) as [nick [u [Hn [Hu [Hc [Ho Hg]]]]]].
  destruct cmd; cbn [dispatch] in H.
  - (* CAP *) unfold process_cap in H. destruct sub.
    + injection H as <-. apply SC. reflexivity.
    + injection H as <-. apply SC. reflexivity.
    + destruct caps as [cs|]; [destruct (forallb _ cs)|]; injection H as <-; apply SC; reflexivity.
    + rewrite A in H. injection H as <-. apply SC. reflexivity.
  - injection H as <-. apply SC. reflexivity.
  - unfold process_pass in H. rewrite A in H. injection H as <-. apply SC. reflexivity.
  - (* NICK: channels are renamed in place *)
    destruct (decide (nickname = nick)) as [->|Hne].
    { rewrite (process_nick_same cfg verify i s c msg nick A Hn) in H. injection H as <-. apply SC. reflexivity. }
    destruct (users s !! nickname) as [x|] eqn:Hx.
    { rewrite (process_nick_refused cfg verify i s c nickname msg nick x A Hn Hne Hx) in H. injection H as <-. apply SC. reflexivity. }
    destruct (process_nick_effect cfg verify i s c nickname msg nick u I A Hn Hu Hne Hx) as [r0 [Hr [_ [_ [_ [Hch _]]]]]].
    rewrite Hr in H. injection H as <-. intros ch co co' H1 H2. rewrite Hch, H1 in H2.
    destruct (bool_decide _); cbn in H2; injection H2 as <-; reflexivity.
  - unfold process_user in H. rewrite A in H. injection H as <-. apply SC. reflexivity.
  - injection H as <-. apply SC. reflexivity.
  - injection H as <-. apply SC. reflexivity.
  - (* OPER *)
    destruct (oper_spec cfg verify i s c name password nick u Hn Hu) as [r0 [Hr [_ [_ Hacc]]]].
    rewrite Hr in H. injection H as <-. destruct (oper_accepted cfg verify c name password).
    + destruct Hacc as [_ [Hch _]]. now apply SC.
    + destruct Hacc as [E _]. rewrite E. apply SC. reflexivity.
  - (* QUIT *) injection H as <-. apply SC. reflexivity.
  - eapply join_tkeeps; eauto.
  - apply tshrink_tkeeps. eapply part_tshrink; eauto.
  - exfalso. eapply Hnm. reflexivity.
  - eapply S2; [|exact H]. now apply process_names_ok.
  - unfold process_list in H. destruct server; eapply S3; exact H.
  - apply SC. eapply chans_same_invite; eauto.
  - apply tshrink_tkeeps. eapply kick_tshrink; eauto.
  - unfold process_motd in H. destruct target; eapply S3; exact H.
  - unfold process_version in H. destruct target; eapply S3; exact H.
  - unfold process_admin in H. destruct target; eapply S3; exact H.
  - eapply S3; exact H.
  - unfold process_lusers in H. destruct (lusers_lines s (client_name c)); cbn [rbind] in H; [|discriminate]. eapply S3; exact H.
  - unfold process_time in H. destruct server; eapply S3; exact H.
  - unfold process_stats in H. destruct server; [eapply S3; exact H|].
    rewrite Ho in H. cbn [rbind] in H. rewrite Hg in H. cbn [rbind] in H. destruct (is_local_oper _); eapply S3; exact H.
  - unfold process_links in H. destruct remote_server, server_mask; eapply S3; exact H.
  - unfold process_help in H. destruct (help_topic _); eapply S3; exact H.
  - eapply S3; exact H.
  - eapply (mode_tkeeps i s c target modes r nick Ho); [congruence|exact H].
  - eapply S2; [|exact H]. now apply process_privmsg_ok.
  - eapply S2; [|exact H]. now apply process_privmsg_ok.
  - eapply S2; [|exact H]. now apply process_who_ok.
  - eapply S2; [|exact H]. now apply process_whois_ok.
  - unfold process_whowas in H. destruct server; eapply S3; exact H.
  - apply SC. eapply chans_same_kill; eauto.
  - eapply S3; exact H.
  - eapply S3; exact H.
  - unfold process_squit in H. destruct (bool_decide _); [apply SC; eapply chans_same_die; eauto|eapply S3; exact H].
  - apply SC. eapply chans_same_away; eauto.
  - eapply S3; exact H.
  - eapply S2; [|exact H]. now apply process_wallops_ok.
  - eapply S3; exact H.
  - apply SC. eapply chans_same_die; eauto.
Qed.

End frame.
